# sourced by every /verif command: the only toolchain that loads /repo offline (see DESIGN.md section 2)
export PATH=/opt/veriftools/go1.26.8/bin:$PATH
export GOTOOLCHAIN=local GOFLAGS=-mod=mod GOPROXY=off GOSUMDB=off CGO_ENABLED=0
unset GOWORK
