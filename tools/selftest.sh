#!/bin/bash
# usage: tools/selftest.sh [PROP...]   -- runs every seeded change (seeded/<P>/patch.diff) and every mutant (mutants/<P>*_*.patch)
# against the check of the property it breaks, in scratch copies; prints one line each. Expected: exit=1 for all of them,
# and exit=0 for variants/*.patch (behaviour-preserving edits that must stay silent).
cd "$(dirname "$0")/.."
want="$*"
sel() { [ -z "$want" ] || echo " $want " | grep -q " $1 "; }
for d in seeded/*/; do
  D=$(basename $d); P=${D%[a-z]}; sel $P || continue
  [ -f $d/patch.diff ] && tools/mutant.sh $d/patch.diff $P 2>&1 | sed "s/^MUTANT patch.diff/SEEDED $D/" | cut -c1-220
done
for m in mutants/*.patch; do
  b=$(basename $m); props=$(echo ${b%%_*} | sed 's/C/ C/g')
  for P in $props; do sel $P || continue; tools/mutant.sh $m $P 2>&1 | cut -c1-220; done
done
for v in variants/*.patch; do
  [ -f "$v" ] || continue
  b=$(basename $v); props=$(echo ${b%%_*} | sed 's/C/ C/g')
  for P in $props; do sel $P || continue; tools/mutant.sh $v $P 2>&1 | sed 's/^MUTANT/VARIANT/' | cut -c1-220; done
done
