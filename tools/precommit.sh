#!/bin/bash
# usage: tools/precommit.sh  -- development aid: the checker must build and the manifest must validate before a commit.
cd /verif && . bin/env.sh && (cd checker && go build -o /dev/null . ) && python3-vt -c "
import json,jsonschema
jsonschema.validate(json.load(open('/verif/MANIFEST.json')),json.load(open('/root/.vp/MANIFEST.schema.json')))" && echo PRECOMMIT-OK
