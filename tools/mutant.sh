#!/bin/bash
# usage: tools/mutant.sh <patch-file> <prop> [<prop>...]
# Applies one patch to a scratch copy of /repo (never to /repo itself), runs the named checks on the
# copy with a scratch verif dir (so /verif/evidence is untouched) and prints one line per check.
# Development aid and part of the thorough tier's self-test; the copy is removed afterwards.
set -u
VERIF="$(cd "$(dirname "$0")/.." && pwd)"
. "$VERIF/bin/env.sh"
PATCH="$(readlink -f "$1")"; shift
S=$(mktemp -d /tmp/vmut.XXXXXX)
trap 'rm -rf "$S"' EXIT
mkdir -p "$S/repo" "$S/verif"
rsync -a --exclude .git /repo/ "$S/repo/"
cp "$VERIF/known_findings.txt" "$S/verif/"
if ! (cd "$S/repo" && patch -p1 -s --no-backup-if-mismatch < "$PATCH"); then
  echo "MUTANT $(basename "$PATCH"): PATCH-DOES-NOT-APPLY"; exit 2
fi
if ! (cd "$S/repo" && go build ./... ) >"$S/build.log" 2>&1; then
  echo "MUTANT $(basename "$PATCH"): DOES-NOT-COMPILE"; head -5 "$S/build.log"; exit 2
fi
rc_all=0
for P in "$@"; do
  "$VERIF/bin/vcheck" -prop "$P" -tier quick -repo "$S/repo" -verif "$S/verif" >"$S/out.$P" 2>&1
  rc=$?
  what=$(grep -m3 "^  violated:" "$S/out.$P" | sed 's/^  violated: //' | cut -c1-220)
  echo "MUTANT $(basename "$PATCH") prop=$P exit=$rc ${what}"
  if [ "${MUT_VERBOSE:-}" != "" ]; then cat "$S/out.$P"; fi
done
