#!/bin/bash
# usage: suite.sh [repo-dir]   -- runs the pinned suite in repo-dir (default /repo) and compares with BASELINE stable_pass.
# Not part of any registered check; development aid for validating fix: commits and seeded mutants.
D=${1:-/repo}
export PATH=/opt/veriftools/go1.26.8/bin:$PATH GOTOOLCHAIN=local GOFLAGS=-mod=mod GOPROXY=off GOSUMDB=off
unset GOWORK
OUT=$(mktemp /tmp/suite.XXXXXX.json)
(cd "$D" && go test -json -vet=off -count=1 -timeout 25m ./... > "$OUT" 2>/dev/null)
python3 - "$OUT" <<'PY'
import json,sys
base=json.load(open('/root/.vp/BASELINE.json'))
stable=set(base['stable_pass'])
res={}
for l in open(sys.argv[1]):
    try: e=json.loads(l)
    except Exception: continue
    if e.get('Test') and e.get('Action') in('pass','fail','skip'):
        res[e['Package']+'::'+e['Test']]=e['Action']
bad=[t for t in stable if res.get(t)!='pass']
print('stable',len(stable),'ran',len(res),'not-passing',len(bad))
for t in sorted(bad)[:40]: print('  NOT PASS:',t,res.get(t))
sys.exit(1 if bad else 0)
PY
rc=$?
rm -f "$OUT"
exit $rc
