#!/bin/bash
# usage: suite.sh [repo-dir]   -- runs the pinned suite in repo-dir (default /repo) and compares with BASELINE stable_pass.
# Not part of any registered check; development aid for validating fix: commits and seeded mutants.
D=${1:-/repo}
export PATH=/opt/veriftools/go1.26.8/bin:$PATH GOTOOLCHAIN=local GOFLAGS=-mod=mod GOPROXY=off GOSUMDB=off
unset GOWORK
OUT=$(mktemp /tmp/suite.XXXXXX.json)
(cd "$D" && go test -json -vet=off -count=1 -timeout 25m ./... > "$OUT" 2>/dev/null)
python3 - "$OUT" "$D" <<'PY'
import json,sys
base=json.load(open('/root/.vp/BASELINE.json'))
stable=set(base['stable_pass'])
res={}
for l in open(sys.argv[1]):
    try: e=json.loads(l)
    except Exception: continue
    if e.get('Test') and e.get('Action') in('pass','fail','skip'):
        res[e['Package']+'::'+e['Test']]=e['Action']
bad=[t for t in stable if res.get(t)!='pass']
print('stable',len(stable),'ran',len(res),'not-passing',len(bad))
# a test that fails in the loaded full run but passes alone (3 of 3) is a load flake, reported as such
import subprocess,os,re
really=[]
for t in sorted(bad)[:40]:
    pkg,name=t.split('::',1)
    top=name.split('/')[0]
    rel='./'+pkg[len('github.com/valyala/fasthttp'):].lstrip('/') if pkg!='github.com/valyala/fasthttp' else '.'
    ok=True
    for i in range(3):
        pr=subprocess.run(['go','test','-vet=off','-count=1','-timeout','10m','-run','^'+re.escape(top)+'$',rel],cwd=sys.argv[2],stdout=subprocess.PIPE,stderr=subprocess.STDOUT)
        if pr.returncode!=0: ok=False; break
    print('  NOT PASS in the full run:',t,res.get(t),'-> alone 3x:', 'pass (load flake)' if ok else 'FAIL')
    if not ok: really.append(t)
if len(bad)>40: really.append('more than 40 failures')
sys.exit(1 if really else 0)
PY
rc=$?
rm -f "$OUT"
exit $rc
