#!/usr/bin/env python3
# usage: tools/mktables.py [selftest-log]   -- development aid: rewrites the generated catch-matrix section of DESIGN.md
# from the last self-test log (default /verif/selftest_last.log) and the seeded/*/meta.json summaries.
import json,sys,re,os,glob
log=sys.argv[1] if len(sys.argv)>1 else '/verif/selftest_last.log'
rows=[]
for l in open(log):
    m=re.match(r'^(SEEDED|MUTANT|VARIANT) (\S+) prop=(\S+) exit=(\d+)\s*(.*)$',l.rstrip())
    if not m: continue
    kind,name,prop,rc,rest=m.groups()
    rule=''
    mm=re.search(r'rule=(\S+)',rest)
    if mm: rule=mm.group(1)
    rows.append((kind,name,prop,int(rc),rule))
def summ(name):
    try:
        s=json.load(open('/verif/seeded/%s/meta.json'%name)).get('summary','')
    except Exception: return ''
    s=re.sub(r'\s+',' ',s)
    s=s.replace('|','/')
    return (s[:150]+'…') if len(s)>150 else s
out=[]
seeds=[r for r in rows if r[0]=='SEEDED']; muts=[r for r in rows if r[0]=='MUTANT']; vars_=[r for r in rows if r[0]=='VARIANT']
out.append('Self-test result: %d of %d seeded changes reported, %d of %d mutants reported, %d of %d variants silent.\n'%(
  sum(1 for r in seeds if r[3]==1),len(seeds),sum(1 for r in muts if r[3]==1),len(muts),sum(1 for r in vars_ if r[3]==0),len(vars_)))
out.append('| seeded change | check | verdict | first rule that reports it | what was changed (agent\'s summary, shortened) |')
out.append('|---|---|---|---|---|')
for k,n,p,rc,rule in seeds:
    out.append('| seeded/%s | %s | %s | %s | %s |'%(n,p,'VIOLATION' if rc==1 else ('MISSED' if rc==0 else 'exit %d'%rc),rule,summ(n)))
out.append('')
out.append('| mutant (mutants/…) | check | verdict | first rule that reports it |')
out.append('|---|---|---|---|')
for k,n,p,rc,rule in muts:
    out.append('| %s | %s | %s | %s |'%(n.replace('.patch',''),p,'VIOLATION' if rc==1 else ('MISSED' if rc==0 else 'exit %d'%rc),rule))
out.append('')
out.append('| variant (variants/…) | check | verdict |')
out.append('|---|---|---|')
for k,n,p,rc,rule in vars_:
    out.append('| %s | %s | %s |'%(n.replace('.patch',''),p,'silent' if rc==0 else 'ALARM (exit %d)'%rc))
d=open('/verif/DESIGN.md').read()
a='<!-- BEGIN GENERATED catch-matrix -->'; b='<!-- END GENERATED catch-matrix -->'
i=d.index(a)+len(a); j=d.index(b)
open('/verif/DESIGN.md','w').write(d[:i]+'\n'+'\n'.join(out)+'\n'+d[j:])
print(out[0])
