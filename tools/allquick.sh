#!/bin/bash
# usage: allquick.sh [tier]  -- runs every claimed check once and prints one summary line per property (development aid).
cd /verif
T=${1:-quick}
for P in $(python3 -c "
import json;print(' '.join(c['property_id'] for c in json.load(open('/verif/MANIFEST.json'))['checks']))"); do
  out=$(VERIF_NO_SELFTEST=1 bin/check $P $T 2>&1); rc=$?
  echo "$P rc=$rc $(echo "$out" | grep '^property' | cut -c1-120)"
  echo "$out" | grep "violated:\|undecided:\|VIOLATION" | cut -c1-300
done
