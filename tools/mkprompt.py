#!/usr/bin/env python3
# usage: mkprompt.py <root> <PROP>...   -- development aid: writes <root>/prompts/<PROP>.txt, the task text for a seeding
# sub-agent (property text only, nothing from /verif except the summaries of earlier seeds for diversity).
import json,sys,os,glob
root=sys.argv[1]
props={}
for l in open('/verif/properties.jsonl'):
    p=json.loads(l); props[p['id']]=p
os.makedirs(root+'/prompts',exist_ok=True)
for P in sys.argv[2:]:
    p=props[P]; wt='%s/%s'%(root,P); lo=P.lower()
    mech='\n'.join('  - %s: %s'%(m['name'],m['where']) for m in p['anchors'].get('mechanism',[]))
    state='\n'.join('  - %s'%(json.dumps(s) if not isinstance(s,str) else s) for s in p['anchors'].get('state',[])) if p['anchors'].get('state') else ''
    prev=[]
    for d in sorted(glob.glob('/verif/seeded/%s*/meta.json'%P)):
        try: prev.append(json.load(open(d)).get('summary','')[:700])
        except Exception: pass
    div=''
    if prev:
        div='\nIMPORTANT - DIVERSITY: other engineers already produced seeded bugs for this property. Yours must be clearly DIFFERENT from all of them: a different function / mechanism / clause of the property. The existing ones are:\n'+'\n'.join('  (%d) "%s"'%(i+1,s) for i,s in enumerate(prev))+'\nDo not touch the same lines or the same idea.\n'
    t=f'''You are helping test a verification effort for the Go library valyala/fasthttp. Your job: produce ONE realistic, subtle code change ("seeded bug") to fasthttp that BREAKS the property below, while the code still compiles and the existing test suite still passes.

PROPERTY {P}: {p['title']}
Statement: {p['statement']}
Quantified over: {p['quantifier']['text']}
Where the mechanism lives (files: {', '.join(p['anchors'].get('files',[]))}):
{mech}
{('State involved:'+chr(10)+state) if state else ''}

YOUR WORKSPACE: a scratch git worktree of the repository at {wt} (detached HEAD). Work ONLY there. Never touch /repo or /verif (do not even read /verif). Do not commit.

ENVIRONMENT (no network): before any go command run
  export PATH=/opt/veriftools/go1.26.8/bin:$PATH GOTOOLCHAIN=local GOFLAGS=-mod=mod GOPROXY=off GOSUMDB=off; unset GOWORK
Run the suite with: cd {wt} && go test -vet=off -count=1 -timeout 20m ./...   (takes a few minutes; known flaky under load, unrelated to you: TestRevertPull1233, TestClientHeadWithBody - rerun those alone if they fail).
{div}
REQUIREMENTS for the change:
1. It must violate the property (a real behavioural violation, observable with the real code), not merely change style.
2. It must still compile (go build ./... and go vet-free is fine) and the whole existing test suite must still pass with it.
3. It must NOT be something ordinary use exposes at once. It should need something specific to manifest: a particular interleaving, a fault at a particular point, a multi-step sequence of operations, an unusual input or configuration, or two cooperating sites that each look fine alone. Prefer changes a tired maintainer could plausibly make in a refactor or "optimisation" (a dropped assignment on one branch, a guard weakened, a cleanup moved before an early return, a condition reordered, a new fast path that skips a step, state kept in a variable that outlives the loop iteration it belongs to, an alias kept past the lock that protected it) over artificial sabotage. Keep it small (ideally < 15 changed lines) and confined to non-test .go files.
4. Write a demonstration: a NEW Go test file in the worktree (name it zz_seeded_{lo}_test.go, in the package it needs) with a test named TestSeeded{P} that FAILS with your change applied and PASSES on the unmodified code. It must be deterministic (or loop enough to be reliable) and finish in < 30 s.

DELIVERABLES (write these files, then stop):
- {wt}/SEEDED/patch.diff : output of `git diff` for the non-test source change only (must apply with `git apply` to a clean checkout of HEAD).
- {wt}/SEEDED/<the demonstration test file> (a copy of it).
- {wt}/SEEDED/meta.json : {{"property": "{P}", "summary": "<what you changed>", "needs_to_manifest": "<what specific input/schedule/sequence is needed>", "demo_test": "<package dir and test name>", "verified": {{"suite_passes_with_change": true/false, "demo_fails_with_change": true/false, "demo_passes_without_change": true/false}}, "commands_run": ["..."]}}
Verify all three booleans yourself by actually running the commands (use `git apply -R` / `git apply` to test without the change). In your final answer, briefly report the change, why it breaks the property, and the verification results. If you notice that the UNMODIFIED code already violates the property somewhere, say so in your final answer too (with the input that shows it). If after serious effort you cannot find a change that passes the suite, deliver the closest candidate and say exactly which tests fail.

Notes: fasthttpproxy TestDialerGetDialFunc fails in this sandbox even on unmodified code (needs DNS): ignore it. tcplisten tests use a fixed port and may clash with other jobs: rerun alone. When running `go test ./...` move the SEEDED directory aside. Do NOT use `git stash` (shared between worktrees); use `git apply -R` / `git apply`. The machine is shared: timeouts in *Concurrent tests under load are flakes - rerun them alone (a test that passes alone 3 times is a flake).
'''
    open('%s/prompts/%s.txt'%(root,P),'w').write(t)
    print('wrote',P)
