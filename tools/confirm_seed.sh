#!/bin/bash
# usage: [WTROOT=/tmp/wt2 SUFFIX=b] tools/confirm_seed.sh <PROP> [<pkgdir>]
# Confirms a sub-agent's seeded change in its scratch worktree $WTROOT/<PROP> (default /tmp/wt); result goes to seeded/<PROP>$SUFFIX:
#   demo fails with the change, passes without it, pinned suite passes with it.
# On success copies patch.diff, the demo and meta.json (plus confirmation) to /verif/seeded/<PROP>/,
# then removes the worktree. Development aid only; never touches /repo's working tree.
set -u
P="$1"; PKG="${2:-.}"
WTROOT="${WTROOT:-/tmp/wt}"; SUFFIX="${SUFFIX:-}"; D="$P$SUFFIX"
WT=$WTROOT/$P
VERIF=/verif
. $VERIF/bin/env.sh
export CGO_ENABLED=1
SD=$WTROOT/seeds/$P
mkdir -p $WTROOT/seeds
if [ -d "$WT/SEEDED" ]; then rm -rf "$SD"; mv "$WT/SEEDED" "$SD"; fi
[ -f "$SD/patch.diff" ] || { echo "no patch for $P"; exit 2; }
DEMO=$(ls "$SD"/*_test.go | head -1)
cd "$WT" || exit 2
git checkout -q -- . ; git clean -fdq
git apply "$SD/patch.diff" || { echo "$P: patch does not apply to its own base"; exit 2; }
cp "$DEMO" "$WT/$PKG/"
go test -vet=off -count=1 -timeout 5m -run "TestSeeded$P" "./$PKG" > $WTROOT/seeds/$P.with.log 2>&1; WITH=$?
git apply -R "$SD/patch.diff"
go test -vet=off -count=1 -timeout 5m -run "TestSeeded$P" "./$PKG" > $WTROOT/seeds/$P.without.log 2>&1; WITHOUT=$?
git apply "$SD/patch.diff"
rm -f "$WT/$PKG/$(basename "$DEMO")"
$VERIF/tools/suite.sh "$WT" > $WTROOT/seeds/$P.suite.log 2>&1; SUITE=$?
echo "$P: demo-with-change exit=$WITH (want !=0)  demo-without exit=$WITHOUT (want 0)  suite-with-change exit=$SUITE (want 0)"
tail -3 $WTROOT/seeds/$P.suite.log
if [ $WITH -ne 0 ] && [ $WITHOUT -eq 0 ] && [ $SUITE -eq 0 ]; then
  mkdir -p $VERIF/seeded/$D
  cp "$SD/patch.diff" "$DEMO" $VERIF/seeded/$D/
  python3 - "$SD/meta.json" "$VERIF/seeded/$D/meta.json" "$P" "$PKG" <<'PY'
import json,sys
try: m=json.load(open(sys.argv[1]))
except Exception as e: m={"note":"agent meta unreadable: %s"%e}
m["confirmed_by_me"]={"demo_fails_with_change":True,"demo_passes_without_change":True,"pinned_suite_passes_with_change":True,
  "how":"tools/confirm_seed.sh %s %s: go test -run TestSeeded%s with and without patch.diff in a scratch worktree; tools/suite.sh (BASELINE stable_pass comparison) with the patch applied"%(sys.argv[3],sys.argv[4],sys.argv[3])}
json.dump(m,open(sys.argv[2],"w"),indent=1)
PY
  echo "$P: CONFIRMED -> /verif/seeded/$D"
else
  echo "$P: NOT CONFIRMED"
fi
cd /; git -C /repo worktree remove --force "$WT"; rm -rf "$SD.keep"; 
