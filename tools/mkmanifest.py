#!/usr/bin/env python3
"""Regenerates /verif/MANIFEST.json from the table below (kept next to the rules so that
claims, techniques and not-applicable reasons stay current). Run: python3 tools/mkmanifest.py"""
import json, os, subprocess, sys

VERIF = os.path.dirname(os.path.dirname(os.path.abspath(__file__)))

# property -> (technique, level text, level note, design ref)
# property -> technique (the level text comes from the checker's own description of the rules: vcheck -list-json)
TECHNIQUE = {
 "C01": "path-sensitive exploration (event bits for Content-Length / Transfer-Encoding matches, facts on connectionClose and the framing cell) of the request head field loop; serve-loop error exploration; byte-comparison coverage of the chunk-size scanner; return classification of the body readers the serve loop dispatches (rejection / framed-reader verdict / success guarded by the declared framing); callee identity of every comparison of a scanned field name with a framing field name; reader-release rule of the serve loop (released between requests only when found empty or on an error)",
 "C03": "value-flow to the bounding writer and bounded-use classification of its methods, path-sensitive nil-return exploration of writeBodyFixedSize, control-dependence of body emission on the no-body predicate, must-pass rules in SetContentLength, serve-loop HEAD exploration; chunk-marker rule (terminator is last, data chunks length-tested); Content-Length installation through the generic setter removes Transfer-Encoding on every path; chunked stream writer: data already read is framed before a read error ends the loop",
 "C02": "path-sensitive exploration of the serve loop's SSA CFG over a finite abstraction (event bits + boolean/nil facts): must-close / must-check obligations per iteration; must-pass (reach-avoiding) rule: chunked-EOF flag raised only after the trailer reader and an examination of its error; use-after-release rule for the pooled request stream held in a field (releasing routines derived through parameter flow); reader-release rule of the serve loop (no release while a body stream may read through it)",
 "C04": "connection typestate in RoundTrip by path-sensitive exploration (dispose-exactly-once counter, pooled-only-after-clean-read), control-dependence of pooling in the stream-close closure, select-case typestate of pooled pipeline work items, per-item typestate of the pipeline writer; header-overwrite-before-close ordering rule with inputs recomputed from the stream-close closure (must-write summaries); restore-before-hand-back rule for Response.SkipBody (reach-avoiding from the raising store to every return / completion send); completion-channel typestate of the pipeline worker (pending queue drained only after both goroutines reported their end); dual drain rule: no return of the pipeline worker with both goroutines stopped before the pending queue was found empty",
 "C39": "typestate of spawned children by path-sensitive exploration of the supervision function (recorded + waited before any return, hook or next spawn), dominance of the deferred teardown, ordering rules (reach-avoiding searches) inside the teardown; dominance of cmd.Wait() over the creation of every RecoverInterval timer; grace timer created outside loops",
 "C40": "loop-carried tuple coupling by alias-tracking exploration of the selection loop, penalty pairing (counters in the abstract state), nil-result handling and panic reachability over the static call graph; self-derivation of every assignment of the candidate list; lockset and container-alias check of the candidate list; interval bound of the post-increment penalty from the guards of the 'kept' return (atomic add or compare-and-swap form)",
 "C41": "semaphore pairing and select-case typestate by path-sensitive exploration of tryDial, provenance of the connect context's bound, wrap-on-return rule, must-pass rules in the rotation loop; must-pass rule for the lazy creation of the concurrency channel on every configuration branch; deadline examination on the resolver-failure return; value-identity rule: the deadline argument handed on resolves to the routine's own deadline parameter on every merge edge",
 "C05": "backward cleanliness (taint) analysis with sanitiser classes over SSA: reaching definitions of scratch fields, in-place and returning neutraliser summaries, call-site resolution of helper parameters, induction over checked storage fields; neutraliser shape precondition; scan-coverage of the neutralisers in the zone (difference-bound) domain; proxy CONNECT target: whole-string CR/LF test of every value written to the proxy (provenance through closures and field stores)",
 "C06": "as C05 with two sanitiser classes (CR/LF and ';') for Cookie fields and the request cookie list; out-parameter completeness of the cookie scanners by path-sensitive exploration; one-field-per-attribute rule for the cookie parser (may-write sets of callees per attribute branch)",
 "C07": "limit-flow: interprocedural propagation of limit parameters, use classification (compared / limited reader / forwarded), loop-carried staleness of the serve loop's limit variable, must-pass rules on the error response path; per-path must-precede rule for buffering reads in limit-rejecting functions; forwarded-limit rule: a limit passed to a limit-taking callee is never merged with a non-positive constant where the received limit is positive; default-limit rule: limit-taking calls of the serve loop receive the raw configuration field",
 "C10": "backward condition slicing (interprocedural atoms of the close decision) + path-sensitive exploration of the serve loop; loop-exit classification after a written response; callee identity of every comparison with the close token; optional-whitespace class of the list-member trimmer (byte constants / Trim cut sets); must-pass rule: a store lowering the close flag is followed on every path by the removal of the stored Connection entries",
 "C11": "field-coverage must-analysis of reset methods (forward dataflow, intersection at joins, callee summaries) + loop-carried staleness exploration of the serve loop; ctx-state family: handler-settable RequestCtx fields (derived from exported setters) cleared / found zero / replaced on every path to the next request; slot-fill rule for recycled args/cookie entries",
 "C12": "counter pairing by path-sensitive exploration with counters in the abstract state (deferred calls applied at exit, ownership hand-offs as rule events), control-dependence of admission on the limit comparison, must-pass rules on rejection paths; must-assignment of every field of a pooled per-IP wrapper on the acquiring paths that hand it out; discriminator-agnostic unregister pairing of the wrappers' Close (closed flag or taken connection); worker-loop terminal rule shared with C13",
 "C13": "lockset must-analysis (guarded-by table), critical-section atomicity by reach-avoiding searches, path-sensitive per-iteration typestate of the worker loop; container-alias escape analysis on guarded slices; who-may-write rule for the worker count (start +1, exit -1, at most once per path); must-precede rule: fresh clock reading stored into the appended worker's idle stamp on every path of release to the append",
 "C14": "typestate automaton over constant ConnState arguments explored on every path of the serve loop's SSA CFG; typestate of callers that run the serve loop and report states themselves; identity of the connection value passed to the hook; pooled wrapper recycled only after the terminal report (dominance of the StateClosed report over every call of the releasing routine)",
 "C15": "path-sensitive exploration of the serve loop: ordering of idle-marker stores, handler dispatch and stop-flag loads; dirty-writer typestate (written response flushed before a nil-result end); done-channel / flag coupling by reach-avoiding searches; idle marker only with an empty write buffer (dirty-writer bit of the serve-loop exploration); lock span of ShutdownWithContext; must-pass rule on the drain loop: success exit only through a zero test of the open counter itself (value identity of the tested operand)",
 "C16": "path-sensitive exploration of the serve loop's timeout branch: value identity of the ctx written/released, stale-field reads after the swap; semaphore placement rules for the timeout wrapper (release only after the wrapped handler, in its goroutine; creation-on-read of the channel); re-imposition of ctx bookkeeping after every (re)acquisition of the ctx; reachability of connection writes from exported RequestCtx methods, accepted only under the ctx's timeout lock after a nil test of timeoutResponse, with the installation under the same lock",
 "C17": "path-sensitive exploration (ordering and never-after rules) of the serve loop's hijack branch and of hijackConnHandler; ctx-state family for hijack fields; must-pass rule: unconditional SetDeadline(zero) between any armed deadline and the hijack hand-off; never-after rule: no wrapper-recycling call with the value reported StateHijacked before the variable is redefined",
 "C18": "connsCount pairing per function (counters in the abstract state, contracts of callees), lockset must-analysis with a guarded-by table, bound check control-dependence and critical-section atomicity by reach-avoiding searches; container-alias escape analysis on the idle list; waiter cancellation on every give-up return (deferred closure or reach-avoiding search); wantConn.cancel: lock precedes every return, delivered connection read under the lock and given back on every non-nil path (edge-sensitive walk at the nil test)",
 "C19": "path-sensitive exploration of the retry loop (per-transmission must-pass events, loop-invariance of the body-stream flag, retry-decision phi), condition atoms of the idempotency predicate, constant retry flags of the transport's early returns; counter monotonicity: the value compared with the limit and the loop-carried value are the header counter plus a positive step on every merge edge",
 "C20": "reach-avoiding (must-pass) searches between hops of the redirect loop, constant sets of deleted header names, backward value slicing of the trust anchor (derives from the URL string, not from Request storage; loop-invariant); path rule for the 303 teardown (every step on every path through the branch), callee classification of the strip's deleters (case-insensitive over stored names) and of the host comparison (ASCII-only folding); path rule: every return of the case-insensitive deleter follows the sweep or a 'normalised' test; comparator bodies scanned for bit-or folding",
 "C21": "path-sensitive exploration: scheme comparison on every path to the transport, TLS-typed results of dialAddr under the TLS flag; value-flow of the map-selecting flag into HostClient.IsTLS; derivation/examination rule for every re-parse during reference resolution; information-loss rule: a function that copies URI.RequestURI() into the header does not lower parsedURI (may-analysis over callees); parse-error test dominates the scheme comparison; lockset and container-alias check of the idle-connection list; who-may-write rule on *tls.Config parameters (base of every store resolves to a fresh object or a Clone on every phi edge)",
 "C22": "result-use analysis of stackless function values (SSA referrers, reach-avoiding search on the queue-full edge), sibling cross-check of the body compressors, control-dependence of coder selection; buffer-release ordering in the body compressors; zone analysis of level normalisers against the codec packages' level constants; acquire/release pool identity of pooled codecs (origin tracing through merges and conversions, pool globals compared); list-member matching on every no-write return of the Vary helper; sibling agreement on the Response fields the body compressors assign; must-pass rule: the encoding is announced only after the compressed stream or buffer was installed; option table for asynchronous codecs (zstd encoder built with concurrency 1)",
 "C34": "reach-avoiding searches in the stream closers and writers, classification of every store to a bodyStream field (wrap/swap, dominated by the closer, read path); lockset check of the once-guard of the compressed stream wrapper; pooled-stream field coverage (must-write on release or acquire); bounded-writer rule shared with C03; chunked writer frames read data before its error ends the loop (shared with C03.R7)",
 "C35": "path-sensitive typestate of *multipart.Form values from their producing call to every return; dominance of RemoveAll over nil stores; reset coverage; serve-loop must-reset; emptiness typestate of the form slot at every store (with derived must-clear / may-fill routine sets and caller discharge), ctx release-or-hand-over typestate of the serve function under a checked sentinel premise; loop rule in WriteMultipartForm: no back edge without a part-creating call",
 "C37": "lockset must-analysis against a frozen guarded-by table (discovered statistically, confirmed by reading), atomic-access consistency over all loads/stores, publish-immutability of lock-free shared entries; container-alias escape analysis on every guarded slice/map; Server fields read by RequestCtx methods and assigned by Server methods join the table on every run; same-field copy rule between two RequestCtx objects; who-may-write rule for the embedded connection of pooled wrappers; release typestate of pipeline work items; reader-release rule of the serve loop (shared with C02.R5)",
 "C38": "typestate over select cases (timer / queue / completion) explored on every path of the deadline call; shape of the overflow return; non-nil-ness (facts / sentinel identity) of every error stored into a work item by the connection goroutines; release typestate of pipeline work items (pooled only after the completion was received); pending-queue drain rules of the pipeline worker (shared with C04.R9/R10)",
 "C23": "path-sensitive exploration of the FS request handler (guards before every use of the path, correlated with the rewriter's nil-ness), who-may-call rule over file-system access sites, operand provenance of the normaliser's dot tests; exactness of the NUL guard decided in the zone domain; comparison provenance of the trailing-slash flag (only == '/') and control-dependence of the trim on that flag; path-sensitive exploration of pathToFilePath: the request path is appended after the root only behind a separator / leading slash / empty path / empty root",
 "C24": "zone (difference-bound) abstract interpretation of ParseByteRange path by path; path-sensitive exploration of the range branches of the FS handler; field re-arm coverage of pooled readers; window-bounded ReadAt buffers in the zone domain (field-load identity, slice lengths, one loop iteration from the header); control-dependence of Content-Encoding on the opened file's own flag; path-sensitive freshness rule for every place that opens an existing compressed copy; the modification-time stamp of a created file is reached only after its Close",
 "C25": "file-value typestate per function with ownership contracts of callees (path-sensitive exploration with a disposal counter), reader-count pairing in the handler, read-modify-write interference rule on tracking lists, lockset must-analysis; use-after-release rule for lists the file's Release walks; container-alias escape analysis; control-dependence of every map insertion on the manager's closed flag; control-dependence of every file-list append on the file's reader count; critical-section atomicity of 'closed = true' with the sweep of the maps (reach-avoiding search to every Unlock/return)",
 "C28": "classification of element moves in key/value slice routines by index provenance (len-derived vs forward) + who-may-shorten rule over all stores to Args storage; recycled-slot typestate (R-slot): path-sensitive exploration from allocArg to the next keep point with path-sensitive summaries of filler routines; comparison provenance of presence routines (no value-nil test feeds a returned bool); operand set of the keep condition in ParseBytes (lengths of key and value only)",
 "C29": "as C28 for header storage + sibling agreement of special-name tables + CopyTo field coverage (must-write and copied-from-same-field analyses); R-slot as C28; loop-carried-flag rule for the serialisers' per-field guard; generic-list coverage of every path of a special name's case; must-pass rule: every path of RequestHeader.del removes the name from the generic list; must-pass rule in collectCookies: every parsed line is removed by a shrinking store or a case-insensitive deleter",
 "C30": "constant evaluation (big-integer side conditions) + path-sensitive guard exploration on SSA; source classification of the returned accumulator (constants and digit-tested accumulate steps only); must-pass rule: no return of ParseUint without the scan; every shift-accumulate step of readHexInt guarded on its own",
 "C33": "typestate of connection ends and data buffers by path-sensitive exploration with select-case events (success exactly on hand-over paths, disposal otherwise), control-dependence of close() on not-yet-closed tests plus lockset, zone-decided exhaustion guard before fetching the next buffer, dominance of a post-wait non-blocking look over end-of-stream returns; no success signal on the closing path of Accept; zone-domain entailment len(bb) <= 0 at every release of the reader's current buffer",
 "C32": "exhaustive constant evaluation of the table constants and of the consumers' comparisons against reference predicates; dominance of the per-byte loop (or a five-byte shortcut test) over every return of the HTML escaper",
}
NOTES = {
 "C30": "Trusts go/types constant evaluation and go/ssa; the reference arithmetic is written in the checker.",
 "C32": "Reference predicates in the checker are the trusted oracle.",
}
DEFAULT_NOTE = "Trusts go/types and x/tools go/ssa (v0.50.0); the abstraction over-approximates paths (unknown conditions fork), callee effects on tracked memory are summarised conservatively; exemption tables in the checker carry one reason per entry."

# property -> reason (not claimed)
NOT_APPLICABLE = {
 "C08": "termination, panic-freedom and exact consumption of ~40 hand-written index-arithmetic parsers over arbitrary bytes need value-range reasoning across loops; no sound structural clause in reach that would not be a frozen shape match (DESIGN.md 4 C08)",
 "C09": "non-interference of the parse result with bytes after the blank line is a disagreement between two forward scans, not a flow/typestate/ordering fact; the one contradiction rule available is unsound because the scanner is shared with paths that legitimately need more input (DESIGN.md 4 C09)",
 "C26": "equality of a string transformer with RFC 3986 remove_dot_segments over all byte strings: value semantics, no structural necessary condition short of re-implementing the algorithm as a shape match",
 "C27": "parse/serialise round trip and agreement with net/url over all URI strings: value semantics, no static oracle",
 "C31": "agreement of hand-written date/IP parsers with the standard library over all strings: value semantics",
 "C36": "differential behaviour against net/http's server over handler programs: no static oracle",
}

PENDING_REASON = "check not built yet in this revision of /verif (planned, see DESIGN.md section 0); nothing is claimed until its rules exist and were validated both ways"

def main():
    props = [json.loads(l)["id"] for l in open(os.path.join(VERIF, "properties.jsonl"))]
    explain = json.loads(subprocess.check_output([os.path.join(VERIF, "bin", "vcheck"), "-list-json"]))
    CLAIMED = {pid: (TECHNIQUE[pid], explain[pid], NOTES.get(pid, DEFAULT_NOTE), "DESIGN.md 4 " + pid) for pid in TECHNIQUE if pid in explain}
    checks = []
    for pid in props:
        if pid not in CLAIMED:
            continue
        tech, text, note, ref = CLAIMED[pid]
        checks.append({
            "property_id": pid,
            "quick_cmd": "bin/check %s quick" % pid,
            "thorough_cmd": "bin/check %s thorough" % pid,
            "evidence_file": "/verif/evidence/%s.json" % pid,
            "replay_cmd_template": "bin/check %s quick  # witness: {path}" % pid,
            "engine": "vcheck",
            "level_claimed": {"category": "other", "text": text, "design_ref": ref},
            "level_note": note,
            "technique": "static analysis: " + tech,
        })
    na = []
    for pid in props:
        if pid in CLAIMED:
            continue
        na.append({"property_id": pid, "reason": NOT_APPLICABLE.get(pid, PENDING_REASON)})
    baseline = json.load(open("/root/.vp/BASELINE.json"))["cmd"] if os.path.exists("/root/.vp/BASELINE.json") else ""
    man = {
        "version": 1,
        "setup_cmd": "cd /verif && . bin/env.sh && cd checker && go build -o ../bin/vcheck .",
        "hooks": {
            "guard": "verif",
            "enable": "no hooks: the checks analyse /repo's source and execute nothing, so no instrumentation of /repo exists (build tag 'verif' is reserved but unused)",
            "baseline_off_cmd": baseline,
            "source_commits": [],
            "add_only": True,
        },
        "engines": [{
            "name": "vcheck", "path": "/verif/checker",
            "serves_properties": sorted(CLAIMED),
            "kind_free_text": "Go static analyser over go/packages + go/ssa (x/tools v0.50.0, go1.26.8): path-sensitive boolean/nil-ness exploration of SSA CFGs, pairing/typestate, must-pass/dominance rules, taint with sanitiser classes, reset/copy coverage, lockset, result-use, constant evaluation",
        }],
        "checks": checks,
        "not_applicable": na,
        "notes": "Every check is static: it loads /repo's current working tree with go/packages, builds SSA and evaluates rule instances located by role (types, callees, fields), never by line or text. Exit 0 = all obligations discharged; exit 1 + VIOLATION line = an obligation failed that known_findings.txt does not list; exit 3 = undecided (lost anchor, type error, analyser panic), which is a broken check and never a pass. All claims are at level 'other': structural necessary conditions of the behavioural property; each evidence file states what is not covered.",
    }
    json.dump(man, open(os.path.join(VERIF, "MANIFEST.json"), "w"), indent=1)
    print("claimed", len(checks), "not_applicable", len(na))

if __name__ == "__main__":
    main()
