#!/bin/bash
# usage: tools/reverify_seeds.sh [DIR...]  -- development aid: for every seeded/<D> (default all) checks on a scratch copy of the
# CURRENT /repo that the demonstration still fails with the patch applied (a later fix: commit can make a seeded change harmless;
# such a seed has to be retired to variants/). Prints one line per seed.
cd "$(dirname "$0")/.."
. bin/env.sh
export CGO_ENABLED=1
dirs="$*"; [ -z "$dirs" ] && dirs=$(ls seeded)
for D in $dirs; do
  d=seeded/$D
  [ -f $d/patch.diff ] || continue
  S=$(mktemp -d /tmp/vseed.XXXXXX)
  rsync -a --exclude .git /repo/ $S/repo/
  if ! (cd $S/repo && patch -p1 -s --no-backup-if-mismatch < $OLDPWD/$d/patch.diff) >/dev/null 2>&1; then echo "SEED $D: PATCH-DOES-NOT-APPLY"; rm -rf $S; continue; fi
  demo=$(ls $d/*_test.go | head -1)
  pkg=.
  grep -q '"demo_test"' $d/meta.json 2>/dev/null && grep -o '"demo_test": *"[^"]*"' $d/meta.json | grep -q prefork && pkg=prefork
  head -20 $demo | grep -q "^package prefork" && pkg=prefork
  head -20 $demo | grep -q "^package stackless" && pkg=stackless
  head -20 $demo | grep -q "^package fasthttputil" && pkg=fasthttputil
  cp $demo $S/repo/$pkg/
  P=${D%[a-z]}
  (cd $S/repo && go test -vet=off -count=1 -timeout 5m -run "TestSeeded$P\$" ./$pkg) > $S/log 2>&1; rc=$?
  if [ $rc -ne 0 ]; then echo "SEED $D: still breaking (demo fails with the patch)"; else echo "SEED $D: HARMLESS NOW (demo passes with the patch)"; fi
  rm -rf $S
done
