#!/bin/bash
# usage: tools/mkmut.sh <name> <file> <python-expr-old> <python-expr-new>  -- creates mutants/<name>.patch replacing one exact occurrence
set -e
NAME="$1"; FILE="$2"; OLD="$3"; NEW="$4"
S=$(mktemp -d /tmp/mkmut.XXXXXX); trap 'rm -rf $S' EXIT
mkdir -p $S/a $S/b; cp /repo/$FILE $S/a/$(basename $FILE); 
python3 - "$S/a/$(basename $FILE)" "$S/b/$(basename $FILE)" "$OLD" "$NEW" <<'PY'
import sys
s=open(sys.argv[1]).read()
old=sys.argv[3].encode().decode('unicode_escape'); new=sys.argv[4].encode().decode('unicode_escape')
assert s.count(old)==1, "occurrences: %d"%s.count(old)
open(sys.argv[2],'w').write(s.replace(old,new))
PY
(cd $S && diff -u a/$(basename $FILE) b/$(basename $FILE) | sed "s|^--- a/$(basename $FILE).*|--- a/$FILE|; s|^+++ b/$(basename $FILE).*|+++ b/$FILE|" > /verif/${OUTDIR:-mutants}/$NAME.patch) || true
echo "wrote ${OUTDIR:-mutants}/$NAME.patch ($(wc -l < /verif/${OUTDIR:-mutants}/$NAME.patch) lines)"
