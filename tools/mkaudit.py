#!/usr/bin/env python3
# usage: mkaudit.py <root> <PROP>...   -- development aid: writes <root>/prompts/<PROP>.txt, the task text for an auditing
# sub-agent (property text only, nothing from /verif): look for a violation of the property in the UNMODIFIED code.
import json,sys,os
root=sys.argv[1]
props={}
for l in open('/verif/properties.jsonl'):
    p=json.loads(l); props[p['id']]=p
os.makedirs(root+'/prompts',exist_ok=True)
for P in sys.argv[2:]:
    p=props[P]; wt='%s/%s'%(root,P); lo=P.lower()
    mech='\n'.join('  - %s: %s'%(m['name'],m['where']) for m in p['anchors'].get('mechanism',[]))
    t=f'''You are auditing the Go library valyala/fasthttp (a scratch copy) against ONE stated property. Your job: find out whether the UNMODIFIED code violates the property for some input, configuration, schedule or history, and if it does, demonstrate it with a test. Do NOT change any non-test source file.

PROPERTY {P}: {p['title']}
Statement: {p['statement']}
Quantified over: {p['quantifier']['text']}
Where the mechanism lives (files: {', '.join(p['anchors'].get('files',[]))}):
{mech}

YOUR WORKSPACE: a scratch git worktree of the repository at {wt} (detached HEAD). Work ONLY there. Never touch /repo or /verif (do not even read /verif). Do not commit.

ENVIRONMENT (no network): before any go command run
  export PATH=/opt/veriftools/go1.26.8/bin:$PATH GOTOOLCHAIN=local GOFLAGS=-mod=mod GOPROXY=off GOSUMDB=off; unset GOWORK

HOW TO WORK: read the code paths behind the property carefully (every branch, every error path, every configuration flag, unusual but legal API usage, legal-but-odd inputs, interleavings of the goroutines involved). Form concrete hypotheses ("if X happens between A and B then ..."), and TEST each one by writing a small Go test in the worktree (package fasthttp unless another package is needed; file name zz_audit_{lo}_test.go; test names TestAudit{P}_<short>). Use -race where a data race is the suspected mechanism. Spend your effort on hypotheses that would be real violations of the statement above, not on style or on documented limitations. Well-known, documented behaviour (e.g. 'the server is unusable after an erroring shutdown') is not a finding.

DELIVERABLE: for each hypothesis that you CONFIRMED with a failing test on the unmodified code, leave the test in {wt}/AUDIT/ (create the directory; copy the test file there) and describe: the exact sequence/input, what the property requires, what happens instead, and where in the code the cause is (file, function), plus the smallest fix you would propose. Also list briefly the hypotheses you tested that turned out fine (one line each) so nobody re-tests them. If you found nothing after a thorough look, say so plainly - that is a perfectly good result. Do not report anything you have not reproduced with a test.
'''
    open('%s/prompts/%s.txt'%(root,P),'w').write(t)
    print('wrote',P)
