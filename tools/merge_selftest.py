#!/usr/bin/env python3
"""usage: merge_selftest.py <PROP>...  -- development aid: re-runs tools/selftest.sh for the given properties and replaces
their lines in /verif/selftest_last.log (also drops lines of patches that no longer exist)."""
import re,subprocess,sys,os,glob
V='/verif'
def key(l):
    m=re.match(r'^(SEEDED|MUTANT|VARIANT) (\S+?)(?::| prop=(\S+))',l)
    return (m.group(1),m.group(2).rstrip(':'),m.group(3)) if m else None
new=[]
for P in sys.argv[1:]:
    out=subprocess.run([V+'/tools/selftest.sh',P],stdout=subprocess.PIPE,stderr=subprocess.STDOUT,text=True).stdout
    new+=out.split('\n')
newkeys={key(l) for l in new if key(l)}
exists=set(os.listdir(V+'/seeded'))|{os.path.basename(f) for f in glob.glob(V+'/mutants/*.patch')+glob.glob(V+'/variants/*.patch')}
res=[];skip=False
for l in open(V+'/selftest_last.log').read().split('\n'):
    k=key(l)
    if k:
        skip=(k in newkeys) or (k[1] not in exists) or (k[2] in sys.argv[1:])
    if not skip: res.append(l)
res+=[l for l in new if l.strip()]
open(V+'/selftest_last.log','w').write('\n'.join(res)+'\n')
print('merged',len([l for l in new if key(l)]),'lines')
