package repro

import (
	"bytes"
	"fmt"
	"mime/multipart"
	"net"
	"os"
	"path/filepath"
	"testing"
	"time"

	"github.com/valyala/fasthttp"
	"github.com/valyala/fasthttp/fasthttputil"
)

func bigUpload() []byte {
	var body bytes.Buffer
	mw := multipart.NewWriter(&body)
	fw, _ := mw.CreateFormFile("f", "big.bin")
	fw.Write(bytes.Repeat([]byte("x"), 16<<20+4096))
	mw.Close()
	var req bytes.Buffer
	fmt.Fprintf(&req, "POST /up HTTP/1.1\r\nHost: a\r\nContent-Type: %s\r\nContent-Length: %d\r\n\r\n", mw.FormDataContentType(), body.Len())
	req.Write(body.Bytes())
	return req.Bytes()
}

func tmpFiles(dir string) []string {
	m, _ := filepath.Glob(filepath.Join(dir, "multipart-*"))
	return m
}

// C35: a hijack is requested, but the response cannot be written (client gone): the ctx is neither released by the
// serve loop nor by hijackConnHandler (never started), so the upload's temporary file is never removed.
func TestTempFileLeakHijackWriteFails(t *testing.T) {
	dir := t.TempDir()
	t.Setenv("TMPDIR", dir)
	ln := fasthttputil.NewInmemoryListener()
	defer ln.Close()
	inHandler := make(chan struct{})
	proceed := make(chan struct{})
	s := &fasthttp.Server{MaxRequestBodySize: 64 << 20, Handler: func(ctx *fasthttp.RequestCtx) {
		if len(tmpFiles(dir)) == 0 {
			t.Errorf("no temp file while the handler runs: the test does not exercise what it should")
		}
		ctx.Hijack(func(net.Conn) {})
		close(inHandler)
		<-proceed
	}}
	go s.Serve(ln)
	c, _ := ln.Dial()
	go c.Write(bigUpload())
	<-inHandler
	c.Close() // the response cannot be delivered
	close(proceed)
	time.Sleep(300 * time.Millisecond)
	if left := tmpFiles(dir); len(left) > 0 {
		t.Errorf("temporary files left after the connection was closed: %v", left)
	}
}

// C35: KeepHijackedConns + ReduceMemoryUsage: hijackConnHandler keeps the ctx (rightly) but never resets its request.
func TestTempFileLeakKeptHijackedConn(t *testing.T) {
	dir := t.TempDir()
	t.Setenv("TMPDIR", dir)
	ln := fasthttputil.NewInmemoryListener()
	defer ln.Close()
	done := make(chan struct{})
	s := &fasthttp.Server{MaxRequestBodySize: 64 << 20, KeepHijackedConns: true, ReduceMemoryUsage: true, Handler: func(ctx *fasthttp.RequestCtx) {
		ctx.Hijack(func(c net.Conn) { c.Close(); close(done) })
	}}
	go s.Serve(ln)
	c, _ := ln.Dial()
	go c.Write(bigUpload())
	go func() { buf := make([]byte, 4096); for { if _, err := c.Read(buf); err != nil { return } } }()
	<-done
	time.Sleep(300 * time.Millisecond)
	c.Close()
	if left := tmpFiles(dir); len(left) > 0 {
		t.Errorf("temporary files left after the hijacked connection was closed: %v", left)
	}
	_ = os.Remove
}
