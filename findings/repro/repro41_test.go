package repro

import (
	"bufio"
	"net"
	"testing"
	"time"

	"github.com/valyala/fasthttp"
	"github.com/valyala/fasthttp/fasthttputil"
)

// C11: a per-request ReadTimeout returned by HeaderReceived for request A stayed armed on the connection. With no
// ReadTimeout/IdleTimeout configured nothing re-arms or clears the deadline for request B, so B (for which
// HeaderReceived asked for no timeout at all) is cut off by A's deadline.
func TestPerRequestReadTimeoutDoesNotOutliveItsRequest(t *testing.T) {
	s := &fasthttp.Server{
		Handler: func(ctx *fasthttp.RequestCtx) { ctx.WriteString("ok") },
		HeaderReceived: func(h *fasthttp.RequestHeader) fasthttp.RequestConfig {
			if string(h.RequestURI()) == "/a" {
				return fasthttp.RequestConfig{ReadTimeout: 150 * time.Millisecond}
			}
			return fasthttp.RequestConfig{}
		},
	}
	ln := fasthttputil.NewInmemoryListener()
	go s.Serve(ln) //nolint:errcheck
	defer ln.Close()
	c, err := ln.Dial()
	if err != nil {
		t.Fatal(err)
	}
	defer c.Close()
	br := bufio.NewReader(c)
	do := func(path string) error {
		if _, err := c.Write([]byte("GET " + path + " HTTP/1.1\r\nHost: x\r\n\r\n")); err != nil {
			return err
		}
		var resp fasthttp.Response
		c.(net.Conn).SetReadDeadline(time.Now().Add(2 * time.Second))
		return resp.Read(br)
	}
	if err := do("/a"); err != nil {
		t.Fatalf("request A: %v", err)
	}
	time.Sleep(400 * time.Millisecond)
	if err := do("/b"); err != nil {
		t.Fatalf("request B, sent 400ms after A on the same connection, with no timeout configured for it: %v", err)
	}
}
