package repro

import (
	"strings"
	"testing"
	"time"

	"github.com/valyala/fasthttp"
	"github.com/valyala/fasthttp/fasthttputil"
)

// C16/C11: ConnTime() after a timed-out request, and with ReduceMemoryUsage.
func TestConnTimeAfterSwap(t *testing.T) {
	for _, rmu := range []bool{false, true} {
		var zero []bool
		s := &fasthttp.Server{ReduceMemoryUsage: rmu}
		s.Handler = func(ctx *fasthttp.RequestCtx) {
			zero = append(zero, ctx.ConnTime().IsZero())
			if string(ctx.Path()) == "/slow" {
				ctx.TimeoutError("late")
			}
		}
		in := "GET /slow HTTP/1.1\r\nHost: x\r\n\r\nGET /b HTTP/1.1\r\nHost: x\r\n\r\n"
		if rmu {
			in = "GET /a HTTP/1.1\r\nHost: x\r\n\r\nGET /b HTTP/1.1\r\nHost: x\r\n\r\n"
		}
		c := &rwConn{r: strings.NewReader(in)}
		s.ServeConn(c)
		t.Logf("ReduceMemoryUsage=%v ConnTime().IsZero() per request: %v", rmu, zero)
	}
	// ReduceMemoryUsage with an idle gap between the requests
	ln := fasthttputil.NewInmemoryListener()
	var zero []bool
	s := &fasthttp.Server{ReduceMemoryUsage: true, Handler: func(ctx *fasthttp.RequestCtx) { zero = append(zero, ctx.ConnTime().IsZero()) }}
	go s.Serve(ln)
	c, _ := ln.Dial()
	buf := make([]byte, 4096)
	for i := 0; i < 2; i++ {
		c.Write([]byte("GET /a HTTP/1.1\r\nHost: x\r\n\r\n"))
		c.SetReadDeadline(time.Now().Add(time.Second))
		c.Read(buf)
		time.Sleep(50 * time.Millisecond)
	}
	c.Close()
	t.Logf("ReduceMemoryUsage + idle gap: ConnTime().IsZero() per request: %v", zero)
}

// C16: TimeoutHandler on a server that is only used through ServeConn.
func TestTimeoutHandlerServeConn(t *testing.T) {
	s := &fasthttp.Server{}
	s.Handler = fasthttp.TimeoutHandler(func(ctx *fasthttp.RequestCtx) { ctx.SetBodyString("ok") }, time.Second, "tmo")
	c := &rwConn{r: strings.NewReader("GET / HTTP/1.1\r\nHost: x\r\n\r\n")}
	err := s.ServeConn(c)
	t.Logf("err=%v out=%.120q", err, c.w.String())
}
