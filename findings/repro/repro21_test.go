package repro

import (
	"strings"
	"testing"

	"github.com/valyala/fasthttp"
)

// C10: two Connection header lines, the first says close.
func TestConnectionCloseThenOther(t *testing.T) {
	for _, hdrs := range []string{"Connection: close\r\nConnection: foo\r\n", "Connection: foo\r\nConnection: close\r\n"} {
		n := 0
		s := &fasthttp.Server{Handler: func(ctx *fasthttp.RequestCtx) { n++; ctx.SetBodyString("ok") }}
		in := "GET /a HTTP/1.1\r\nHost: x\r\n" + hdrs + "\r\nGET /b HTTP/1.1\r\nHost: x\r\n\r\n"
		c := &rwConn{r: strings.NewReader(in)}
		s.ServeConn(c)
		t.Logf("%q -> handler calls=%d, response says close=%v", hdrs, n, strings.Contains(c.w.String(), "Connection: close"))
	}
}
