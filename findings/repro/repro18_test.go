package repro

import (
	"testing"

	"github.com/valyala/fasthttp"
)

// C22: zstd at level 0 (CompressNoCompression passed through CompressHandlerLevel)
func TestZstdLevelZero(t *testing.T) {
	defer func() {
		if r := recover(); r != nil {
			t.Logf("panic in caller: %v", r)
		}
	}()
	src := make([]byte, 1000)
	out := fasthttp.AppendZstdBytesLevel(nil, src, 0)
	t.Logf("AppendZstdBytesLevel level 0: %d bytes", len(out))
}
