package repro

import (
	"bytes"
	"net"
	"os"
	"path/filepath"
	"strings"
	"sync"
	"sync/atomic"
	"testing"

	"github.com/valyala/fasthttp"
)

func TestConnStateActiveBeforeByte(t *testing.T) {
	var states []string
	s := &fasthttp.Server{
		Handler:   func(ctx *fasthttp.RequestCtx) {},
		ConnState: func(c net.Conn, st fasthttp.ConnState) { states = append(states, st.String()) },
	}
	c := &rwConn{r: strings.NewReader("")} // client sends nothing, then EOF
	err := s.ServeConn(c)
	t.Logf("err=%v states=%q", err, states)
}

func TestStacklessSaturation(t *testing.T) {
	src := bytes.Repeat([]byte("hello world "), 2000)
	var empty, total int64
	var wg sync.WaitGroup
	for i := 0; i < 120000; i++ {
		wg.Add(1)
		go func() {
			defer wg.Done()
			out := fasthttp.AppendGzipBytes(nil, src)
			atomic.AddInt64(&total, 1)
			if len(out) == 0 {
				atomic.AddInt64(&empty, 1)
			}
		}()
	}
	wg.Wait()
	t.Logf("total=%d empty=%d", total, empty)
}

func TestFSLeakOnMkdirAll(t *testing.T) {
	dir := t.TempDir()
	os.WriteFile(filepath.Join(dir, "a.txt"), bytes.Repeat([]byte("compressible text "), 500), 0o644)
	blocker := filepath.Join(dir, "blocker")
	os.WriteFile(blocker, []byte("x"), 0o644)
	fs := &fasthttp.FS{Root: dir, Compress: true, CompressRoot: filepath.Join(blocker, "sub")}
	h := fs.NewRequestHandler()
	before := countFDs()
	for i := 0; i < 50; i++ {
		var ctx fasthttp.RequestCtx
		var req fasthttp.Request
		req.SetRequestURI("http://x/a.txt")
		req.Header.Set("Accept-Encoding", "gzip")
		ctx.Init(&req, nil, nil)
		h(&ctx)
		if i == 0 {
			t.Logf("status=%d", ctx.Response.StatusCode())
		}
	}
	t.Logf("fds before=%d after=%d", before, countFDs())
}

func countFDs() int {
	ents, _ := os.ReadDir("/proc/self/fd")
	return len(ents)
}
