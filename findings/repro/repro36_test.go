package repro

import (
	"bufio"
	"io"
	"net/http"
	"strings"
	"testing"

	"github.com/valyala/fasthttp"
	"github.com/valyala/fasthttp/fasthttputil"
)

// C03: a body stream of unknown size installs Transfer-Encoding: chunked; a Content-Length set by hand afterwards
// left that entry in place: the response carries both framing headers and a raw (unchunked) body.
func TestContentLengthSetAfterChunkedStream(t *testing.T) {
	ln := fasthttputil.NewInmemoryListener()
	defer ln.Close()
	s := &fasthttp.Server{Handler: func(ctx *fasthttp.RequestCtx) {
		if string(ctx.Path()) == "/a" {
			ctx.SetBodyStream(strings.NewReader("hello"), -1)
			ctx.Response.Header.Set("Content-Length", "5")
			return
		}
		ctx.SetBodyString("second")
	}}
	go s.Serve(ln)
	c, _ := ln.Dial()
	c.Write([]byte("GET /a HTTP/1.1\r\nHost: x\r\n\r\nGET /b HTTP/1.1\r\nHost: x\r\n\r\n"))
	br := bufio.NewReader(c)
	for i, want := range []string{"hello", "second"} {
		resp, err := http.ReadResponse(br, nil)
		if err != nil {
			t.Fatalf("response %d: %v", i+1, err)
		}
		b, err := io.ReadAll(resp.Body)
		if err != nil || string(b) != want {
			t.Errorf("response %d: body %q err %v (Transfer-Encoding %v, Content-Length %d), want %q", i+1, b, err, resp.TransferEncoding, resp.ContentLength, want)
		}
		if i == 0 && err != nil {
			return
		}
	}
}
