package repro

import (
	"sync/atomic"
	"testing"
	"time"

	"github.com/valyala/fasthttp"
	"github.com/valyala/fasthttp/fasthttputil"
)

// C15: a Server that serves connections only through ServeConn has no listener. Shutdown returned nil at once
// ("nothing to do") while a handler was still running - the open counter it normally waits on was never looked at.
func TestShutdownWaitsForServeConnHandlers(t *testing.T) {
	var running atomic.Int32
	started := make(chan struct{})
	s := &fasthttp.Server{
		Handler: func(ctx *fasthttp.RequestCtx) {
			running.Store(1)
			close(started)
			time.Sleep(400 * time.Millisecond)
			running.Store(0)
		},
	}
	pc := fasthttputil.NewPipeConns()
	go s.ServeConn(pc.Conn1()) //nolint:errcheck
	c := pc.Conn2()
	c.Write([]byte("GET / HTTP/1.1\r\nHost: x\r\n\r\n")) //nolint:errcheck
	<-started
	if err := s.Shutdown(); err != nil {
		t.Fatalf("Shutdown: %v", err)
	}
	if running.Load() != 0 {
		t.Fatalf("Shutdown returned nil while a handler of a connection served by ServeConn was still running")
	}
}
