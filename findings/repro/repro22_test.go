package repro

import (
	"testing"
	"time"

	"github.com/valyala/fasthttp"
	"github.com/valyala/fasthttp/fasthttputil"
)

// C12: GetOpenConnectionsCount at rest.
func TestOpenCountAtRest(t *testing.T) {
	s := &fasthttp.Server{Handler: func(ctx *fasthttp.RequestCtx) {}}
	t.Logf("no Serve at all: open=%d", s.GetOpenConnectionsCount())
	ln1, ln2 := fasthttputil.NewInmemoryListener(), fasthttputil.NewInmemoryListener()
	go s.Serve(ln1)
	go s.Serve(ln2)
	time.Sleep(50 * time.Millisecond)
	t.Logf("two Serve loops, no connection: open=%d", s.GetOpenConnectionsCount())
}
