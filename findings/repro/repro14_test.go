package repro

import (
	"strings"
	"testing"

	"github.com/valyala/fasthttp"
)

// is the first response delivered when the second pipelined request is cut short?
func TestPipelinedTruncatedSecond(t *testing.T) {
	for _, in := range []string{
		"GET /a HTTP/1.1\r\nHost: x\r\n\r\nPOST /b HTTP/1.1\r\nHost: x\r\nContent-Length: 100\r\n\r\nabc",
		"GET /a HTTP/1.1\r\nHost: x\r\n\r\nPOST /b HTTP/1.1\r\nHost: x\r\nTransfer-Encoding: chunked\r\n\r\n5\r\nab",
		"GET /a HTTP/1.1\r\nHost: x\r\n\r\nPOST /b HTTP/1.1\r\nHost: x\r\nTransfer-Encoding: chunked\r\n\r\n",
		"GET /a HTTP/1.1\r\nHost: x\r\n\r\nPOST /b HTTP/1.1\r\nHo",
	} {
		s := &fasthttp.Server{}
		s.Handler = func(ctx *fasthttp.RequestCtx) { ctx.SetBodyString("ok-" + string(ctx.Path())) }
		c := &rwConn{r: strings.NewReader(in)}
		err := s.ServeConn(c)
		t.Logf("err=%v out=%q", err, c.w.String())
	}
}
