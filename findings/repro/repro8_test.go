package repro

import (
	"os"
	"path/filepath"
	"testing"
	"time"

	"github.com/valyala/fasthttp"
)

// C25: newFSFile leaks the file when the content-type sniffing of a (corrupt) compressed copy fails.
func TestFSLeakOnHeaderReadError(t *testing.T) {
	dir := t.TempDir()
	if err := os.WriteFile(filepath.Join(dir, "data"), []byte("hello hello hello hello hello hello"), 0o644); err != nil {
		t.Fatal(err)
	}
	// a stale-proof (newer) but corrupt compressed copy, for a name without a known extension
	gz := filepath.Join(dir, "data.fasthttp.gz")
	if err := os.WriteFile(gz, []byte("this is not gzip"), 0o644); err != nil {
		t.Fatal(err)
	}
	future := time.Now().Add(time.Hour)
	_ = os.Chtimes(gz, future, future)
	fs := &fasthttp.FS{Root: dir, Compress: true}
	h := fs.NewRequestHandler()
	before := countFDs()
	for i := 0; i < 50; i++ {
		var ctx fasthttp.RequestCtx
		var req fasthttp.Request
		req.SetRequestURI("/data")
		req.Header.Set("Accept-Encoding", "gzip")
		ctx.Init(&req, nil, nil)
		h(&ctx)
		if i == 0 {
			t.Logf("status=%d body=%q", ctx.Response.StatusCode(), ctx.Response.Body())
		}
	}
	after := countFDs()
	t.Logf("open fds before=%d after=%d (leaked %d)", before, after, after-before)
}
