package repro

import (
	"sync"
	"testing"
	"time"

	"github.com/valyala/fasthttp"
	"github.com/valyala/fasthttp/fasthttputil"
)

// C37 (run with -race): a handler goroutine that kept its ctx after TimeoutError calls ctx.Err() while Shutdown
// finishes: RequestCtx.Done reads Server.done without synchronisation, Shutdown assigns it under Server.mu.
func TestDoneRacesWithShutdown(t *testing.T) {
	ln := fasthttputil.NewInmemoryListener()
	stop := make(chan struct{})
	var wg sync.WaitGroup
	s := &fasthttp.Server{Handler: func(ctx *fasthttp.RequestCtx) {
		wg.Add(1)
		go func() {
			defer wg.Done()
			for {
				select {
				case <-stop:
					return
				default:
					_ = ctx.Err()
				}
			}
		}()
		ctx.TimeoutError("late")
	}}
	go s.Serve(ln)
	c, _ := ln.Dial()
	c.Write([]byte("GET / HTTP/1.1\r\nHost: a\r\nConnection: close\r\n\r\n"))
	buf := make([]byte, 4096)
	c.Read(buf)
	c.Close()
	time.Sleep(50 * time.Millisecond)
	if err := s.Shutdown(); err != nil {
		t.Fatal(err)
	}
	time.Sleep(50 * time.Millisecond)
	close(stop)
	wg.Wait()
}
