package repro

import (
	"net"
	"strings"
	"testing"

	"github.com/valyala/fasthttp"
	"github.com/valyala/fasthttp/fasthttputil"
)

// C04: a Response object used for a HEAD keeps SkipBody=true (set by the client itself); reused for a GET the body
// is left unread on the keep-alive connection and is taken for the response to the next request.
func TestSkipBodySticksAfterHead(t *testing.T) {
	ln := fasthttputil.NewInmemoryListener()
	defer ln.Close()
	s := &fasthttp.Server{Handler: func(ctx *fasthttp.RequestCtx) {
		ctx.SetBodyString("body-of-" + string(ctx.Path()) + strings.Repeat("HTTP/1.1 200 OK\r\nContent-Length: 5\r\n\r\nstale", 700))
	}}
	go s.Serve(ln)
	hc := &fasthttp.HostClient{Addr: "x", Dial: func(string) (net.Conn, error) { return ln.Dial() }, MaxConns: 1}
	req, resp := fasthttp.AcquireRequest(), fasthttp.AcquireResponse()
	req.SetRequestURI("http://x/one")
	req.Header.SetMethod("HEAD")
	if err := hc.Do(req, resp); err != nil {
		t.Fatal(err)
	}
	req.Header.SetMethod("GET")
	req.SetRequestURI("http://x/two")
	if err := hc.Do(req, resp); err != nil {
		t.Fatal(err)
	}
	t.Logf("GET /two: status %d body %q SkipBody=%v", resp.StatusCode(), resp.Body(), resp.SkipBody)
	if !strings.HasPrefix(string(resp.Body()), "body-of-/two") {
		t.Errorf("GET /two returned body %q", resp.Body())
	}
	req2, resp2 := fasthttp.AcquireRequest(), fasthttp.AcquireResponse()
	req2.SetRequestURI("http://x/three")
	err := hc.Do(req2, resp2)
	b3 := resp2.Body()
	if len(b3) > 40 {
		b3 = b3[:40]
	}
	t.Logf("GET /three: err=%v status %d body %q", err, resp2.StatusCode(), b3)
	if err != nil || !strings.HasPrefix(string(resp2.Body()), "body-of-/three") {
		t.Errorf("GET /three: err=%v body %q", err, b3)
	}
}

// Same through PipelineClient: the unread GET body stays on the pipelined connection.
func TestSkipBodySticksAfterHeadPipeline(t *testing.T) {
	ln := fasthttputil.NewInmemoryListener()
	defer ln.Close()
	s := &fasthttp.Server{Handler: func(ctx *fasthttp.RequestCtx) {
		ctx.SetBodyString("body-of-" + string(ctx.Path()))
	}}
	go s.Serve(ln)
	pc := &fasthttp.PipelineClient{Addr: "x", Dial: func(string) (net.Conn, error) { return ln.Dial() }, MaxConns: 1}
	req, resp := fasthttp.AcquireRequest(), fasthttp.AcquireResponse()
	req.SetRequestURI("http://x/one")
	req.Header.SetMethod("HEAD")
	if err := pc.Do(req, resp); err != nil {
		t.Fatal(err)
	}
	req.Header.SetMethod("GET")
	req.SetRequestURI("http://x/two")
	if err := pc.Do(req, resp); err != nil {
		t.Fatal(err)
	}
	if string(resp.Body()) != "body-of-/two" {
		t.Errorf("GET /two returned body %q (SkipBody=%v)", resp.Body(), resp.SkipBody)
	}
	req2, resp2 := fasthttp.AcquireRequest(), fasthttp.AcquireResponse()
	req2.SetRequestURI("http://x/three")
	err := pc.Do(req2, resp2)
	if err != nil || string(resp2.Body()) != "body-of-/three" {
		t.Errorf("GET /three: err=%v status %d body %q", err, resp2.StatusCode(), resp2.Body())
	}
}
