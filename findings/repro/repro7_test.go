package repro

import (
	"testing"

	"github.com/valyala/fasthttp"
)

// C29: CopyTo loses DisableSpecialHeader: the copy serialises differently from the original.
func TestCopyToDisableSpecialHeader(t *testing.T) {
	var h fasthttp.RequestHeader
	h.DisableSpecialHeader()
	h.SetMethod("GET")
	h.SetRequestURI("/x")
	h.Set("Host", "a.example")
	h.Set("User-Agent", "ua1")
	h.SetHost("a.example")
	var d fasthttp.RequestHeader
	h.CopyTo(&d)
	t.Logf("orig=%q", h.String())
	t.Logf("copy=%q", d.String())
	t.Logf("equal=%v", h.String() == d.String())
}
