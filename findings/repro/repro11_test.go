package repro

import (
	"strings"
	"testing"

	"github.com/valyala/fasthttp"
)

// C03: a response without a body (HEAD, 204, 304) whose body stream has unknown size
// is followed on the wire by the chunked trailer section.
func TestHeadStreamTrailer(t *testing.T) {
	in := "HEAD /a HTTP/1.1\r\nHost: x\r\n\r\nGET /b HTTP/1.1\r\nHost: x\r\n\r\n"
	s := &fasthttp.Server{}
	s.Handler = func(ctx *fasthttp.RequestCtx) {
		if string(ctx.Path()) == "/a" {
			ctx.Response.Header.Set("Trailer", "X-Sum")
			ctx.Response.Header.Set("X-Sum", "HTTP/1.1 200 OK")
			ctx.SetBodyStream(strings.NewReader("hello"), -1)
			return
		}
		ctx.SetBodyString("b")
	}
	c := &rwConn{r: strings.NewReader(in)}
	err := s.ServeConn(c)
	t.Logf("err=%v out=%q", err, c.w.String())
}
