package repro

import (
	"strings"
	"testing"

	"github.com/valyala/fasthttp"
)

// C20: the host comparison of the redirect trust decision folded bit 5 of every byte (a|0x20), so non-ASCII bytes
// that differ only in that bit compare equal: a÷b.test (c3 b7) and a×b.test (c3 97) were one host.
func TestRedirectBit5FoldHost(t *testing.T) {
	dialed, second := redirectProbe(t, "http://a÷b.test/start", "http://a×b.test/steal", func(req *fasthttp.Request) {
		req.Header.Set("Authorization", "Bearer secret")
	})
	t.Logf("dialed %q", dialed)
	if strings.Contains(second, "Bearer secret") {
		t.Errorf("request to a different host name (%q) still carries Authorization:\n%s", dialed[len(dialed)-1], second)
	}
}
