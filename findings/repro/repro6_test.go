package repro

import (
	"fmt"
	"strings"
	"testing"

	"github.com/valyala/fasthttp"
)

// C02: StreamRequestBody + handler answers through TimeoutError without reading the body.
func TestStreamUnreadTimeout(t *testing.T) {
	body := strings.Repeat("A", 20000-40) + "GET /smuggled HTTP/1.1\r\nHost: x\r\n\r\n1234"
	in := fmt.Sprintf("POST /a HTTP/1.1\r\nHost: x\r\nContent-Length: %d\r\n\r\n%s", len(body), body) + "GET /c HTTP/1.1\r\nHost: x\r\n\r\n"
	var calls []string
	s := &fasthttp.Server{StreamRequestBody: true, ReadBufferSize: 4096}
	s.Handler = func(ctx *fasthttp.RequestCtx) {
		calls = append(calls, string(ctx.Method())+" "+string(ctx.RequestURI()))
		if string(ctx.Path()) == "/a" {
			ctx.TimeoutError("late")
		}
	}
	c := &rwConn{r: strings.NewReader(in)}
	err := s.ServeConn(c)
	t.Logf("err=%v calls=%q out=%.400q", err, calls, c.w.String())
}
