package repro

import (
	"bufio"
	"net"
	"strings"
	"sync"
	"testing"

	"github.com/valyala/fasthttp"
	"github.com/valyala/fasthttp/fasthttputil"
)

func redirectProbe(t *testing.T, startURL, location string, prep func(*fasthttp.Request)) (dialed []string, second string) {
	ln := fasthttputil.NewInmemoryListener()
	defer ln.Close()
	var mu sync.Mutex
	var reqs []string
	go func() {
		for {
			c, err := ln.Accept()
			if err != nil {
				return
			}
			go func(c net.Conn) {
				defer c.Close()
				br := bufio.NewReader(c)
				var req fasthttp.Request
				if err := req.Read(br); err != nil {
					return
				}
				mu.Lock()
				reqs = append(reqs, req.Header.String())
				n := len(reqs)
				mu.Unlock()
				if n == 1 {
					c.Write([]byte("HTTP/1.1 302 Found\r\nLocation: " + location + "\r\nContent-Length: 0\r\nConnection: close\r\n\r\n"))
				} else {
					c.Write([]byte("HTTP/1.1 200 OK\r\nContent-Length: 2\r\nConnection: close\r\n\r\nok"))
				}
			}(c)
		}
	}()
	cl := &fasthttp.Client{Dial: func(addr string) (net.Conn, error) {
		mu.Lock()
		dialed = append(dialed, addr)
		mu.Unlock()
		return ln.Dial()
	}}
	req, resp := fasthttp.AcquireRequest(), fasthttp.AcquireResponse()
	prep(req)
	req.SetRequestURI(startURL)
	if err := cl.DoRedirects(req, resp, 3); err != nil {
		t.Logf("DoRedirects: %v", err)
	}
	mu.Lock()
	defer mu.Unlock()
	if len(reqs) > 1 {
		second = reqs[1]
	}
	return dialed, second
}

// C20: with header-name normalisation off, a lower-case 'authorization' header survives a cross-host redirect.
func TestRedirectKeepsLowercaseAuthorization(t *testing.T) {
	_, second := redirectProbe(t, "http://example.com/start", "http://evil.test/steal", func(req *fasthttp.Request) {
		req.Header.DisableNormalizing()
		req.Header.Set("authorization", "Bearer secret")
		req.Header.Set("proxy-authorization", "Basic cHJveHk=")
	})
	if strings.Contains(strings.ToLower(second), "authorization") {
		t.Errorf("request sent to evil.test still carries credentials:\n%s", second)
	}
}

// C20: Unicode case folding in the trust decision: U+212A KELVIN SIGN folds to 'k'.
func TestRedirectUnicodeFoldHost(t *testing.T) {
	dialed, second := redirectProbe(t, "http://kite.com/start", "http://Kite.com/steal", func(req *fasthttp.Request) {
		req.Header.Set("Authorization", "Bearer secret")
	})
	t.Logf("dialed %q", dialed)
	if strings.Contains(second, "Bearer secret") {
		t.Errorf("request to a different host name (%q) still carries Authorization:\n%s", dialed[len(dialed)-1], second)
	}
}
