package repro

import (
	"bytes"
	"math/rand"
	"testing"

	"github.com/valyala/fasthttp"
)

type plainWriter struct{ b []byte }

func (w *plainWriter) Write(p []byte) (int, error) { w.b = append(w.b, p...); return len(p), nil }

// C22: WriteZstdLevel into a writer that is not one of the in-memory fast-path types goes through the stackless
// writer. The zstd encoder works asynchronously by default: it hands finished blocks to its destination from its own
// goroutines after Write returned, while the stackless writer reads and resets that destination buffer.
func TestZstdThroughStacklessWriterRoundTrips(t *testing.T) {
	r := rand.New(rand.NewSource(1))
	src := make([]byte, 8<<20)
	for i := range src {
		src[i] = byte(r.Intn(16)) + 'a'
	}
	bad := 0
	for i := 0; i < 6; i++ {
		w := &plainWriter{}
		if _, err := fasthttp.WriteZstdLevel(w, src, fasthttp.CompressZstdDefault); err != nil {
			t.Fatal(err)
		}
		out, err := fasthttp.AppendUnzstdBytes(nil, w.b)
		if err != nil || !bytes.Equal(out, src) {
			bad++
			t.Logf("iteration %d: err=%v, decoded %d of %d bytes", i, err, len(out), len(src))
		}
	}
	if bad > 0 {
		t.Fatalf("%d of 6 compressed copies do not decode to the original", bad)
	}
}
