module repro

go 1.25.0

require github.com/valyala/fasthttp v0.0.0

require (
	github.com/andybalholm/brotli v1.2.2 // indirect
	github.com/klauspost/compress v1.19.2 // indirect
	github.com/valyala/bytebufferpool v1.0.0 // indirect
)

replace github.com/valyala/fasthttp => /repo
