package repro

import (
	"io"
	"testing"
	"time"

	"github.com/valyala/fasthttp"
	"github.com/valyala/fasthttp/fasthttputil"
)

// C15: the response to the request in flight when Shutdown starts is lost when the
// next pipelined request is already buffered (the writer is released unflushed).
func TestShutdownLosesPipelinedResponse(t *testing.T) {
	ln := fasthttputil.NewInmemoryListener()
	s := &fasthttp.Server{}
	shut := make(chan error, 1)
	s.Handler = func(ctx *fasthttp.RequestCtx) {
		ctx.SetBodyString("ok-" + string(ctx.Path()))
		if string(ctx.Path()) == "/a" {
			go func() { shut <- s.Shutdown() }()
			time.Sleep(100 * time.Millisecond)
		}
	}
	go s.Serve(ln)
	c, err := ln.Dial()
	if err != nil {
		t.Fatal(err)
	}
	c.Write([]byte("GET /a HTTP/1.1\r\nHost: x\r\n\r\nGET /b HTTP/1.1\r\nHost: x\r\n\r\n"))
	c.SetReadDeadline(time.Now().Add(3 * time.Second))
	b, rerr := io.ReadAll(c)
	t.Logf("read err=%v out=%q", rerr, b)
	select {
	case e := <-shut:
		t.Logf("shutdown returned %v", e)
	case <-time.After(3 * time.Second):
		t.Logf("shutdown did not return")
	}
}
