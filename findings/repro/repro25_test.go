package repro

import (
	"strings"
	"testing"

	"github.com/valyala/fasthttp"
)

// C22: a compressed response must carry Vary: Accept-Encoding; the "already there" test was a substring match.
func TestVaryAcceptEncodingSubstring(t *testing.T) {
	h := fasthttp.CompressHandler(func(ctx *fasthttp.RequestCtx) {
		ctx.Response.Header.Set("Vary", "X-Accept-Encoding-Hint")
		ctx.WriteString(strings.Repeat("compress me ", 100))
	})
	var ctx fasthttp.RequestCtx
	ctx.Request.Header.Set("Accept-Encoding", "gzip")
	h(&ctx)
	ce := string(ctx.Response.Header.ContentEncoding())
	found := false
	for _, v := range ctx.Response.Header.PeekAll("Vary") {
		for _, tok := range strings.Split(string(v), ",") {
			if strings.EqualFold(strings.TrimSpace(tok), "Accept-Encoding") {
				found = true
			}
		}
	}
	if ce == "gzip" && !found {
		t.Errorf("Content-Encoding: %s but Vary is %q: no Accept-Encoding member", ce, ctx.Response.Header.PeekAll("Vary"))
	}
}
