package repro

import (
	"fmt"
	"io"
	"net"
	"strings"
	"testing"

	"github.com/valyala/fasthttp"
	"github.com/valyala/fasthttp/fasthttputil"
)

// pieceReader returns one piece per Read call.
type pieceReader struct{ pieces []string }

func (p *pieceReader) Read(b []byte) (int, error) {
	if len(p.pieces) == 0 {
		return 0, io.EOF
	}
	n := copy(b, p.pieces[0])
	if n == len(p.pieces[0]) {
		p.pieces = p.pieces[1:]
	} else {
		p.pieces[0] = p.pieces[0][n:]
	}
	return n, nil
}

func TestContinueHandlerRejectSplit(t *testing.T) {
	head := "POST /a HTTP/1.1\r\nHost: x\r\nExpect: 100-continue\r\nContent-Length: 36\r\n\r\n"
	body := "GET /smuggled HTTP/1.1\r\nHost: x\r\n\r\n"
	next := "GET /c HTTP/1.1\r\nHost: x\r\n\r\n"
	var calls []string
	s := &fasthttp.Server{ContinueHandler: func(h *fasthttp.RequestHeader) bool { return false }}
	s.Handler = func(ctx *fasthttp.RequestCtx) { calls = append(calls, string(ctx.Method())+" "+string(ctx.RequestURI())) }
	c := &rwConn{r: &pieceReader{pieces: []string{head, body, next}}}
	err := s.ServeConn(c)
	t.Logf("err=%v calls=%q\nout=%q", err, calls, c.w.String())
}

func TestClientStreamEarlyClose2(t *testing.T) {
	ln := fasthttputil.NewInmemoryListener()
	n := 0
	s := &fasthttp.Server{Handler: func(ctx *fasthttp.RequestCtx) {
		n++
		ctx.SetBodyString(fmt.Sprintf("id=%d;", n) + strings.Repeat("Z", 100000))
	}}
	go s.Serve(ln)
	c := &fasthttp.HostClient{Addr: "x", Dial: func(string) (net.Conn, error) { return ln.Dial() }, StreamResponseBody: true, MaxConns: 1, MaxResponseBodySize: 1024}
	for i := 0; i < 3; i++ {
		var req fasthttp.Request
		var resp fasthttp.Response
		req.SetRequestURI("http://x/")
		err := c.Do(&req, &resp)
		if err != nil {
			t.Logf("i=%d err=%v", i, err)
			continue
		}
		b := make([]byte, 8)
		io.ReadFull(resp.BodyStream(), b)
		t.Logf("i=%d status=%d first=%q", i, resp.StatusCode(), b)
		resp.CloseBodyStream()
	}
	ln.Close()
}
