package repro

import (
	"net"
	"sync/atomic"
	"testing"
	"time"

	"github.com/valyala/fasthttp"
	"github.com/valyala/fasthttp/fasthttputil"
)

// C12: Concurrency bounds the connections one Server serves at once. ServeConn tests the shared gauge, but the accept
// loop of Serve only asks its own worker pool: with Concurrency = 1, a connection served through ServeConn (or through
// a second Serve call on another listener) does not stop Serve from serving one more.
func TestConcurrencySharedBetweenServeAndServeConn(t *testing.T) {
	var running, peak atomic.Int32
	release := make(chan struct{})
	s := &fasthttp.Server{
		Concurrency: 1,
		Handler: func(ctx *fasthttp.RequestCtx) {
			n := running.Add(1)
			for {
				p := peak.Load()
				if n <= p || peak.CompareAndSwap(p, n) {
					break
				}
			}
			<-release
			running.Add(-1)
		},
	}
	ln1 := fasthttputil.NewInmemoryListener()
	ln2 := fasthttputil.NewInmemoryListener()
	go s.Serve(ln1) //nolint:errcheck
	go s.Serve(ln2) //nolint:errcheck
	defer ln1.Close()
	defer ln2.Close()
	var conns []net.Conn
	for _, ln := range []*fasthttputil.InmemoryListener{ln1, ln2} {
		c, err := ln.Dial()
		if err != nil {
			t.Fatal(err)
		}
		conns = append(conns, c)
		c.Write([]byte("GET / HTTP/1.1\r\nHost: x\r\n\r\n")) //nolint:errcheck
	}
	time.Sleep(300 * time.Millisecond)
	got := peak.Load()
	close(release)
	for _, c := range conns {
		c.Close()
	}
	if got > 1 {
		t.Fatalf("Concurrency=1, yet %d handlers ran at once (one connection per listener of the same Server)", got)
	}
}
