//go:build linux

package repro

import (
	"errors"
	"net"
	"strconv"
	"syscall"
	"testing"
	"time"

	"github.com/valyala/fasthttp"
)

func blackhole(t *testing.T) (string, func()) {
	fd, err := syscall.Socket(syscall.AF_INET, syscall.SOCK_STREAM, 0)
	if err != nil {
		t.Fatal(err)
	}
	if err := syscall.Bind(fd, &syscall.SockaddrInet4{Addr: [4]byte{127, 0, 0, 1}}); err != nil {
		t.Fatal(err)
	}
	if err := syscall.Listen(fd, 0); err != nil {
		t.Fatal(err)
	}
	lsa, _ := syscall.Getsockname(fd)
	addr := net.JoinHostPort("127.0.0.1", strconv.Itoa(lsa.(*syscall.SockaddrInet4).Port))
	var fillers []net.Conn
	cleanup := func() {
		for _, c := range fillers {
			c.Close()
		}
		syscall.Close(fd)
	}
	hangs := false
	for i := 0; i < 16; i++ {
		c, err := net.DialTimeout("tcp4", addr, 200*time.Millisecond)
		if err != nil {
			hangs = true
			break
		}
		fillers = append(fillers, c)
	}
	if !hangs {
		cleanup()
		t.Skip("no hanging endpoint")
	}
	return addr, cleanup
}

// C41: a dial that times out against a hanging endpoint must report ErrDialTimeout.
func TestDialTimeoutClassification(t *testing.T) {
	addr, cleanup := blackhole(t)
	defer cleanup()
	d := &fasthttp.TCPDialer{DisableDNSResolution: true}
	type res struct{ err error }
	ch := make(chan res, 4096)
	const rounds, par = 20, 64
	for r := 0; r < rounds; r++ {
		for i := 0; i < par; i++ {
			go func() {
				_, err := d.DialTimeout(addr, 30*time.Millisecond)
				ch <- res{err}
			}()
		}
		time.Sleep(40 * time.Millisecond)
	}
	raw, ok := 0, 0
	for i := 0; i < rounds*par; i++ {
		r := <-ch
		if errors.Is(r.err, fasthttp.ErrDialTimeout) {
			ok++
		} else {
			raw++
			if raw == 1 {
				t.Logf("non-ErrDialTimeout error: %v", r.err)
			}
		}
	}
	t.Logf("ErrDialTimeout=%d other=%d", ok, raw)
}
