package repro

import (
	"bufio"
	"bytes"
	"compress/gzip"
	"io"
	"os"
	"path/filepath"
	"strings"
	"testing"
	"time"

	"github.com/valyala/fasthttp"
	"github.com/valyala/fasthttp/fasthttputil"
)

// C24: with CompressRoot != Root a compressed copy made for an older version of the file is served for ever.
func TestStaleCompressedCopyInCompressRoot(t *testing.T) {
	root, croot := t.TempDir(), t.TempDir()
	file := filepath.Join(root, "a.txt")
	old := strings.Repeat("old content ", 200)
	os.WriteFile(file, []byte(old), 0o644)
	past := time.Now().Add(-time.Hour)
	os.Chtimes(file, past, past)
	get := func() string {
		fs := &fasthttp.FS{Root: root, CompressRoot: croot, Compress: true, SkipCache: true}
		h := fs.NewRequestHandler()
		ln := fasthttputil.NewInmemoryListener()
		s := &fasthttp.Server{Handler: h}
		go s.Serve(ln)
		defer ln.Close()
		c, _ := ln.Dial()
		c.Write([]byte("GET /a.txt HTTP/1.1\r\nHost: a\r\nAccept-Encoding: gzip\r\nConnection: close\r\n\r\n"))
		var resp fasthttp.Response
		if err := resp.Read(bufio.NewReader(c)); err != nil {
			t.Fatal(err)
		}
		if string(resp.Header.ContentEncoding()) != "gzip" {
			return "plain:" + string(resp.Body())
		}
		zr, err := gzip.NewReader(bytes.NewReader(resp.Body()))
		if err != nil {
			t.Fatal(err)
		}
		b, _ := io.ReadAll(zr)
		return string(b)
	}
	if got := get(); got != old {
		t.Fatalf("first: %q", got[:20])
	}
	fresh := strings.Repeat("NEW CONTENT ", 300)
	os.WriteFile(file, []byte(fresh), 0o644)
	if got := get(); got != fresh {
		t.Errorf("after the file changed the response decodes to %q..., want the new content", got[:24])
	}
}
