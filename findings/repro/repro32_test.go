package repro

import (
	"bufio"
	"net"
	"testing"
	"time"

	"github.com/valyala/fasthttp"
	"github.com/valyala/fasthttp/fasthttputil"
)

// C15: two pipelined requests; Shutdown while the first handler runs. Its response stays in the write buffer (the
// second request is already there), the connection is marked idle all the same, the idle closer closes it and the
// final flush fails silently: Shutdown returns nil, the response was never delivered. (A slow StateIdle hook widens
// the window between "marked idle" and the stop test.)
func TestPipelinedResponseLostOnShutdown(t *testing.T) {
	ln := fasthttputil.NewInmemoryListener()
	started := make(chan struct{})
	s := &fasthttp.Server{
		Handler: func(ctx *fasthttp.RequestCtx) {
			if string(ctx.Path()) == "/a" {
				close(started)
				<-ctx.Done()
			}
			ctx.Success("text/plain", []byte("resp"+string(ctx.Path())))
		},
		ConnState: func(c net.Conn, st fasthttp.ConnState) {
			if st == fasthttp.StateIdle {
				time.Sleep(300 * time.Millisecond)
			}
		},
	}
	go s.Serve(ln)
	conn, _ := ln.Dial()
	conn.Write([]byte("GET /a HTTP/1.1\r\nHost: x\r\n\r\nGET /b HTTP/1.1\r\nHost: x\r\n\r\n"))
	<-started
	respCh := make(chan error, 1)
	go func() {
		var resp fasthttp.Response
		respCh <- resp.Read(bufio.NewReader(conn))
	}()
	if err := s.Shutdown(); err != nil {
		t.Fatal(err)
	}
	select {
	case err := <-respCh:
		if err != nil {
			t.Errorf("Shutdown returned nil but the response to /a was not delivered: %v", err)
		}
	case <-time.After(2 * time.Second):
		t.Errorf("no response")
	}
}
