package repro

import (
	"bufio"
	"strings"
	"testing"

	"github.com/valyala/fasthttp"
)

// C10: optional whitespace around list members is SP or HTAB (RFC 9110 5.6.3); a 'close' member preceded by a tab
// is not recognised, the connection is kept open although the request asked for close.
func TestConnectionCloseAfterTab(t *testing.T) {
	var req fasthttp.Request
	raw := "GET / HTTP/1.1\r\nHost: a\r\nConnection: foo,\tclose\r\n\r\n"
	if err := req.Read(bufio.NewReader(strings.NewReader(raw))); err != nil {
		t.Fatal(err)
	}
	if !req.Header.ConnectionClose() {
		t.Errorf("request with %q does not ask for close", "Connection: foo,\\tclose")
	}
	var resp fasthttp.Response
	raw = "HTTP/1.1 200 OK\r\nContent-Length: 0\r\nConnection: keep-alive,\tclose\r\n\r\n"
	if err := resp.Read(bufio.NewReader(strings.NewReader(raw))); err != nil {
		t.Fatal(err)
	}
	if !resp.ConnectionClose() {
		t.Errorf("response with a tab before 'close' is not taken as close: the client would reuse the connection")
	}
}
