package repro

import (
	"strings"
	"testing"

	"github.com/valyala/fasthttp"
)

// C10: HTTP/1.0 keep-alive request answered through TimeoutError.
func TestHTTP10KeepAliveTimeout(t *testing.T) {
	n := 0
	s := &fasthttp.Server{Handler: func(ctx *fasthttp.RequestCtx) {
		n++
		if string(ctx.Path()) == "/slow" {
			ctx.TimeoutError("late")
			return
		}
		ctx.SetBodyString("ok")
	}}
	in := "GET /slow HTTP/1.0\r\nHost: x\r\nConnection: keep-alive\r\n\r\nGET /b HTTP/1.0\r\nHost: x\r\nConnection: keep-alive\r\n\r\n"
	c := &rwConn{r: strings.NewReader(in)}
	s.ServeConn(c)
	t.Logf("handler calls=%d out=%q", n, c.w.String())
}
