package repro

import (
	"bufio"
	"net"
	"testing"
	"time"

	"github.com/valyala/fasthttp"
)

// C37 (run with -race): MaxConnsPerIP > 0, Shutdown while keep-alive connections are idle: closeIdleConns calls
// perIPConn.Close on the Shutdown goroutine, which assigns the embedded Conn (= nil) under the wrapper's lock; the
// serving goroutine reads the embedded Conn without that lock on every promoted call (Read, SetReadDeadline).
func TestPerIPConnCloseRacesWithServe(t *testing.T) {
	ln, err := net.Listen("tcp4", "127.0.0.1:0")
	if err != nil {
		t.Skip(err)
	}
	s := &fasthttp.Server{MaxConnsPerIP: 100, ReadTimeout: 30 * time.Second, Handler: func(ctx *fasthttp.RequestCtx) {}}
	go s.Serve(ln)
	var conns []net.Conn
	for i := 0; i < 8; i++ {
		c, err := net.Dial("tcp4", ln.Addr().String())
		if err != nil {
			t.Fatal(err)
		}
		conns = append(conns, c)
		c.Write([]byte("GET / HTTP/1.1\r\nHost: a\r\n\r\n"))
		var resp fasthttp.Response
		if err := resp.Read(bufio.NewReader(c)); err != nil {
			t.Fatal(err)
		}
	}
	time.Sleep(50 * time.Millisecond)
	if err := s.Shutdown(); err != nil {
		t.Fatal(err)
	}
	for _, c := range conns {
		c.Close()
	}
}
