package repro

import (
	"io"
	"net"
	"testing"
	"time"

	"github.com/valyala/fasthttp"
	"github.com/valyala/fasthttp/fasthttputil"
)

// C17: KeepHijackedConns + ReduceMemoryUsage: the kept connection is read after the hijack handler returned.
func TestKeptHijackedConnRead(t *testing.T) {
	for _, rmu := range []bool{false, true} {
		ln := fasthttputil.NewInmemoryListener()
		kept := make(chan net.Conn, 1)
		s := &fasthttp.Server{ReduceMemoryUsage: rmu, KeepHijackedConns: true}
		s.Handler = func(ctx *fasthttp.RequestCtx) {
			ctx.Hijack(func(c net.Conn) { kept <- c })
		}
		go s.Serve(ln)
		c, _ := ln.Dial()
		c.Write([]byte("GET / HTTP/1.1\r\nHost: a\r\n\r\nEXTRA"))
		hc := <-kept
		time.Sleep(50 * time.Millisecond)
		go func() { time.Sleep(50 * time.Millisecond); c.Write([]byte("-LATE")); c.Close() }()
		func() {
			defer func() {
				if r := recover(); r != nil {
					t.Logf("ReduceMemoryUsage=%v: PANIC while reading the kept connection: %v", rmu, r)
				}
			}()
			hc.SetReadDeadline(time.Now().Add(time.Second))
			b, err := io.ReadAll(hc)
			t.Logf("ReduceMemoryUsage=%v: read %q err=%v", rmu, b, err)
		}()
	}
}
