package repro

import (
	"strings"
	"testing"

	"github.com/valyala/fasthttp"
)

// C29: Connection is a single-valued special name; Set("Connection","close") after another value leaves the old
// generic entry in place: two Connection fields on the wire and in PeekKeys, while Peek/PeekAll report one.
func TestConnectionSetTwice(t *testing.T) {
	var h fasthttp.ResponseHeader
	h.Set("Connection", "keep-alive")
	h.Set("Connection", "close")
	n := 0
	for _, k := range h.PeekKeys() {
		if string(k) == "Connection" {
			n++
		}
	}
	wire := strings.Count(h.String(), "Connection:")
	if n != 1 || wire != 1 || len(h.PeekAll("Connection")) != 1 {
		t.Errorf("response header: PeekKeys has Connection %d times, the wire %d times, PeekAll %q:\n%s", n, wire, h.PeekAll("Connection"), h.String())
	}
	var rh fasthttp.RequestHeader
	rh.Set("Connection", "keep-alive")
	rh.Set("Connection", "close")
	if wire := strings.Count(rh.String(), "Connection:"); wire != 1 {
		t.Errorf("request header: Connection %d times on the wire:\n%s", wire, rh.String())
	}
}
