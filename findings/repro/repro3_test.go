package repro

import (
	"io"
	"net"
	"strings"
	"testing"

	"github.com/valyala/fasthttp"
	"github.com/valyala/fasthttp/fasthttputil"
)

func TestClientStreamEarlyClose3(t *testing.T) {
	ln := fasthttputil.NewInmemoryListener()
	s := &fasthttp.Server{Handler: func(ctx *fasthttp.RequestCtx) {
		if string(ctx.Path()) == "/first" {
			ctx.SetBodyString(strings.Repeat("\r\n", 3000) + "HTTP/1.1 200 OK\r\nContent-Length: 5\r\n\r\nEVIL!")
			return
		}
		ctx.SetBodyString("second-own-response")
	}}
	go s.Serve(ln)
	c := &fasthttp.HostClient{Addr: "x", Dial: func(string) (net.Conn, error) { return ln.Dial() }, StreamResponseBody: true, MaxConns: 1, MaxResponseBodySize: 1024}
	for _, p := range []string{"/first", "/second"} {
		var req fasthttp.Request
		var resp fasthttp.Response
		req.SetRequestURI("http://x" + p)
		err := c.Do(&req, &resp)
		if err != nil {
			t.Logf("%s err=%v", p, err)
			continue
		}
		if p == "/first" {
			b := make([]byte, 8)
			io.ReadFull(resp.BodyStream(), b)
			resp.CloseBodyStream()
			t.Logf("%s first8=%q", p, b)
		} else {
			body, _ := io.ReadAll(resp.BodyStream())
			t.Logf("%s body=%q", p, body)
		}
	}
	ln.Close()
}
