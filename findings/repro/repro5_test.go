package repro

import (
	"bytes"
	"sync"
	"sync/atomic"
	"testing"

	"github.com/valyala/fasthttp"
)

func TestStacklessSaturation2(t *testing.T) {
	src := bytes.Repeat([]byte("hello world, this is some text "), 20000)
	var empty, total int64
	var wg sync.WaitGroup
	start := make(chan struct{})
	for i := 0; i < 200000; i++ {
		wg.Add(1)
		go func() {
			defer wg.Done()
			<-start
			out := fasthttp.AppendGzipBytes(nil, src)
			atomic.AddInt64(&total, 1)
			if len(out) == 0 {
				atomic.AddInt64(&empty, 1)
			}
		}()
	}
	close(start)
	wg.Wait()
	t.Logf("total=%d empty=%d", total, empty)
}
