package repro

import (
	"io"
	"strings"
	"testing"

	"github.com/valyala/fasthttp"
)

// C01 observation: StreamRequestBody + malformed chunk
func TestStreamMalformedChunk(t *testing.T) {
	for _, read := range []bool{false, true} {
		in := "POST /a HTTP/1.1\r\nHost: x\r\nTransfer-Encoding: chunked\r\n\r\n5\r\nhello\r\nZZ\r\nGET /b HTTP/1.1\r\nHost: x\r\n\r\n"
		s := &fasthttp.Server{StreamRequestBody: true}
		s.Handler = func(ctx *fasthttp.RequestCtx) {
			if read {
				b, err := io.ReadAll(ctx.RequestBodyStream())
				t.Logf("handler read %q err=%v", b, err)
			}
			ctx.SetBodyString("ok")
		}
		c := &rwConn{r: strings.NewReader(in)}
		err := s.ServeConn(c)
		t.Logf("read=%v err=%v out=%q", read, err, c.w.String())
	}
}

// C15 observation: pipelined response left unflushed when stop is set
func TestShutdownUnflushed(t *testing.T) {
	in := "GET /a HTTP/1.1\r\nHost: x\r\n\r\nGET /b HTTP/1.1\r\nHost: x\r\n\r\n"
	s := &fasthttp.Server{}
	s.Handler = func(ctx *fasthttp.RequestCtx) {
		ctx.SetBodyString("ok")
		if string(ctx.Path()) == "/a" {
			go s.Shutdown()
			for i := 0; i < 100; i++ {
				if s.GetOpenConnectionsCount() >= 0 {
				}
			}
			// wait until the stop flag is visible
			for j := 0; j < 2000000; j++ {
			}
		}
	}
	c := &rwConn{r: strings.NewReader(in)}
	err := s.ServeConn(c)
	t.Logf("err=%v out=%q", err, c.w.String())
}
