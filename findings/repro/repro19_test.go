package repro

import (
	"strings"
	"testing"

	"github.com/valyala/fasthttp"
)

// C02: StreamRequestBody, the handler drops the body stream without reading it.
func TestStreamDroppedByHandler(t *testing.T) {
	for _, how := range []string{"CloseBodyStream", "ResetBody", "SetBodyString", "PostBody(reads all)"} {
		body := strings.Repeat("x", 8192) + "GET /evil HTTP/1.1\r\nHost: a\r\n\r\n"
		in := "POST /a HTTP/1.1\r\nHost: a\r\nContent-Length: " + itoa(len(body)) + "\r\n\r\n" + body
		var calls []string
		s := &fasthttp.Server{StreamRequestBody: true}
		s.Handler = func(ctx *fasthttp.RequestCtx) {
			calls = append(calls, string(ctx.Path()))
			if string(ctx.Path()) != "/a" {
				return
			}
			switch how {
			case "CloseBodyStream":
				ctx.Request.CloseBodyStream()
			case "ResetBody":
				ctx.Request.ResetBody()
			case "SetBodyString":
				ctx.Request.SetBodyString("replaced")
			default:
				_ = ctx.PostBody()
			}
		}
		c := &rwConn{r: strings.NewReader(in)}
		s.ServeConn(c)
		t.Logf("%-20s handler calls=%q close announced=%v", how, calls, strings.Contains(c.w.String(), "Connection: close"))
	}
}

func itoa(n int) string {
	if n == 0 {
		return "0"
	}
	s := ""
	for n > 0 {
		s = string(rune('0'+n%10)) + s
		n /= 10
	}
	return s
}
