package repro

import (
	"net"
	"testing"

	"github.com/valyala/fasthttp"
	"github.com/valyala/fasthttp/fasthttputil"
)

// C21: the getter Request.RequestURI() forgets the scheme; the next Do of the same https request goes out in clear text.
func TestRequestURIGetterDowngradesScheme(t *testing.T) {
	ln := fasthttputil.NewInmemoryListener()
	defer ln.Close()
	s := &fasthttp.Server{Handler: func(ctx *fasthttp.RequestCtx) { ctx.WriteString("ok") }}
	go s.Serve(ln)
	var dialed []string
	cl := &fasthttp.Client{
		Dial: func(addr string) (net.Conn, error) { dialed = append(dialed, addr); return ln.Dial() },
	}
	req, resp := fasthttp.AcquireRequest(), fasthttp.AcquireResponse()
	req.SetRequestURI("https://example.test/secret")
	err1 := cl.Do(req, resp) // TLS handshake against a plain server fails: fine, the request was not sent in clear
	_ = req.RequestURI()     // e.g. for logging
	err2 := cl.Do(req, resp)
	t.Logf("dialed %q err1=%v err2=%v scheme now %q", dialed, err1, err2, req.URI().Scheme())
	if err2 == nil {
		t.Errorf("the https request was answered over a plaintext connection (status %d) after calling the RequestURI() getter", resp.StatusCode())
	}
}
