package repro

import (
	"bufio"
	"strings"
	"testing"
	"time"

	"github.com/valyala/fasthttp"
	"github.com/valyala/fasthttp/fasthttputil"
)

// C16 (recorded as a known finding, not repaired): RequestCtx.EarlyHints writes straight to the connection. A
// handler that is still running after TimeoutHandler answered 408 and then calls EarlyHints puts a
// "HTTP/1.1 103 Early Hints" head on the wire after the timeout response; the client takes it for the start of the
// next response.
func TestEarlyHintsAfterTimeout(t *testing.T) {
	release := make(chan struct{})
	done := make(chan struct{}, 1)
	h := func(ctx *fasthttp.RequestCtx) {
		if string(ctx.Path()) != "/slow" {
			ctx.SetBodyString("ok")
			return
		}
		<-release
		ctx.Response.Header.Add("Link", "<https://late.example>; rel=preconnect")
		ctx.EarlyHints()
		done <- struct{}{}
	}
	s := &fasthttp.Server{Handler: fasthttp.TimeoutHandler(h, 20*time.Millisecond, "timeout!!!")}
	ln := fasthttputil.NewInmemoryListener()
	defer ln.Close()
	go s.Serve(ln)
	conn, _ := ln.Dial()
	defer conn.Close()
	conn.SetDeadline(time.Now().Add(5 * time.Second))
	br := bufio.NewReader(conn)
	conn.Write([]byte("GET /slow HTTP/1.1\r\nHost: a\r\n\r\n"))
	var resp fasthttp.Response
	if err := resp.Read(br); err != nil {
		t.Fatal(err)
	}
	close(release)
	<-done
	conn.Write([]byte("GET /fast HTTP/1.1\r\nHost: a\r\n\r\n"))
	line, _ := br.ReadString('\n')
	if strings.Contains(line, "103") {
		t.Errorf("the timed-out handler wrote to the connection after the %d response: %q", resp.StatusCode(), line)
	}
}
