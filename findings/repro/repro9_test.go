package repro

import (
	"archive/zip"
	"bytes"
	"io/fs"
	"strings"
	"sync/atomic"
	"testing"
	"time"

	"github.com/valyala/fasthttp"
)

type countFS struct {
	fs.FS
	opened, closed atomic.Int64
}

type countFile struct {
	fs.File
	c *countFS
}

func (f *countFile) Close() error { f.c.closed.Add(1); return f.File.Close() }

func (c *countFS) Open(name string) (fs.File, error) {
	f, err := c.FS.Open(name)
	if err != nil {
		return nil, err
	}
	c.opened.Add(1)
	return &countFile{File: f, c: c}, nil
}

// C25: a file of an fs.FS whose files cannot seek (archive/zip): bigFileReader.Close returns early
// without giving the reader count back, so the cached file is never released.
func TestFSNonSeekableReaderCount(t *testing.T) {
	var buf bytes.Buffer
	zw := zip.NewWriter(&buf)
	w, _ := zw.Create("big.txt")
	w.Write([]byte(strings.Repeat("0123456789", 3000)))
	zw.Close()
	zr, err := zip.NewReader(bytes.NewReader(buf.Bytes()), int64(buf.Len()))
	if err != nil {
		t.Fatal(err)
	}
	cfs := &countFS{FS: zr}
	stop := make(chan struct{})
	ffs := &fasthttp.FS{FS: cfs, Root: "", CacheDuration: 50 * time.Millisecond, CleanStop: stop, AllowEmptyRoot: true}
	h := ffs.NewRequestHandler()
	for i := 0; i < 3; i++ {
		var ctx fasthttp.RequestCtx
		var req fasthttp.Request
		req.SetRequestURI("/big.txt")
		ctx.Init(&req, nil, nil)
		h(&ctx)
		body := ctx.Response.Body() // reads and closes the body stream
		if i == 0 {
			t.Logf("status=%d len(body)=%d", ctx.Response.StatusCode(), len(body))
		}
		ctx.Response.Reset()
		time.Sleep(150 * time.Millisecond) // let the cache entry expire and the cleaner run
	}
	close(stop)
	time.Sleep(200 * time.Millisecond)
	t.Logf("files opened=%d closed=%d", cfs.opened.Load(), cfs.closed.Load())
}
