package repro

import (
	"context"
	"errors"
	"net"
	"testing"
	"time"

	"github.com/valyala/fasthttp"
)

type hangingResolver struct{}

func (hangingResolver) LookupIPAddr(ctx context.Context, host string) ([]net.IPAddr, error) {
	<-ctx.Done()
	return nil, ctx.Err()
}

// C41: a resolver that hangs until the deadline: DialTimeout returns on time, but with the bare context error
// instead of ErrDialTimeout wrapped with the upstream address.
func TestHangingResolverError(t *testing.T) {
	d := &fasthttp.TCPDialer{Resolver: hangingResolver{}}
	start := time.Now()
	_, err := d.DialTimeout("h.test:80", 200*time.Millisecond)
	if time.Since(start) > time.Second {
		t.Errorf("took %v", time.Since(start))
	}
	var up *fasthttp.ErrDialWithUpstream
	if !errors.Is(err, fasthttp.ErrDialTimeout) || !errors.As(err, &up) {
		t.Errorf("err = %v (%T), want ErrDialTimeout wrapped with the upstream address", err, err)
	}
}
