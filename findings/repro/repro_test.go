package repro

import (
	"bufio"
	"bytes"
	"fmt"
	"io"
	"net"
	"strings"
	"testing"
	"time"

	"github.com/valyala/fasthttp"
	"github.com/valyala/fasthttp/fasthttputil"
)

type rwConn struct {
	r io.Reader
	w bytes.Buffer
}

func (c *rwConn) Read(p []byte) (int, error)         { return c.r.Read(p) }
func (c *rwConn) Write(p []byte) (int, error)        { return c.w.Write(p) }
func (c *rwConn) Close() error                       { return nil }
func (c *rwConn) LocalAddr() net.Addr                { return &net.TCPAddr{IP: net.IPv4(127, 0, 0, 1)} }
func (c *rwConn) RemoteAddr() net.Addr               { return &net.TCPAddr{IP: net.IPv4(127, 0, 0, 1)} }
func (c *rwConn) SetDeadline(t time.Time) error      { return nil }
func (c *rwConn) SetReadDeadline(t time.Time) error  { return nil }
func (c *rwConn) SetWriteDeadline(t time.Time) error { return nil }

func serve(t *testing.T, s *fasthttp.Server, in string) (calls []string, out string) {
	h := s.Handler
	s.Handler = func(ctx *fasthttp.RequestCtx) {
		calls = append(calls, fmt.Sprintf("%s %s body=%q", ctx.Method(), ctx.RequestURI(), ctx.PostBody()))
		if h != nil {
			h(ctx)
		}
	}
	c := &rwConn{r: strings.NewReader(in)}
	err := s.ServeConn(c)
	t.Logf("ServeConn err=%v", err)
	return calls, c.w.String()
}

func TestCLTE(t *testing.T) {
	in := "POST /a HTTP/1.1\r\nHost: x\r\nContent-Length: 3\r\nTransfer-Encoding: chunked\r\n\r\n0\r\n\r\nGET /b HTTP/1.1\r\nHost: x\r\n\r\n"
	calls, out := serve(t, &fasthttp.Server{}, in)
	t.Logf("calls=%q\nout=%q", calls, out)
}

func TestTEIdentity(t *testing.T) {
	in := "POST /a HTTP/1.1\r\nHost: x\r\nTransfer-Encoding: identity\r\n\r\nGET /b HTTP/1.1\r\nHost: x\r\n\r\n"
	calls, out := serve(t, &fasthttp.Server{}, in)
	t.Logf("calls=%q\nout=%q", calls, out)
}

func TestContinueHandlerReject(t *testing.T) {
	in := "POST /a HTTP/1.1\r\nHost: x\r\nExpect: 100-continue\r\nContent-Length: 36\r\n\r\nGET /smuggled HTTP/1.1\r\nHost: x\r\n\r\nGET /c HTTP/1.1\r\nHost: x\r\n\r\n"
	s := &fasthttp.Server{ContinueHandler: func(h *fasthttp.RequestHeader) bool { return false }}
	calls, out := serve(t, s, in)
	t.Logf("calls=%q\nout=%q", calls, out)
}

func TestStreamUnread(t *testing.T) {
	body := strings.Repeat("A", 20000-40) + "GET /smuggled HTTP/1.1\r\nHost: x\r\n\r\n1234"
	in := fmt.Sprintf("POST /a HTTP/1.1\r\nHost: x\r\nContent-Length: %d\r\n\r\n%s", len(body), body) + "GET /c HTTP/1.1\r\nHost: x\r\n\r\n"
	var calls []string
	s := &fasthttp.Server{StreamRequestBody: true, ReadBufferSize: 4096}
	s.Handler = func(ctx *fasthttp.RequestCtx) {
		calls = append(calls, string(ctx.Method())+" "+string(ctx.RequestURI()))
	}
	c := &rwConn{r: strings.NewReader(in)}
	err := s.ServeConn(c)
	t.Logf("err=%v calls=%q out=%.300q", err, calls, c.w.String())
}

func TestMultipartRemainder(t *testing.T) {
	mp := "--b\r\nContent-Disposition: form-data; name=\"a\"\r\n\r\n1\r\n--b--\r\n"
	tail := strings.Repeat("X", 6000) + "GET /smuggled HTTP/1.1\r\nHost: x\r\n\r\n"
	body := mp + tail
	in := fmt.Sprintf("POST /a HTTP/1.1\r\nHost: x\r\nContent-Type: multipart/form-data; boundary=b\r\nContent-Length: %d\r\n\r\n%s", len(body), body)
	var calls []string
	s := &fasthttp.Server{ReadBufferSize: 16384}
	s.Handler = func(ctx *fasthttp.RequestCtx) {
		calls = append(calls, string(ctx.Method())+" "+string(ctx.RequestURI()))
	}
	c := &rwConn{r: strings.NewReader(in)}
	err := s.ServeConn(c)
	t.Logf("err=%v calls=%q out=%.400q", err, calls, c.w.String())
}

func TestFixedSizeOverlong(t *testing.T) {
	var resp fasthttp.Response
	resp.SetBodyStream(strings.NewReader("0123456789"), 4)
	var buf bytes.Buffer
	bw := bufio.NewWriter(&buf)
	err := resp.Write(bw)
	bw.Flush()
	t.Logf("err=%v wire=%q", err, buf.String())
}

func TestCookieSemicolon(t *testing.T) {
	var req fasthttp.Request
	req.SetRequestURI("http://x/")
	req.Header.SetCookie("a", "1; admin=true")
	var buf bytes.Buffer
	bw := bufio.NewWriter(&buf)
	req.Write(bw)
	bw.Flush()
	var r2 fasthttp.Request
	r2.Read(bufio.NewReader(&buf))
	n := 0
	for k, v := range r2.Header.Cookies() {
		t.Logf("cookie %q=%q", k, v)
		n++
	}
	t.Logf("n=%d", n)
}

func TestRangeSuffixZero(t *testing.T) {
	s, e, err := fasthttp.ParseByteRange([]byte("bytes=-0"), 10)
	t.Logf("s=%d e=%d err=%v", s, e, err)
}

func TestHeaderDelOrder(t *testing.T) {
	var h fasthttp.ResponseHeader
	h.Add("A", "1")
	h.Add("B", "1")
	h.Add("A", "2")
	h.Add("B", "2")
	h.Del("A")
	t.Logf("B=%q", h.PeekAll("B"))
}

func TestLBEmpty(t *testing.T) {
	defer func() { t.Logf("recover=%v", recover()) }()
	var lb fasthttp.LBClient
	lb.AddClient(&fasthttp.HostClient{Addr: "x:1"})
	var req fasthttp.Request
	var resp fasthttp.Response
	req.SetRequestURI("http://x/")
	err := lb.DoTimeout(&req, &resp, time.Millisecond)
	t.Logf("err=%v", err)
}

func TestPathDot(t *testing.T) {
	var u fasthttp.URI
	u.Parse(nil, []byte("http://x/a/b/."))
	t.Logf("path=%q", u.Path())
	u.Parse(nil, []byte("http://x/a/%2e"))
	t.Logf("path=%q", u.Path())
}

func TestBareLF(t *testing.T) {
	for _, cont := range []string{"", "xx\r\n\r\n", "GET /b HTTP/1.1\r\nHost: y\r\n\r\n"} {
		var h fasthttp.RequestHeader
		err := h.Read(bufio.NewReader(strings.NewReader("GET /a HTTP/1.1\nHost: x\n\n" + cont)))
		t.Logf("cont=%q err=%v host=%q", cont, err, h.Host())
	}
}

func TestClientStreamEarlyClose(t *testing.T) {
	ln := fasthttputil.NewInmemoryListener()
	n := 0
	s := &fasthttp.Server{Handler: func(ctx *fasthttp.RequestCtx) {
		n++
		ctx.SetBodyString(fmt.Sprintf("id=%d;", n) + strings.Repeat("Z", 100000))
	}}
	go s.Serve(ln)
	c := &fasthttp.HostClient{Addr: "x", Dial: func(string) (net.Conn, error) { return ln.Dial() }, StreamResponseBody: true, MaxConns: 1}
	for i := 0; i < 3; i++ {
		var req fasthttp.Request
		var resp fasthttp.Response
		req.SetRequestURI("http://x/")
		err := c.Do(&req, &resp)
		if err != nil {
			t.Logf("i=%d err=%v", i, err)
			continue
		}
		b := make([]byte, 8)
		io.ReadFull(resp.BodyStream(), b)
		t.Logf("i=%d status=%d first=%q", i, resp.StatusCode(), b)
		resp.CloseBodyStream()
	}
	ln.Close()
}

func TestHeadTimeout(t *testing.T) {
	in := "HEAD /a HTTP/1.1\r\nHost: x\r\n\r\n"
	s := &fasthttp.Server{Handler: func(ctx *fasthttp.RequestCtx) { ctx.TimeoutError("timeout-body") }}
	_, out := serve(t, s, in)
	t.Logf("out=%q", out)
}
