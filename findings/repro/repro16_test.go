package repro

import (
	"bufio"
	"strings"
	"testing"

	"github.com/valyala/fasthttp"
)

// C10: Connection tokens are case-insensitive and may come in a list.
func TestConnectionCloseTokens(t *testing.T) {
	for _, v := range []string{"close", "Close", "CLOSE", "keep-alive, close", "close, Upgrade"} {
		n := 0
		s := &fasthttp.Server{Handler: func(ctx *fasthttp.RequestCtx) { n++; ctx.SetBodyString("ok") }}
		in := "GET /a HTTP/1.1\r\nHost: x\r\nConnection: " + v + "\r\n\r\nGET /b HTTP/1.1\r\nHost: x\r\n\r\n"
		c := &rwConn{r: strings.NewReader(in)}
		s.ServeConn(c)
		out := c.w.String()
		t.Logf("request Connection: %-18q handler calls=%d response says close=%v", v, n, strings.Contains(out, "Connection: close"))
		var rh fasthttp.ResponseHeader
		err := rh.Read(bufio.NewReader(strings.NewReader("HTTP/1.1 200 OK\r\nContent-Length: 0\r\nConnection: " + v + "\r\n\r\n")))
		t.Logf("   response header parsed by the client: ConnectionClose()=%v err=%v", rh.ConnectionClose(), err)
	}
}
