package repro

import (
	"net"
	"sync"
	"sync/atomic"
	"testing"

	"github.com/valyala/fasthttp"
	"github.com/valyala/fasthttp/fasthttputil"
)

type tcpPeerConn struct{ net.Conn }

func (c tcpPeerConn) RemoteAddr() net.Addr { return &net.TCPAddr{IP: net.IPv4(1, 2, 3, 4), Port: 1234} }

type tcpPeerListener struct{ *fasthttputil.InmemoryListener }

func (l tcpPeerListener) Accept() (net.Conn, error) {
	c, err := l.InmemoryListener.Accept()
	if err != nil {
		return nil, err
	}
	return tcpPeerConn{c}, nil
}

// C14: with MaxConnsPerIP the accounting wrapper goes back to its pool inside Close, before StateClosed is reported
// for it; the accept loop can hand the same wrapper value to the next connection and report StateNew on it first.
func TestConnStateWrapperReusedBeforeClosedReported(t *testing.T) {
	ln := tcpPeerListener{fasthttputil.NewInmemoryListener()}
	var mu sync.Mutex
	last := map[net.Conn]fasthttp.ConnState{}
	var bad atomic.Int64
	s := &fasthttp.Server{
		MaxConnsPerIP: 1000,
		Handler:       func(ctx *fasthttp.RequestCtx) {},
		ConnState: func(c net.Conn, st fasthttp.ConnState) {
			mu.Lock()
			prev, seen := last[c]
			if st == fasthttp.StateNew && seen && prev != fasthttp.StateClosed && prev != fasthttp.StateHijacked {
				bad.Add(1)
			}
			if st != fasthttp.StateNew && !seen {
				bad.Add(1)
			}
			last[c] = st
			mu.Unlock()
		},
	}
	go s.Serve(ln)
	var wg sync.WaitGroup
	for g := 0; g < 8; g++ {
		wg.Add(1)
		go func() {
			defer wg.Done()
			buf := make([]byte, 512)
			for i := 0; i < 2000; i++ {
				c, err := ln.Dial()
				if err != nil {
					return
				}
				c.Write([]byte("GET / HTTP/1.1\r\nHost: a\r\nConnection: close\r\n\r\n"))
				for {
					if _, err := c.Read(buf); err != nil {
						break
					}
				}
				c.Close()
			}
		}()
	}
	wg.Wait()
	ln.Close()
	if n := bad.Load(); n > 0 {
		t.Errorf("%d state reports out of sequence for their connection value (StateNew on a value not yet reported closed, or a later state on a value without StateNew)", n)
	}
}
