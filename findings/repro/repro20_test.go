package repro

import (
	"bufio"
	"fmt"
	"net"
	"strings"
	"testing"
	"time"

	"github.com/valyala/fasthttp"
	"github.com/valyala/fasthttp/fasthttputil"
)

// C04: PipelineClient, HEAD answered with a Content-Length and no body.
func TestPipelineHead(t *testing.T) {
	ln := fasthttputil.NewInmemoryListener()
	go func() {
		for {
			c, err := ln.Accept()
			if err != nil {
				return
			}
			go func(c net.Conn) {
				br := bufio.NewReader(c)
				for {
					var req fasthttp.Request
					if err := req.Read(br); err != nil {
						return
					}
					id := string(req.URI().QueryArgs().Peek("id"))
					if req.Header.IsHead() {
						fmt.Fprintf(c, "HTTP/1.1 200 OK\r\nX-Id: %s\r\nContent-Length: 30\r\n\r\n", id)
					} else {
						body := "body-of-" + id
						fmt.Fprintf(c, "HTTP/1.1 200 OK\r\nX-Id: %s\r\nContent-Length: %d\r\n\r\n%s", id, len(body), body)
					}
				}
			}(c)
		}
	}()
	pc := &fasthttp.PipelineClient{Addr: "x", Dial: func(string) (net.Conn, error) { return ln.Dial() }}
	type res struct {
		id, xid, body string
		err          error
	}
	out := make(chan res, 3)
	for i, m := range []string{"HEAD", "GET", "GET"} {
		i, m := i, m
		go func() {
			var req fasthttp.Request
			var resp fasthttp.Response
			req.Header.SetMethod(m)
			req.SetRequestURI(fmt.Sprintf("http://x/?id=%d", i))
			err := pc.DoTimeout(&req, &resp, 2*time.Second)
			out <- res{fmt.Sprint(i), string(resp.Header.Peek("X-Id")), string(resp.Body()), err}
		}()
		time.Sleep(20 * time.Millisecond)
	}
	for i := 0; i < 3; i++ {
		r := <-out
		t.Logf("request id=%s -> X-Id=%q body=%.40q err=%v", r.id, r.xid, strings.ReplaceAll(r.body, "\r\n", "|"), r.err)
	}
}
