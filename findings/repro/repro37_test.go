package repro

import (
	"net"
	"strings"
	"sync"
	"testing"
	"time"

	"github.com/valyala/fasthttp"
	"github.com/valyala/fasthttp/fasthttputil"
)

// C21 candidate: an https URL that fails to parse (control character) given to a plaintext HostClient together with
// an explicit Host header: URI() swallows the parse error, the scheme reads as http, the guard passes and the
// request - headers included - goes out in clear text with err == nil.
func TestUnparsableHTTPSURLOnPlainHostClient(t *testing.T) {
	ln := fasthttputil.NewInmemoryListener()
	defer ln.Close()
	var mu sync.Mutex
	var wire strings.Builder
	go func() {
		for {
			c, err := ln.Accept()
			if err != nil {
				return
			}
			go func(c net.Conn) {
				buf := make([]byte, 4096)
				c.SetReadDeadline(time.Now().Add(300 * time.Millisecond))
				n, _ := c.Read(buf)
				mu.Lock()
				wire.Write(buf[:n])
				mu.Unlock()
				c.Write([]byte("HTTP/1.1 200 OK\r\nContent-Length: 0\r\n\r\n"))
				c.Close()
			}(c)
		}
	}()
	hc := &fasthttp.HostClient{Addr: "example.com:80", Dial: func(string) (net.Conn, error) { return ln.Dial() }}
	req, resp := fasthttp.AcquireRequest(), fasthttp.AcquireResponse()
	req.SetRequestURI("https://example.com/secret\x01")
	req.Header.SetHost("example.com")
	req.Header.Set("Authorization", "Bearer s3cr3t")
	err := hc.Do(req, resp)
	time.Sleep(50 * time.Millisecond)
	mu.Lock()
	w := wire.String()
	mu.Unlock()
	t.Logf("err=%v wire=%q", err, w)
	if strings.Contains(w, "s3cr3t") {
		t.Errorf("the request addressed to https went out in clear text (err=%v)", err)
	}
}
