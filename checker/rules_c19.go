package main

// C19 - client retries.

import (
	"fmt"
	"go/token"
	"strings"

	"golang.org/x/tools/go/ssa"
)

func init() {
	register(&propDef{
		id:      "C19",
		explain: "Structural necessary conditions of 'a request is transmitted at most MaxIdemponentCallAttempts times, only when the retry policy allows, never when it carries a body stream': in HostClient.Do's retry loop, on every path from one transmission attempt to the next the code has passed (a) the exit for requests with a body stream, tested on a value computed before the first transmission (Request.Write consumes the stream, so a test made after an attempt sees nothing), (b) the attempt counter increment and the exit when it reaches the limit, where the limit is the configured value or the default when that is not positive, (c) the retry decision of the configured callback or the idempotency predicate with an exit when it says no, and (d) when a timeout is set, the deadline test; a failed attempt whose error is nil or whose retry flag is false ends the loop. isIdempotent depends only on IsGet / IsHead / IsPut. In the transport: the return that follows a failed connection acquisition and the one for ErrBodyTooLarge carry retry = false. (R3) the counter compared with the limit and carried into the next iteration is the loop's counter plus a positive step on every path (no conditional increment). Not decided: counting transmissions in executions, server behaviour.",
		run:     runC19,
	})
}

func runC19(p *Prog, r *Report) {
	fn := p.Func("(*HostClient).Do")
	fdo := p.Func("(*HostClient).do")
	if fn == nil || fdo == nil {
		r.Undecided("R1", "anchors HostClient.Do / do", "not found")
		return
	}
	var tx *ssa.Call
	allCalls(fn, func(b *ssa.BasicBlock, c ssa.CallInstruction) {
		if cv, ok := c.(*ssa.Call); ok && isCallTo(cv, fdo) {
			tx = cv
		}
	})
	if tx == nil {
		r.Undecided("R1", "transmission call in HostClient.Do", "no call of (*HostClient).do")
		return
	}
	header := loopHeaderOf(tx.Block())
	if header == nil {
		r.Undecided("R1", "retry loop", "the transmission is not inside a loop")
		return
	}
	inL := func(b *ssa.BasicBlock) bool { return inLoop(header, b) }
	const (
		bSent uint64 = 1 << iota
		bBody
		bAttempts
		bRetry
		bErrChecked
	)
	definedOutsideLoop := func(v ssa.Value) bool {
		_, w := stripNot(v)
		in, ok := w.(ssa.Instruction)
		if !ok {
			return true // parameter / constant
		}
		return !inL(in.Block())
	}
	type tally struct {
		n, bad int
		wit    []string
		pos    string
	}
	obs := map[string]*tally{}
	note := func(x *Explorer, st *State, key string, ok bool, pos token.Pos) {
		t := obs[key]
		if t == nil {
			t = &tally{}
			obs[key] = t
		}
		t.n++
		if !ok {
			t.bad++
			if t.wit == nil {
				t.wit = x.Path(st)
				t.pos = p.Pos(pos)
			}
		}
	}
	lateBodyTest := false
	x := NewExplorer(p, fn, Hooks{
		Instr: func(x *Explorer, st *State, in ssa.Instruction) {
			if in != ssa.Instruction(tx) {
				return
			}
			if st.Has(bSent) {
				note(x, st, "a retransmission follows the body-stream exit test (made on a value computed before the first attempt)", st.Has(bBody), in.Pos())
				note(x, st, "a retransmission follows the attempt-count test", st.Has(bAttempts), in.Pos())
				note(x, st, "a retransmission follows a positive retry decision", st.Has(bRetry), in.Pos())
				note(x, st, "a retransmission follows the test of the previous attempt's error and retry flag", st.Has(bErrChecked), in.Pos())
			}
			st.Ev &^= bBody | bAttempts | bRetry | bErrChecked
			st.Set(bSent)
		},
		Branch: func(x *Explorer, st *State, cond ssa.Value, taken bool, from *ssa.BasicBlock) {
			if !inL(from) || !st.Has(bSent) {
				return
			}
			at := condAtoms(cond)
			switch {
			case hasAtomContaining(at, "Request.IsBodyStream"):
				if definedOutsideLoop(cond) {
					st.Set(bBody)
				} else {
					lateBodyTest = true
				}
			case hasAtomContaining(at, "field:HostClient.MaxIdemponentCallAttempts") || hasAtomContaining(at, "const:"+fmt.Sprint(5)) && strings.Contains(atomsList(at), "Attempts"):
				st.Set(bAttempts)
			}
			// the branch on the retry decision itself (the merged result of the configured callbacks / the idempotency
			// predicate), taken on its "retry" outcome, after the counter test
			if pos, v := stripNot(cond); isRetryDecision(v) && taken == pos && st.Has(bAttempts) {
				st.Set(bRetry)
			}
			// err == nil || !retry  (results of the transmission)
			for a := range at {
				if strings.HasPrefix(a, "call:HostClient.do") {
					st.Set(bErrChecked)
				}
			}
		},
	})
	x.Filter = noIntFilter
	x.Run(nil)
	must := []string{
		"a retransmission follows the body-stream exit test (made on a value computed before the first attempt)",
		"a retransmission follows the attempt-count test",
		"a retransmission follows a positive retry decision",
		"a retransmission follows the test of the previous attempt's error and retry flag",
	}
	for _, k := range must {
		t := obs[k]
		if t == nil {
			r.Undecided("R1", "HostClient.Do: "+k, "no explored path reaches a second transmission: the retry loop was not recognised")
			continue
		}
		detail := fmt.Sprintf("%d of %d explored arrivals at a second transmission violate it", t.bad, t.n)
		if lateBodyTest && strings.Contains(k, "body-stream") {
			detail += "; the loop tests IsBodyStream() after an attempt, when Request.Write has already detached the stream"
		}
		r.Check("R1", "HostClient.Do: "+k, t.bad == 0, t.pos, detail, t.wit...)
	}
	// the limit: configured value, or the default when not positive
	{
		ok := false
		for _, b := range fn.Blocks {
			for _, in := range b.Instrs {
				if ph, isPhi := in.(*ssa.Phi); isPhi && ph.Comment == "maxAttempts" {
					hasField, hasConst := false, false
					for _, e := range ph.Edges {
						if _, fv := loadedField(e); fv != nil && fv.Name() == "MaxIdemponentCallAttempts" {
							hasField = true
						}
						if k, okc := constInt(e); okc && k > 0 {
							hasConst = true
						}
					}
					ok = hasField && hasConst
				}
			}
		}
		r.Check("R2", "HostClient.Do: the attempt limit is the configured value or a positive default", ok, p.Pos(fn.Pos()), "no merge of HostClient.MaxIdemponentCallAttempts with a positive constant default was found")
	}
	// R3: the attempt counter counts every retry. The value compared with the limit, and the value the loop carries
	// into its next iteration, are the header's counter plus a positive step on every path - a merge with the
	// uncounted value (an increment made under a condition) lets some failed attempts go unnumbered, and the loop
	// then retransmits beyond the limit.
	{
		var limitPhi *ssa.Phi
		for _, b := range fn.Blocks {
			for _, in := range b.Instrs {
				if ph, isPhi := in.(*ssa.Phi); isPhi {
					for _, e := range ph.Edges {
						if _, fv := loadedField(e); fv != nil && fv.Name() == "MaxIdemponentCallAttempts" {
							limitPhi = ph
						}
					}
				}
			}
		}
		n := 0
		for _, b := range fn.Blocks {
			iff, ok := b.Instrs[len(b.Instrs)-1].(*ssa.If)
			if !ok || !inL(b) || limitPhi == nil {
				continue
			}
			bo, ok := iff.Cond.(*ssa.BinOp)
			if !ok {
				continue
			}
			var cnt ssa.Value
			switch {
			case bo.Y == ssa.Value(limitPhi):
				cnt = bo.X
			case bo.X == ssa.Value(limitPhi):
				cnt = bo.Y
			default:
				continue
			}
			n++
			// the header phi behind the counter
			var hphi *ssa.Phi
			var find func(v ssa.Value, d int)
			find = func(v ssa.Value, d int) {
				if d > 6 || hphi != nil {
					return
				}
				switch x := v.(type) {
				case *ssa.Phi:
					if x.Block() == header {
						hphi = x
						return
					}
					for _, e := range x.Edges {
						find(e, d+1)
					}
				case *ssa.BinOp:
					find(x.X, d+1)
				}
			}
			find(cnt, 0)
			if hphi == nil {
				r.Check("R3", "HostClient.Do: the value compared with the attempt limit is a counter carried by the retry loop", false, p.Pos(iff.Pos()), "no loop-carried variable behind the compared value")
				continue
			}
			var counted func(v ssa.Value, d int) bool
			counted = func(v ssa.Value, d int) bool {
				if d > 6 {
					return false
				}
				switch x := v.(type) {
				case *ssa.BinOp:
					k, isK := constInt(x.Y)
					return x.Op == token.ADD && isK && k > 0 && (x.X == ssa.Value(hphi) || counted(x.X, d+1))
				case *ssa.Phi:
					if x == hphi {
						return false
					}
					for _, e := range x.Edges {
						if !counted(e, d+1) {
							return false
						}
					}
					return len(x.Edges) > 0
				}
				return false
			}
			okCmp := counted(cnt, 0)
			okBack := true
			for i, e := range hphi.Edges {
				if inL(header.Preds[i]) && !counted(e, 0) {
					okBack = false
				}
			}
			r.Check("R3", "HostClient.Do: every failed attempt that may be retried is counted (the counter tested against the limit and carried to the next attempt is incremented on every path)", okCmp && okBack, p.Pos(iff.Pos()),
				fmt.Sprintf("compared value always incremented: %v; value carried into the next iteration always incremented: %v - an attempt that is not counted does not move the loop towards MaxIdemponentCallAttempts: the request is retransmitted until something else ends it", okCmp, okBack))
		}
		r.Floor("R3", "comparisons of the attempt counter with the limit in the retry loop", n, 1)
	}
	// isIdempotent's atoms
	if f := p.Func("isIdempotent"); f != nil {
		at := map[string]bool{}
		for _, b := range f.Blocks {
			if rt, ok := b.Instrs[len(b.Instrs)-1].(*ssa.Return); ok {
				for _, rv := range returnResults(rt) {
					for a := range condAtomsDepth(rv, 0) {
						at[a] = true
					}
				}
			}
		}
		want := map[string]bool{}
		extra := []string{}
		for a := range at {
			switch {
			case strings.Contains(a, "IsGet"), strings.Contains(a, "IsHead"), strings.Contains(a, "IsPut"):
				want[a] = true
			case strings.HasPrefix(a, "const:"):
			default:
				extra = append(extra, a)
			}
		}
		r.Check("R3", "isIdempotent depends exactly on IsGet, IsHead and IsPut", len(want) == 3 && len(extra) == 0, p.Pos(f.Pos()), "atoms: "+atomsList(at))
	} else {
		r.Undecided("R3", "isIdempotent", "not found")
	}
	// transport: retry=false where a retry cannot help
	if rtFn := p.Func("(*transport).RoundTrip"); rtFn != nil {
		acq := p.Func("(*HostClient).AcquireConn")
		n := 0
		for _, b := range rtFn.Blocks {
			rt, ok := b.Instrs[len(b.Instrs)-1].(*ssa.Return)
			if !ok {
				continue
			}
			rr := returnResults(rt)
			if len(rr) != 2 {
				continue
			}
			// the return taken when AcquireConn's error is not nil
			ifi := controllingIf(b)
			if ifi == nil {
				continue
			}
			_, cv := stripNot(ifi.Cond)
			if bo, isBo := cv.(*ssa.BinOp); isBo {
				for _, o := range []ssa.Value{bo.X, bo.Y} {
					if e2, ok := o.(*ssa.Extract); ok {
						if c, ok := e2.Tuple.(*ssa.Call); ok && isCallTo(c, acq) {
							n++
							r.Check("R4", "transport.RoundTrip: no retry is requested when no connection could be acquired", staticAbs(rr[0]) == False, p.Pos(rt.Pos()), "the return after a failed AcquireConn does not carry retry = false")
						}
					}
				}
			}
		}
		// ErrBodyTooLarge: the retry flag returned with a ReadLimitBody error depends on a comparison with ErrBodyTooLarge
		found := false
		for _, b := range rtFn.Blocks {
			for _, in := range b.Instrs {
				if bo, ok := in.(*ssa.BinOp); ok && (bo.Op == token.NEQ || bo.Op == token.EQL) && (globalOf(bo.X) == "ErrBodyTooLarge" || globalOf(bo.Y) == "ErrBodyTooLarge") {
					for _, ref := range *bo.Referrers() {
						if _, isRet := ref.(*ssa.Return); isRet {
							found = true
						}
						if ph, isPhi := ref.(*ssa.Phi); isPhi {
							_ = ph
							found = true
						}
						if st, isSt := ref.(*ssa.Store); isSt {
							_ = st
							found = true
						}
					}
				}
			}
		}
		r.Check("R4", "transport.RoundTrip: the retry flag returned with a body-read error is false for ErrBodyTooLarge", found, p.Pos(rtFn.Pos()), "no returned retry flag is computed from a comparison of the error with ErrBodyTooLarge")
		r.Floor("R4", "returns after a failed AcquireConn", n, 1)
	} else {
		r.Undecided("R4", "(*transport).RoundTrip", "not found")
	}
}

// isRetryDecision: v is the boolean that merges the results of the retry callbacks: a phi whose
// operands are all results of dynamic calls (function-typed fields RetryIfErrUpstream / RetryIfErr / RetryIf
// or the selected predicate), or such a result itself.
func isRetryDecision(v ssa.Value) bool {
	one := func(e ssa.Value) bool {
		if ex, ok := e.(*ssa.Extract); ok {
			e = ex.Tuple
		}
		c, ok := e.(*ssa.Call)
		if !ok || c.Call.IsInvoke() {
			return false
		}
		if f := c.Call.StaticCallee(); f != nil {
			return f.Name() == "isIdempotent"
		}
		return true // call through a function value
	}
	if ph, ok := v.(*ssa.Phi); ok {
		if len(ph.Edges) == 0 {
			return false
		}
		for _, e := range ph.Edges {
			if !one(e) {
				return false
			}
		}
		return true
	}
	return one(v)
}
