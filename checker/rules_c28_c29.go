package main

// C28 / C29 - ordered multimaps. E11: every routine that moves elements of a
// key/value slice (Args storage, header fields, cookies) is order-preserving by
// the shape of its element moves; every reduction of such a slice goes through
// such a routine. C29 additionally: the per-name tables of the header API agree
// (sibling cross-check) and CopyTo covers every field (E7).

import (
	"fmt"
	"go/token"
	"go/types"
	"sort"
	"strings"

	"golang.org/x/tools/go/ssa"
)

func init() {
	register(&propDef{
		id:      "C28",
		explain: "Structural necessary condition of 'Args behaves as an insertion-ordered multimap': every function that moves elements inside a []argsKV (element stores fed by element loads, or copy() within one slice) is order-preserving by construction - copy shifts left by a constant, and no element is loaded from an index derived from the slice length (the tail) and stored at an index that is not; an entry moved to another slot has its old slot rewritten as well (swap, park or shift), so no two slots share key/value buffers - and every shortening of Args.args is [:0], the result of such a routine, or happens inside one; (coupling) every function of the Args machinery that assigns an entry's value also assigns its no-value flag on every path. (R-slot) a recycled entry handed out by allocArg (reslicing into spare capacity, so it still holds the previous occupant's key, value and flag) has key, value and no-value flag stored before it is kept - directly, or by argsScanner.next, whose every producing return stores all three (decided path-sensitively); (R-has) no boolean routine reached from Args.Has / HasBytes returns a value that depends on a byte slice compared with nil - presence is decided by the key comparison (an empty value in a never-used capacity slot is a nil slice); (R-empty) Args.ParseBytes keeps a scanned entry under a condition made of the lengths of its key and of its value only (both involved, nothing else such as the has-'=' flag). Not decided: agreement of Peek/Set/Add with a reference model over operation sequences, parsing and encoding.",
		run: func(p *Prog, r *Report) {
			runKVOrder(p, r, "C28")
			runKVCoupling(p, r)
			runSlotFill(p, r, "C28")
			runPresenceByKey(p, r)
			runEmptyTokenFilter(p, r)
		},
	})
	register(&propDef{
		id:      "C29",
		explain: "Structural necessary conditions of 'headers behave as an ordered case-insensitive multimap': (E11) as for C28, for header.h / cookies storage of both header types; (sibling) the special header names handled by the set / peek / peekAll / del / serialise paths of each header type are the same set, so a name stored in a dedicated field by one operation is found by the others; (E7) CopyTo writes every field of the destination header from the same field of the source; (accumulate) the generic Set-Cookie paths of the response header (setter switch and parser) append to the cookie list and never replace by key. (R-slot) a recycled entry handed out by allocArg has its key and value stored before it is kept, directly or by a scanner whose producing returns store them on every path; (R-iter) in the serialisers, the branch guarding the write of a stored field does not flow from a boolean merged at the head of the loop over the fields - the fate of a field depends on that field alone; (R-single) for a special name whose other values are kept in the generic list (Connection), every path of its case in setSpecialHeader stores into or deletes from that list, so a second Set replaces the first; (R-del) every path through RequestHeader.del removes the asked-for name from the generic field list (or collects the lazily kept Cookie lines first), whatever special case it took; (R-collect) collectCookies removes from the generic list every line it parsed into the cookie list - a shrinking store inside the iteration, or a deleter that compares stored names case-insensitively like the recognition does. Not decided: model agreement over operation sequences, parse/serialise round trip.",
		run: func(p *Prog, r *Report) {
			runKVOrder(p, r, "C29")
			runHeaderSiblings(p, r)
			runCopyToCoverage(p, r)
			runSetCookieAccumulates(p, r)
			runSlotFill(p, r, "C29")
			runPerFieldDecision(p, r)
			runSpecialSingleValued(p, r)
			runDelCoversGenericList(p, r)
			runCollectRemovesWhatItParsed(p, r)
		},
	})
}

func isKVSlice(t types.Type) bool {
	s, ok := t.Underlying().(*types.Slice)
	if !ok {
		return false
	}
	n, ok := s.Elem().(*types.Named)
	return ok && n.Obj().Name() == "argsKV"
}

// dependsOnLen: the backward slice of an integer value contains len()/cap().
func dependsOnLen(v ssa.Value) bool {
	seen := map[ssa.Value]bool{}
	var walk func(v ssa.Value, d int) bool
	walk = func(v ssa.Value, d int) bool {
		if v == nil || seen[v] || d > 20 {
			return false
		}
		seen[v] = true
		switch w := v.(type) {
		case *ssa.Call:
			if b, ok := w.Call.Value.(*ssa.Builtin); ok && (b.Name() == "len" || b.Name() == "cap") {
				return true
			}
		case *ssa.BinOp:
			return walk(w.X, d+1) || walk(w.Y, d+1)
		case *ssa.Phi:
			for _, e := range w.Edges {
				if walk(e, d+1) {
					return true
				}
			}
		case *ssa.Convert:
			return walk(w.X, d+1)
		case *ssa.UnOp:
			return walk(w.X, d+1)
		}
		return false
	}
	return walk(v, 0)
}

// constOffset: b == a + k for a constant k >= 0 (syntactically).
func constOffset(a, b ssa.Value) (int64, bool) {
	if a == b {
		return 0, true
	}
	if a == nil {
		if k, ok := constInt(b); ok {
			return k, true
		}
		return 0, false
	}
	if bo, ok := b.(*ssa.BinOp); ok && bo.Op == token.ADD {
		if k, ok := constInt(bo.Y); ok && bo.X == a {
			return k, true
		}
		if k, ok := constInt(bo.X); ok && bo.Y == a {
			return k, true
		}
	}
	return 0, false
}

// sliceBase strips Slice operations and loads: the storage a slice expression views.
func sliceBaseKey(x *Explorer, v ssa.Value) string {
	for i := 0; i < 6; i++ {
		if s, ok := v.(*ssa.Slice); ok {
			v = s.X
			continue
		}
		break
	}
	if u, ok := v.(*ssa.UnOp); ok && u.Op == token.MUL {
		return "*" + fieldPath(u.X) + fmt.Sprintf("%p", rootOf(u.X))
	}
	return fmt.Sprintf("%p", v)
}

func rootOf(v ssa.Value) ssa.Value {
	for i := 0; i < 12; i++ {
		switch w := v.(type) {
		case *ssa.FieldAddr:
			v = w.X
		case *ssa.UnOp:
			v = w.X
		case *ssa.Field:
			v = w.X
		default:
			return v
		}
	}
	return v
}

type kvRoutine struct {
	fn      *ssa.Function
	moves   int
	problem string
	pos     token.Pos
}

// classifyKVRoutines finds every function that moves argsKV elements and
// decides whether the moves are order-preserving.
func classifyKVRoutines(p *Prog) map[*ssa.Function]*kvRoutine {
	out := map[*ssa.Function]*kvRoutine{}
	for _, fn := range p.SrcFuncs() {
		var rt *kvRoutine
		get := func() *kvRoutine {
			if rt == nil {
				rt = &kvRoutine{fn: fn}
				out[fn] = rt
			}
			return rt
		}
		for _, b := range fn.Blocks {
			for _, in := range b.Instrs {
				switch in := in.(type) {
				case *ssa.Call:
					bi, ok := in.Call.Value.(*ssa.Builtin)
					if !ok || bi.Name() != "copy" || len(in.Call.Args) != 2 || !isKVSlice(in.Call.Args[0].Type()) {
						continue
					}
					d, dok := in.Call.Args[0].(*ssa.Slice)
					s, sok := in.Call.Args[1].(*ssa.Slice)
					if !dok || !sok {
						// whole-slice copies into a different slice (CopyTo) are not moves within one storage
						if sliceBaseKey(nil, in.Call.Args[0]) == sliceBaseKey(nil, in.Call.Args[1]) {
							r := get()
							r.moves++
							r.problem = "copy() between overlapping views of one key/value slice whose offsets are not visible"
							r.pos = in.Pos()
						}
						continue
					}
					if sliceBaseKey(nil, d) != sliceBaseKey(nil, s) {
						continue
					}
					r := get()
					r.moves++
					if k, ok := constOffset(d.Low, s.Low); !ok || k < 0 {
						r.problem = "copy() inside one key/value slice that is not a shift to the left by a constant (dst low bound vs src low bound)"
						r.pos = in.Pos()
					}
				case *ssa.Store:
					ia, ok := in.Addr.(*ssa.IndexAddr)
					if !ok || !isKVSlice(ia.X.Type()) {
						continue
					}
					// value: a load of an element of a key/value slice (directly or through a temp)
					src := elementLoadIndex(in.Val)
					if src == nil {
						continue
					}
					r := get()
					r.moves++
					if dependsOnLen(src.Index) && !dependsOnLen(ia.Index) {
						r.problem = "an element taken from the tail of the slice (index derived from len) is stored at a position that is not in the tail: the relative order of the remaining entries changes"
						r.pos = in.Pos()
					}
					// ownership: an entry owns its key/value buffers and slots past the new length are reused by the next
					// append. Moving an entry by plain copy leaves two slots sharing one pair of buffers; the slot it came
					// from has to be rewritten too (swap, park of a saved entry, or a copy() shift starting at it).
					if src.Index != ia.Index && r.problem == "" {
						rewritten := false
						for _, bb := range fn.Blocks {
							for _, i2 := range bb.Instrs {
								switch w := i2.(type) {
								case *ssa.Store:
									if a2, ok := w.Addr.(*ssa.IndexAddr); ok && i2 != ssa.Instruction(in) && isKVSlice(a2.X.Type()) && a2.Index == src.Index {
										rewritten = true
									}
								case *ssa.Call:
									if bi, ok := w.Call.Value.(*ssa.Builtin); ok && bi.Name() == "copy" && len(w.Call.Args) == 2 {
										if d, ok := w.Call.Args[0].(*ssa.Slice); ok && d.Low == src.Index {
											rewritten = true
										}
									}
								}
							}
						}
						if !rewritten {
							r.problem = "an entry is moved to another slot by plain copy and the slot it came from keeps pointing at the same key/value buffers: when that slot (now past the new length) is reused by the next append, the bytes of the live entry are overwritten"
							r.pos = in.Pos()
						}
					}
				}
			}
		}
	}
	return out
}

// elementLoadIndex: v is (a copy of) *(&kv[i]) for a key/value slice; returns the IndexAddr.
func elementLoadIndex(v ssa.Value) *ssa.IndexAddr {
	for i := 0; i < 6; i++ {
		switch w := v.(type) {
		case *ssa.UnOp:
			if w.Op != token.MUL {
				return nil
			}
			switch a := w.X.(type) {
			case *ssa.IndexAddr:
				if isKVSlice(a.X.Type()) {
					return a
				}
				return nil
			case *ssa.Alloc:
				// tmp := *kv ; ... = tmp : find the single store into the temp
				var val ssa.Value
				n := 0
				for _, ref := range *a.Referrers() {
					if st, ok := ref.(*ssa.Store); ok && st.Addr == ssa.Value(a) {
						val = st.Val
						n++
					}
				}
				if n != 1 {
					return nil
				}
				v = val
				continue
			}
			return nil
		case *ssa.Phi:
			// swap idiom through registers: take the first element-load edge
			for _, e := range w.Edges {
				if ia := elementLoadIndex(e); ia != nil {
					return ia
				}
			}
			return nil
		default:
			return nil
		}
	}
	return nil
}

func runKVOrder(p *Prog, r *Report, prop string) {
	routines := classifyKVRoutines(p)
	wantField := func(fv *types.Var, owner string) bool {
		if !isKVSlice(fv.Type()) {
			return false
		}
		if prop == "C28" {
			return owner == "Args"
		}
		return owner != "Args"
	}
	// which routines matter for this property: those reachable to the property's storage
	nrt := 0
	for fn, rt := range routines {
		rel := kvRoutineOwner(p, fn)
		if (prop == "C28") != (rel == "Args") && rel != "shared" {
			continue
		}
		nrt++
		r.Check("E11", "element moves in "+funcName(fn)+" are order-preserving and leave every buffer with one owner", rt.problem == "", p.Pos(firstPos(fn, rt.pos)),
			fmt.Sprintf("%d element moves; %s", rt.moves, rt.problem))
	}
	floorR := 2
	if prop == "C28" {
		floorR = 1
	}
	r.Floor("E11", "compaction routines", nrt, floorR)

	// every store that can shorten the storage
	nstores := 0
	for _, fn := range p.SrcFuncs() {
		for _, b := range fn.Blocks {
			for _, in := range b.Instrs {
				st, ok := in.(*ssa.Store)
				if !ok {
					continue
				}
				fa, ok := st.Addr.(*ssa.FieldAddr)
				if !ok {
					continue
				}
				fv := fieldVar(fa.X.Type(), fa.Field)
				owner := typeNameOf(fa.X)
				if fv == nil || !wantField(fv, owner) {
					continue
				}
				nstores++
				kind, ok2 := classifyKVStore(p, st.Val, routines, fn)
				r.Check("E11", fmt.Sprintf("store to %s.%s in %s: %s", owner, fv.Name(), funcName(fn), kind), ok2, p.Pos(st.Pos()),
					"the key/value storage is replaced by a value that is not [:0], an append, the result of an order-preserving routine, a fresh copy, or a shortening inside such a routine")
			}
		}
	}
	floorS := 20
	if prop == "C28" {
		floorS = 8
	}
	r.Floor("E11", "stores to key/value storage fields", nstores, floorS)
}

func firstPos(fn *ssa.Function, pos token.Pos) token.Pos {
	if pos.IsValid() {
		return pos
	}
	return fn.Pos()
}

// kvRoutineOwner: "Args" when the routine is only used on Args storage,
// "header" for header storage, "shared" when it takes the slice as a parameter.
func kvRoutineOwner(p *Prog, fn *ssa.Function) string {
	if rt := recvTypeName(fn); rt != "" {
		if rt == "Args" {
			return "Args"
		}
		return "header"
	}
	// package-level helper: owner by its callers
	owners := map[string]bool{}
	for _, cf := range p.SrcFuncs() {
		allCalls(cf, func(b *ssa.BasicBlock, c ssa.CallInstruction) {
			if isCallTo(c, fn) {
				if rt := recvTypeName(cf); rt == "Args" {
					owners["Args"] = true
				} else {
					owners["header"] = true
				}
			}
		})
	}
	if len(owners) == 1 {
		for k := range owners {
			return k
		}
	}
	return "shared"
}

func classifyKVStore(p *Prog, v ssa.Value, routines map[*ssa.Function]*kvRoutine, in *ssa.Function) (string, bool) {
	switch w := v.(type) {
	case *ssa.Const:
		return "nil", true
	case *ssa.Slice:
		if w.High != nil {
			if k, ok := constInt(w.High); ok && k == 0 {
				return "[:0]", true
			}
			if rt := routines[in]; rt != nil {
				return "shortening inside a compaction routine (classified separately)", true
			}
			return "slice expression with a high bound outside a compaction routine", false
		}
		if w.Low == nil {
			return "full slice", true
		}
		return "slice expression dropping a prefix", false
	case *ssa.Call:
		if b, ok := w.Call.Value.(*ssa.Builtin); ok {
			if b.Name() == "append" {
				return "append", true
			}
			return "builtin " + b.Name(), false
		}
		f := w.Call.StaticCallee()
		if f == nil {
			return "dynamic call", false
		}
		if rt := routines[f]; rt != nil {
			return "result of routine " + funcName(f), rt.problem == ""
		}
		// helper that only appends / copies / parses into the slice: none of its returns shortens
		if returnsGrownOrSame(p, f, routines, 0) {
			return "result of " + funcName(f) + " (appends / updates in place)", true
		}
		return "result of " + funcName(f) + " which may shorten or reorder", false
	case *ssa.Phi:
		for _, e := range w.Edges {
			if k, ok := classifyKVStore(p, e, routines, in); !ok {
				return k, false
			}
		}
		return "merge of accepted values", true
	case *ssa.UnOp:
		return "copy of another storage", true
	case *ssa.MakeSlice:
		return "fresh slice", true
	case *ssa.Parameter:
		return "parameter", true
	case *ssa.Extract:
		if c, ok := w.Tuple.(*ssa.Call); ok {
			if f := c.Call.StaticCallee(); f != nil && returnsGrownOrSame(p, f, routines, 0) {
				return "result of " + funcName(f), true
			}
		}
	}
	return fmt.Sprintf("%T", v), false
}

// returnsGrownOrSame: every []argsKV result of f is its parameter, an append
// to it, a slice without high bound below len, or the result of such a helper.
func returnsGrownOrSame(p *Prog, f *ssa.Function, routines map[*ssa.Function]*kvRoutine, depth int) bool {
	if depth > 4 || f.Blocks == nil {
		return false
	}
	if rt := routines[f]; rt != nil {
		return rt.problem == ""
	}
	var ok func(v ssa.Value, d int) bool
	seen := map[ssa.Value]bool{}
	ok = func(v ssa.Value, d int) bool {
		if seen[v] {
			return true
		}
		seen[v] = true
		if !isKVSlice(v.Type()) {
			return true
		}
		switch w := v.(type) {
		case *ssa.Parameter, *ssa.Const, *ssa.MakeSlice:
			return true
		case *ssa.Phi:
			for _, e := range w.Edges {
				if !ok(e, d+1) {
					return false
				}
			}
			return true
		case *ssa.Slice:
			// args[:n+1] after growing capacity (appendArg idiom) or [:0]
			return ok(w.X, d+1)
		case *ssa.Call:
			if b, isB := w.Call.Value.(*ssa.Builtin); isB {
				return b.Name() == "append"
			}
			if g := w.Call.StaticCallee(); g != nil {
				return returnsGrownOrSame(p, g, routines, depth+1)
			}
		case *ssa.Extract:
			if c, isC := w.Tuple.(*ssa.Call); isC {
				if g := c.Call.StaticCallee(); g != nil {
					return returnsGrownOrSame(p, g, routines, depth+1)
				}
			}
		case *ssa.UnOp:
			return true
		}
		return false
	}
	for _, b := range f.Blocks {
		if rt, isRet := b.Instrs[len(b.Instrs)-1].(*ssa.Return); isRet {
			for _, rv := range returnResults(rt) {
				if !ok(rv, 0) {
					return false
				}
			}
		}
	}
	return true
}

// ---- sibling agreement of the special-name tables ----

// specialNames collects the package-level byte-slice / string constants a
// function compares its key against (case labels and caseInsensitiveCompare /
// string equality operands), following static calls on the same receiver.
func specialNames(p *Prog, fn *ssa.Function, depth int, out map[string]bool, seen map[*ssa.Function]bool) {
	if fn == nil || seen[fn] || depth > 3 || fn.Blocks == nil {
		return
	}
	seen[fn] = true
	cic := p.Func("caseInsensitiveCompare")
	for _, b := range fn.Blocks {
		for _, in := range b.Instrs {
			switch in := in.(type) {
			case *ssa.Call:
				f := in.Call.StaticCallee()
				if f != nil && f == cic {
					// a header *name* test: the other operand is the key (the first data parameter), not the value
					for i, a := range in.Call.Args {
						g := globalOf(a)
						if !strings.HasPrefix(g, "str") || len(in.Call.Args) != 2 {
							continue
						}
						other := in.Call.Args[1-i]
						for k := 0; k < 4; k++ {
							switch w := other.(type) {
							case *ssa.Slice:
								other = w.X
								continue
							case *ssa.Convert:
								other = w.X
								continue
							case *ssa.ChangeType:
								other = w.X
								continue
							}
							break
						}
						if prm, isP := other.(*ssa.Parameter); isP && len(fn.Params) > 2 && prm != fn.Params[1] {
							continue
						}
						out[strings.ToLower(globalBytesValue(p, p.Root().Var(g)))] = true
					}
				} else if f != nil && inModule(f) && (recvTypeName(f) == recvTypeName(fn) || recvTypeName(f) == "header") && strings.Contains(strings.ToLower(f.Name()), "special") {
					specialNames(p, f, depth+1, out, seen)
				}
			case *ssa.BinOp:
				if in.Op == token.EQL {
					for _, o := range []ssa.Value{in.X, in.Y} {
						if s, ok := stringConst(o); ok && len(s) > 2 {
							out[strings.ToLower(s)] = true
						}
					}
				}
			}
		}
	}
}

func runHeaderSiblings(p *Prog, r *Report) {
	type fam struct {
		typ string
		fns map[string]string // role -> method
	}
	fams := []fam{
		{"ResponseHeader", map[string]string{"set": "setSpecialHeader", "peek": "peek", "peekAll": "peekAll", "del": "del"}},
		{"RequestHeader", map[string]string{"set": "setSpecialHeader", "peek": "peek", "peekAll": "peekAll", "del": "del"}},
	}
	for _, f := range fams {
		sets := map[string]map[string]bool{}
		for role, m := range f.fns {
			fn := p.Func("(*" + f.typ + ")." + m)
			if fn == nil {
				r.Undecided("sibling", f.typ+"."+m, "method not found")
				continue
			}
			s := map[string]bool{}
			specialNames(p, fn, 0, s, map[*ssa.Function]bool{})
			sets[role] = s
		}
		if len(sets) < 4 {
			continue
		}
		// names with dedicated storage = those the setter knows
		for name := range sets["set"] {
			for _, role := range []string{"peek", "peekAll", "del"} {
				ok := sets[role][name]
				// documented asymmetries (reasons):
				if !ok && exemptSpecial(f.typ, role, name) != "" {
					r.Note("sibling exempt %s.%s %q: %s", f.typ, role, name, exemptSpecial(f.typ, role, name))
					continue
				}
				r.Check("sibling", fmt.Sprintf("%s: header %q handled by set is also handled by %s", f.typ, name, role), ok, p.Pos(p.Func("(*"+f.typ+")."+f.fns[role]).Pos()),
					fmt.Sprintf("names known to %s: %s", role, joinSorted(sets[role])))
			}
		}
		r.Floor("sibling", f.typ+" special names in set", len(sets["set"]), 6)
	}
}

// exemptSpecial lists the confirmed asymmetries of the special-name tables.
func exemptSpecial(typ, role, name string) string {
	switch {
	case name == "date":
		return "Date is generated on serialisation; set stores it as an ordinary field"
	case name == "transfer-encoding":
		return "setSpecialHeader deliberately discards Transfer-Encoding (managed automatically from the body): nothing is stored, so peek/del have nothing to find"
	}
	return ""
}

// ---- CopyTo coverage (E7) ----

func runCopyToCoverage(p *Prog, r *Report) {
	for _, typ := range []string{"RequestHeader", "ResponseHeader"} {
		fn := p.Func("(*" + typ + ").CopyTo")
		nt := p.NamedType(typ)
		if fn == nil || nt == nil {
			r.Undecided("E7", typ+".CopyTo", "not found")
			continue
		}
		written := fieldsWritten(p, fn, 1, 3) // fields of parameter #1 (dst)
		copied := fieldsCopiedFrom(p, fn, 1, 0, 3)
		var all []string
		collectFieldPaths(nt, "", &all, 0)
		n := 0
		for _, fp := range all {
			if reason := copyExempt(typ, fp); reason != "" {
				r.Note("E7 exempt %s.%s: %s", typ, fp, reason)
				continue
			}
			n++
			r.Check("E7", fmt.Sprintf("%s.CopyTo writes dst.%s", typ, fp), coveredBy(written, fp), p.Pos(fn.Pos()),
				"the field is not assigned in the destination on some path: a copied header would keep the destination's old value (stale state)")
			r.Check("E7", fmt.Sprintf("%s.CopyTo copies dst.%s from src.%s", typ, fp, fp), coveredBy(copied, fp), p.Pos(fn.Pos()),
				"no store to this destination field is computed from the same field of the source: the copy silently loses it")
		}
		r.Floor("E7", typ+" fields covered by CopyTo", n, 10)
	}
}

func writtenPrefix(w map[string]bool, fp string) bool {
	// a store of the whole embedded struct covers its fields
	for i := len(fp) - 1; i > 0; i-- {
		if fp[i] == '.' && w[fp[:i]] {
			return true
		}
	}
	return false
}

func copyExempt(typ, fp string) string {
	base := fp
	if i := strings.LastIndex(fp, "."); i >= 0 {
		base = fp[i+1:]
	}
	switch base {
	case "noCopy":
		return "zero-size vet marker"
	case "bufK", "bufV":
		return "scratch buffers: always written before they are read within one call"
	case "mulHeader":
		return "scratch result slice of PeekAll: rebuilt on every call"
	case "secureErrorLogMessage":
		return "logging option of the owner (server/client impose it before every use), not header content"
	}
	return ""
}

// runKVCoupling (C28): the value of an Args entry and its "has no value" flag
// are one logical field: every function of the Args machinery that assigns
// argsKV.value also assigns argsKV.noValue of the same element on every path
// through that assignment (before or after it). A stale flag makes the
// serialised query string disagree with what Peek returns.
func runKVCoupling(p *Prog, r *Report) {
	n := 0
	for _, fn := range p.funcsIn("") {
		rt := recvTypeName(fn)
		if rt != "" && rt != "Args" && rt != "argsScanner" {
			continue
		}
		if rt == "" {
			// package-level helpers taking or returning []argsKV
			uses := false
			for _, prm := range fn.Params {
				if isKVSlice(prm.Type()) {
					uses = true
				}
			}
			if !uses {
				continue
			}
		}
		for _, b := range fn.Blocks {
			for _, in := range b.Instrs {
				st, ok := in.(*ssa.Store)
				if !ok {
					continue
				}
				fa, ok := st.Addr.(*ssa.FieldAddr)
				if !ok || typeNameOf(fa.X) != "argsKV" || fieldName(fa.X.Type(), fa.Field) != "value" {
					continue
				}
				// an entry of freshly allocated storage starts with the zero flag
				if _, isAlloc := fa.X.(*ssa.Alloc); isAlloc {
					continue
				}
				if ia, isIdx := fa.X.(*ssa.IndexAddr); isIdx {
					if _, fresh := ia.X.(*ssa.MakeSlice); fresh {
						continue
					}
				}
				n++
				elem := fa.X
				flagStore := func(i ssa.Instruction) bool {
					s2, ok := i.(*ssa.Store)
					if !ok {
						return false
					}
					fa2, ok := s2.Addr.(*ssa.FieldAddr)
					if !ok || typeNameOf(fa2.X) != "argsKV" || fieldName(fa2.X.Type(), fa2.Field) != "noValue" {
						return false
					}
					return fa2.X == elem || sameElem(fa2.X, elem)
				}
				// a whole-element store (*kv = argsKV{...}) also sets the flag
				whole := func(i ssa.Instruction) bool {
					s2, ok := i.(*ssa.Store)
					return ok && (s2.Addr == elem || sameElem(s2.Addr, elem))
				}
				dominated := false
				for _, bb := range fn.Blocks {
					for _, i2 := range bb.Instrs {
						if (flagStore(i2) || whole(i2)) && dominatesInstr(i2, st) {
							dominated = true
						}
					}
				}
				hit, path := reachAvoiding(fn, st, isReturn, orPred(flagStore, whole), nil)
				r.Check("coupling", fmt.Sprintf("%s: assigning an entry's value also assigns its no-value flag on every path", funcName(fn)), dominated || hit == nil, p.Pos(st.Pos()),
					"a return is reachable after storing argsKV.value without storing argsKV.noValue of the same entry: an entry that used to be value-less keeps its flag, so the query string is written without the value that Peek returns", blocksString(p, path)...)
			}
		}
	}
	r.Floor("coupling", "stores to argsKV.value in the Args machinery", n, 4)
}

func sameElem(a, b ssa.Value) bool {
	ia, ok1 := a.(*ssa.IndexAddr)
	ib, ok2 := b.(*ssa.IndexAddr)
	return ok1 && ok2 && ia.X == ib.X && ia.Index == ib.Index
}

// runSetCookieAccumulates (C29): wherever a header line named Set-Cookie is
// stored through the generic paths (the setter's special-name switch and the
// parser), the cookie list is appended to, never keyed-replaced: "cookies
// accumulate". (SetCookie(*Cookie) replaces by cookie name by documented design
// and is not a generic header path.)
func runSetCookieAccumulates(p *Prog, r *Report) {
	cic := p.Func("caseInsensitiveCompare")
	n := 0
	for _, fn := range p.funcsIn("") {
		if recvTypeName(fn) != "ResponseHeader" {
			continue
		}
		for _, b := range fn.Blocks {
			under := false
			for _, g := range guardsOf(b) {
				if c, ok := g.Cond.(*ssa.Call); ok && g.Pol && isCallTo(c, cic) {
					for _, a := range c.Call.Args {
						if globalOf(a) == "strSetCookie" {
							under = true
						}
					}
				}
			}
			if !under {
				continue
			}
			for _, in := range b.Instrs {
				c, ok := in.(*ssa.Call)
				if !ok {
					continue
				}
				f := c.Call.StaticCallee()
				if f == nil || len(c.Call.Args) == 0 {
					continue
				}
				if _, fv := loadedField(c.Call.Args[0]); fv == nil || fv.Name() != "cookies" {
					continue
				}
				switch f.Name() {
				case "allocArg", "appendArg", "appendArgBytes":
					n++
					r.Check("accumulate", funcName(fn)+": a Set-Cookie line is appended to the cookie list", true, p.Pos(c.Pos()), "")
				case "setArg", "setArgBytes":
					n++
					r.Check("accumulate", funcName(fn)+": a Set-Cookie line is appended to the cookie list", false, p.Pos(c.Pos()),
						"the generic Set-Cookie path stores with "+f.Name()+", which replaces an existing entry with the same key: a second Set-Cookie with the same cookie name silently overwrites the first and changes the order")
				}
			}
		}
	}
	r.Floor("accumulate", "Set-Cookie storage sites under a Set-Cookie name test", n, 2)
}

// runPerFieldDecision (C29.R-iter): in the header serialisers, whether a
// stored field is written depends on that field alone. The decision of the
// branch that guards appendHeaderLine for an element of the field list must
// not flow from a boolean carried round the loop over the fields (a loop-header
// merge fed from inside the loop): such a flag makes the fate of field i
// depend on the fields before it - one trailer-listed name and every later
// field disappears from the wire while Peek still sees it.
func runPerFieldDecision(p *Prog, r *Report) {
	appendLine := p.Func("appendHeaderLine")
	if appendLine == nil {
		r.Undecided("R-iter", "appendHeaderLine", "anchor not found")
		return
	}
	n := 0
	ord := map[*ssa.Function]int{}
	for _, fn := range p.funcsIn("") {
		rt := recvTypeName(fn)
		if (rt != "RequestHeader" && rt != "ResponseHeader") || fn.Blocks == nil {
			continue
		}
		// natural loops: header -> blocks
		loops := map[*ssa.BasicBlock]map[*ssa.BasicBlock]bool{}
		for _, b := range fn.Blocks {
			for _, s := range b.Succs {
				if s.Dominates(b) { // back edge b -> s
					body := loops[s]
					if body == nil {
						body = map[*ssa.BasicBlock]bool{s: true}
						loops[s] = body
					}
					work := []*ssa.BasicBlock{b}
					for len(work) > 0 {
						x := work[len(work)-1]
						work = work[:len(work)-1]
						if body[x] {
							continue
						}
						body[x] = true
						work = append(work, x.Preds...)
					}
				}
			}
		}
		if len(loops) == 0 {
			continue
		}
		for _, b := range fn.Blocks {
			for _, in := range b.Instrs {
				c, ok := in.(*ssa.Call)
				if !ok || c.Call.StaticCallee() != appendLine {
					continue
				}
				var enclosing []*ssa.BasicBlock
				for h, body := range loops {
					if body[b] {
						enclosing = append(enclosing, h)
					}
				}
				if len(enclosing) == 0 {
					continue
				}
				n++
				ord[fn]++
				var carried []string
				for _, g := range guardsOfDepth(b, 0) {
					var walk func(v ssa.Value, d int, seen map[ssa.Value]bool)
					walk = func(v ssa.Value, d int, seen map[ssa.Value]bool) {
						if v == nil || seen[v] || d > 8 {
							return
						}
						seen[v] = true
						switch w := v.(type) {
						case *ssa.Phi:
							if isBool(w.Type()) {
								for _, h := range enclosing {
									if w.Block() != h {
										continue
									}
									for i, e := range w.Edges {
										if loops[h][h.Preds[i]] { // fed from inside the loop
											_ = e
											carried = append(carried, fmt.Sprintf("%s (merged at the loop head %s)", w.Comment, p.Pos(firstPos(fn, w.Pos()))))
										}
									}
								}
							}
							for _, e := range w.Edges {
								walk(e, d+1, seen)
							}
						case *ssa.UnOp:
							walk(w.X, d+1, seen)
						case *ssa.BinOp:
							walk(w.X, d+1, seen)
							walk(w.Y, d+1, seen)
						}
					}
					walk(g.Cond, 0, map[ssa.Value]bool{})
				}
				sort.Strings(carried)
				r.Check("R-iter", fmt.Sprintf("%s: whether the field written by in-loop appendHeaderLine call #%d goes out depends on that field alone", funcName(fn), ord[fn]), len(carried) == 0, p.Pos(c.Pos()),
					"the guard of this appendHeaderLine call flows from a boolean carried across iterations of the loop over the stored fields: "+strings.Join(carried, ", ")+" - once it is raised for one field, the fields after it are left out of the serialised header although Peek/PeekAll still return them")
			}
		}
	}
	r.Floor("R-iter", "per-field appendHeaderLine calls inside loops of header serialisers", n, 4)
}

// runSpecialSingleValued (C29.R-single): a special name whose value can also
// live in the generic field list (Connection: anything but 'close' is stored
// there) stays single-valued only if every way of setting it replaces what the
// list holds. In each setSpecialHeader, for a name whose case contains a call
// of setNonSpecial, every path from the case's entry to its return passes that
// call or a removal of the name from the list - otherwise an earlier value
// stays behind and the name is written (and listed by PeekKeys) twice.
func runSpecialSingleValued(p *Prog, r *Report) {
	cic := p.Func("caseInsensitiveCompare")
	n := 0
	for _, spec := range []string{"(*RequestHeader).setSpecialHeader", "(*ResponseHeader).setSpecialHeader"} {
		fn := p.Func(spec)
		if fn == nil || cic == nil {
			r.Undecided("R-single", spec, "not found")
			continue
		}
		isGeneric := func(i ssa.Instruction) bool {
			c, ok := i.(ssa.CallInstruction)
			if !ok || c.Common().StaticCallee() == nil {
				return false
			}
			nm := c.Common().StaticCallee().Name()
			return nm == "setNonSpecial" || strings.HasPrefix(nm, "delAllArgs")
		}
		seenHead := map[*ssa.BasicBlock]bool{}
		for _, b := range fn.Blocks {
			for _, in := range b.Instrs {
				c, ok := in.(ssa.CallInstruction)
				if !ok || c.Common().StaticCallee() == nil || c.Common().StaticCallee().Name() != "setNonSpecial" {
					continue
				}
				// the case this call belongs to: the innermost dominating test caseInsensitiveCompare(<name>, key)
				var head *ssa.BasicBlock
				name := ""
				for d := b; d != nil && head == nil; d = d.Idom() {
					id := d.Idom()
					if id == nil {
						break
					}
					iff, ok := id.Instrs[len(id.Instrs)-1].(*ssa.If)
					if !ok || id.Succs[0] != d {
						continue
					}
					if cv, ok := iff.Cond.(*ssa.Call); ok && cv.Call.StaticCallee() == cic {
						for _, a := range cv.Call.Args {
							if g := globalOf(a); g != "" {
								head, name = d, g
							}
						}
					}
				}
				if head == nil || seenHead[head] {
					continue
				}
				seenHead[head] = true
				n++
				hit, path := reachAvoiding(fn, head.Instrs[0], isReturn, isGeneric, nil)
				if isGeneric(head.Instrs[0]) {
					hit = nil
				}
				r.Check("R-single", fmt.Sprintf("%s: every way of setting %s replaces what the generic field list holds under that name", funcName(fn), name), hit == nil, p.Pos(c.Pos()),
					"a path of this case returns without storing into or deleting from the generic list, while another path of the same case stores there: a value set earlier stays in the list, so the name is serialised and listed twice although Peek reports one value", blocksString(p, path)...)
			}
		}
	}
	r.Floor("R-single", "special names that also live in the generic list", n, 2)
}

// runPresenceByKey (C28.R-has): Has reports whether a key is present. An entry with an empty or absent value can
// hold a nil value slice (a never-used capacity slot of the backing array), so presence must be decided by the
// key comparison itself: in every boolean routine that Args.Has / HasBytes reach with the entry list, no returned
// value depends on comparing a byte slice with nil.
func runPresenceByKey(p *Prog, r *Report) {
	roots := []*ssa.Function{p.Func("(*Args).Has"), p.Func("(*Args).HasBytes")}
	n := 0
	seen := map[*ssa.Function]bool{}
	var visit func(fn *ssa.Function, depth int)
	visit = func(fn *ssa.Function, depth int) {
		if fn == nil || fn.Blocks == nil || seen[fn] || depth < 0 {
			return
		}
		seen[fn] = true
		if isBool1(fn) {
			n++
			var nilCmp []string
			for _, b := range fn.Blocks {
				rt, ok := b.Instrs[len(b.Instrs)-1].(*ssa.Return)
				if !ok {
					continue
				}
				cmps := map[*ssa.BinOp]bool{}
				flagComparisons(rt.Results[0], cmps, map[ssa.Value]bool{}, 8)
				for cmp := range cmps {
					for _, pair := range [][2]ssa.Value{{cmp.X, cmp.Y}, {cmp.Y, cmp.X}} {
						if isNilConst(pair[1]) {
							if _, isSlice := pair[0].Type().Underlying().(*types.Slice); isSlice {
								nilCmp = append(nilCmp, p.Pos(cmp.Pos()))
							}
						}
					}
				}
			}
			sort.Strings(nilCmp)
			r.Check("R-has", funcName(fn)+": presence of a key is not decided by a value slice being nil", len(nilCmp) == 0, p.Pos(fn.Pos()),
				"the result depends on a byte slice compared with nil at "+strings.Join(nilCmp, ", ")+": an entry whose empty value sits in a never-used capacity slot has a nil value, so Has reports a present key as absent while Len, All and the query string still show it")
		}
		allCalls(fn, func(b *ssa.BasicBlock, c ssa.CallInstruction) {
			if f := c.Common().StaticCallee(); f != nil && inModule(f) {
				visit(f, depth-1)
			}
		})
	}
	for _, f := range roots {
		visit(f, 3)
	}
	r.Floor("R-has", "boolean presence routines reached from Args.Has", n, 2)
}

// runDelCoversGenericList (C29.R-del): a request header read from the wire keeps some specially handled names in
// the generic field list - Cookie lines stay there until something collects them, and with special headers
// disabled every name does. Deleting a name must therefore always look at the generic list too: every path through
// RequestHeader.del passes the removal from the list (delAllArgs on h.h), whatever special case it took before.
func runDelCoversGenericList(p *Prog, r *Report) {
	fn := p.Func("(*RequestHeader).del")
	if fn == nil {
		r.Undecided("R-del", "(*RequestHeader).del", "not found")
		return
	}
	removes := func(i ssa.Instruction) bool {
		c, ok := i.(ssa.CallInstruction)
		if !ok || c.Common().StaticCallee() == nil {
			return false
		}
		nm := c.Common().StaticCallee().Name()
		return strings.HasPrefix(nm, "delAllArgs") || nm == "collectCookies"
	}
	// the removal must take the key that was asked for (not a constant of one branch only)
	hit, path := reachAvoiding(fn, nil, isReturn, func(i ssa.Instruction) bool {
		if !removes(i) {
			return false
		}
		c := i.(ssa.CallInstruction)
		if c.Common().StaticCallee().Name() == "collectCookies" {
			return true
		}
		return len(c.Common().Args) >= 2 && derivesFromValue(c.Common().Args[1], fn.Params[1])
	}, nil)
	r.Check("R-del", "RequestHeader.del removes the name from the generic field list on every path", hit == nil, p.Pos(fn.Pos()),
		"a return is reachable without delAllArgs(h.h, key): on a header read from the wire the Cookie lines (and, with special headers disabled, every special name) still sit in the generic list, so Del leaves them visible to Peek, PeekAll, the cookie getters and the serialised header", blocksString(p, path)...)
}

// runEmptyTokenFilter (C28.R-empty): parsing drops exactly the entries whose key and value are both empty. In
// Args.ParseBytes the slot of a scanned entry is kept (a next slot is allocated) under a condition that is made of
// nothing but the lengths of the slot's key and of its value, compared with zero, and it involves both: a condition
// that looks at anything else (the has-'=' flag) keeps or drops a different set of entries.
func runEmptyTokenFilter(p *Prog, r *Report) {
	fn := p.Func("(*Args).ParseBytes")
	next := p.Func("(*argsScanner).next")
	alloc := p.Func("allocArg")
	if fn == nil || next == nil || alloc == nil {
		r.Undecided("R-empty", "(*Args).ParseBytes / (*argsScanner).next / allocArg", "not found")
		return
	}
	var scan *ssa.Call
	allCalls(fn, func(b *ssa.BasicBlock, c ssa.CallInstruction) {
		if cv, ok := c.(*ssa.Call); ok && cv.Call.StaticCallee() == next {
			scan = cv
		}
	})
	if scan == nil {
		r.Undecided("R-empty", "ParseBytes: the scanner call", "not found")
		return
	}
	header := loopHeaderOf(scan.Block())
	n := 0
	for _, b := range fn.Blocks {
		for _, in := range b.Instrs {
			c, ok := in.(*ssa.Call)
			if !ok || c.Call.StaticCallee() != alloc || header == nil || !inLoop(header, b) || b == scan.Block() {
				continue
			}
			n++
			// the conditions between the scanner's verdict and this allocation
			lens := map[string]bool{}
			var other []string
			var leaf func(v ssa.Value, d int)
			leaf = func(v ssa.Value, d int) {
				if d > 8 {
					other = append(other, "deep")
					return
				}
				switch x := v.(type) {
				case *ssa.Phi:
					for _, e := range x.Edges {
						if cst, ok := e.(*ssa.Const); ok && cst.Value != nil && (cst.Value.ExactString() == "true" || cst.Value.ExactString() == "false") {
							continue
						}
						leaf(e, d+1)
					}
				case *ssa.UnOp:
					if x.Op == token.NOT {
						leaf(x.X, d+1)
						return
					}
					other = append(other, x.String())
				case *ssa.BinOp:
					var o ssa.Value
					if k, ok := constInt(x.Y); ok && k == 0 {
						o = x.X
					} else if k, ok := constInt(x.X); ok && k == 0 {
						o = x.Y
					}
					// a length, or a sum of lengths (non-negative terms: the sum is zero exactly when all are)
					var terms func(v ssa.Value, d int) bool
					terms = func(v ssa.Value, d int) bool {
						if d > 4 || v == nil {
							return false
						}
						if cl, ok := v.(*ssa.Call); ok {
							if bi, ok := cl.Call.Value.(*ssa.Builtin); ok && bi.Name() == "len" && len(cl.Call.Args) == 1 {
								if _, fv := loadedField(cl.Call.Args[0]); fv != nil {
									lens[fv.Name()] = true
									return true
								}
							}
							return false
						}
						if ad, ok := v.(*ssa.BinOp); ok && ad.Op == token.ADD {
							return terms(ad.X, d+1) && terms(ad.Y, d+1)
						}
						return false
					}
					if terms(o, 0) {
						return
					}
					other = append(other, x.String())
				default:
					other = append(other, v.String())
				}
			}
			cur := b
			for cur != nil && cur != scan.Block() {
				d := cur.Idom()
				if d == nil {
					break
				}
				if iff, ok := d.Instrs[len(d.Instrs)-1].(*ssa.If); ok && d != scan.Block() && inLoop(header, d) {
					leaf(iff.Cond, 0)
				}
				cur = d
			}
			// '||' of two tests compiles to a chain of Ifs: the ones that can reach this block without passing each other
			for _, pr := range b.Preds {
				if iff, ok := pr.Instrs[len(pr.Instrs)-1].(*ssa.If); ok && pr != scan.Block() && inLoop(header, pr) {
					leaf(iff.Cond, 0)
				}
			}
			sort.Strings(other)
			r.Check("R-empty", "Args.ParseBytes keeps a scanned entry exactly when its key or its value is non-empty (the condition is made of len(key) and len(value) only)", lens["key"] && lens["value"] && len(other) == 0, p.Pos(c.Pos()),
				fmt.Sprintf("lengths tested: key=%v value=%v; other operands of the condition: %s - entries with an empty key and an empty value are then not the ones that are dropped ('=' alone is kept as an entry, or 'k' without '=' is lost)", lens["key"], lens["value"], strings.Join(other, "; ")))
		}
	}
	r.Floor("R-empty", "slot allocations in ParseBytes' scan loop", n, 1)
}

// runCollectRemovesWhatItParsed (C29.R-collect): RequestHeader.collectCookies moves the Cookie lines of a parsed
// request from the generic list into the cookie list. A line it recognised - case-insensitively, the parser keeps the
// wire spelling when normalisation is off - and parsed must leave the generic list, or the cookies are listed,
// serialised and deleted twice from then on. From every call that parses an entry's value into the cookie list,
// every path to the function's return passes the removal of the entry: a store that shrinks the generic list inside
// the loop iteration, or a later call of a deleter that itself compares the stored names case-insensitively. An
// exact-name deleter removes a different set of lines than the loop recognised.
func runCollectRemovesWhatItParsed(p *Prog, r *Report) {
	fn := p.Func("(*RequestHeader).collectCookies")
	parse := p.Func("parseRequestCookies")
	if fn == nil || parse == nil {
		r.Undecided("R-collect", "(*RequestHeader).collectCookies / parseRequestCookies", "not found")
		return
	}
	removes := func(i ssa.Instruction) bool {
		switch x := i.(type) {
		case *ssa.Store:
			if _, fv := fieldOfAddr(x.Addr); fv != nil && fv.Name() == "h" {
				if sl, ok := x.Val.(*ssa.Slice); ok && sl.High != nil {
					return true // h.h = h.h[:n]
				}
				if c, ok := x.Val.(*ssa.Call); ok && c.Call.StaticCallee() != nil && deletesAnyCase(c.Call.StaticCallee(), 2) {
					return true // h.h = <any-case deleter>(h.h, ...)
				}
			}
		case ssa.CallInstruction:
			if f := x.Common().StaticCallee(); f != nil && inModule(f) && recvTypeName(f) == "RequestHeader" && f != fn && deletesAnyCase(f, 2) {
				return true
			}
		}
		return false
	}
	n := 0
	for _, b := range fn.Blocks {
		for _, in := range b.Instrs {
			c, ok := in.(*ssa.Call)
			if !ok || c.Call.StaticCallee() != parse {
				continue
			}
			n++
			hit, path := reachAvoiding(fn, in, func(i ssa.Instruction) bool {
				if isReturn(i) {
					return true
				}
				// the next entry's turn: the same parse call again
				return i == in
			}, removes, nil)
			r.Check("R-collect", "collectCookies removes from the generic list every line it parsed into the cookie list", hit == nil, p.Pos(in.Pos()),
				"from the call that parses a recognised Cookie line the next iteration or the return is reachable without a removal of that entry (a shrinking store to the list, or a deleter that compares stored names case-insensitively): with normalisation off a line spelled 'cookie:' is parsed into the cookie list and stays in the generic list - listed twice, written twice, and untouched by DelCookie / Del(\"Cookie\")", blocksString(p, path)...)
		}
	}
	r.Floor("R-collect", "calls that parse a generic-list entry into the cookie list in collectCookies", n, 1)
}
