package main

// Path-insensitive primitives over the SSA control-flow graph at instruction
// granularity (E2 of DESIGN.md): reach-avoiding searches, from which
// must-pass-through, dominance-by-event and never-after rules are built.

import (
	"fmt"
	"go/token"
	"go/types"
	"sort"
	"strings"

	"golang.org/x/tools/go/ssa"
)

type instrPred func(in ssa.Instruction) bool

// reachAvoiding searches forward from the instruction after `start` (or from
// the function entry when start == nil) for an instruction satisfying target,
// along paths on which no instruction satisfies avoid. It returns the target
// reached and the block path, or nil. stopAt (optional) blocks are not entered
// (used to restrict a search to one loop iteration).
func reachAvoiding(fn *ssa.Function, start ssa.Instruction, target, avoid instrPred, stopAt map[*ssa.BasicBlock]bool) (ssa.Instruction, []*ssa.BasicBlock) {
	if len(fn.Blocks) == 0 {
		return nil, nil
	}
	type item struct {
		b    *ssa.BasicBlock
		from int
	}
	parent := map[*ssa.BasicBlock]*ssa.BasicBlock{}
	seen := map[*ssa.BasicBlock]bool{}
	var queue []item
	if start == nil {
		queue = append(queue, item{fn.Blocks[0], 0})
		seen[fn.Blocks[0]] = true
	} else {
		queue = append(queue, item{start.Block(), instrIndex(start) + 1})
	}
	pathTo := func(b *ssa.BasicBlock) []*ssa.BasicBlock {
		var rev []*ssa.BasicBlock
		for c := b; c != nil; c = parent[c] {
			rev = append(rev, c)
			if len(rev) > 400 {
				break
			}
		}
		out := make([]*ssa.BasicBlock, 0, len(rev))
		for i := len(rev) - 1; i >= 0; i-- {
			out = append(out, rev[i])
		}
		return out
	}
	first := true
	for len(queue) > 0 {
		it := queue[0]
		queue = queue[1:]
		blocked := false
		for i := it.from; i < len(it.b.Instrs); i++ {
			in := it.b.Instrs[i]
			if target(in) {
				return in, pathTo(it.b)
			}
			if avoid != nil && avoid(in) {
				blocked = true
				break
			}
		}
		if blocked {
			first = false
			continue
		}
		for _, s := range it.b.Succs {
			if stopAt[s] {
				continue
			}
			// the start block may be re-entered from its top through a loop
			if seen[s] && !(first && s == it.b) {
				continue
			}
			if !seen[s] {
				seen[s] = true
				if s != it.b {
					parent[s] = it.b
				}
				queue = append(queue, item{s, 0})
			}
		}
		first = false
	}
	return nil, nil
}

func isReturn(in ssa.Instruction) bool { _, ok := in.(*ssa.Return); return ok }

func isExit(in ssa.Instruction) bool {
	switch in.(type) {
	case *ssa.Return, *ssa.Panic:
		return true
	}
	return false
}

func blocksString(p *Prog, bs []*ssa.BasicBlock) []string {
	var out []string
	for _, b := range bs {
		pos := token.NoPos
		for _, in := range b.Instrs {
			if in.Pos().IsValid() {
				pos = in.Pos()
				break
			}
		}
		out = append(out, fmt.Sprintf("block %d (%s) %s", b.Index, b.Comment, p.Pos(pos)))
	}
	if len(out) > 40 {
		out = append(out[:15], append([]string{"..."}, out[len(out)-20:]...)...)
	}
	return out
}

// callTo returns a predicate matching static calls (call, go or defer) of fn.
func callTo(fns ...*ssa.Function) instrPred {
	return func(in ssa.Instruction) bool {
		c, ok := in.(ssa.CallInstruction)
		if !ok {
			return false
		}
		f := c.Common().StaticCallee()
		if f == nil {
			return false
		}
		for _, t := range fns {
			if t != nil && f == t {
				return true
			}
		}
		return false
	}
}

func orPred(ps ...instrPred) instrPred {
	return func(in ssa.Instruction) bool {
		for _, p := range ps {
			if p != nil && p(in) {
				return true
			}
		}
		return false
	}
}

// alwaysPasses: every path from fn's entry to a return passes an instruction
// satisfying ev, where a static call of a module function that itself always
// passes ev counts (depth-bounded, memoised per predicate key).
type passSummary struct {
	p    *Prog
	ev   instrPred
	memo map[*ssa.Function]int8
}

func newPassSummary(p *Prog, ev instrPred) *passSummary {
	return &passSummary{p: p, ev: ev, memo: map[*ssa.Function]int8{}}
}

func (s *passSummary) event(in ssa.Instruction) bool {
	if s.ev(in) {
		return true
	}
	if c, ok := in.(*ssa.Call); ok {
		if f := c.Call.StaticCallee(); f != nil && inModule(f) && f.Blocks != nil {
			return s.always(f, 0)
		}
	}
	return false
}

func (s *passSummary) always(fn *ssa.Function, depth int) bool {
	switch s.memo[fn] {
	case 1:
		return true
	case 2, 3:
		return false
	}
	if depth > 4 || fn.Blocks == nil {
		return false
	}
	s.memo[fn] = 3
	hit, _ := reachAvoiding(fn, nil, isReturn, func(in ssa.Instruction) bool {
		if s.ev(in) {
			return true
		}
		if c, ok := in.(*ssa.Call); ok {
			if f := c.Call.StaticCallee(); f != nil && inModule(f) && f.Blocks != nil {
				return s.always(f, depth+1)
			}
		}
		return false
	}, nil)
	if hit == nil {
		s.memo[fn] = 1
		return true
	}
	s.memo[fn] = 2
	return false
}

// mayCall: fn may (transitively through static calls and closures created in
// it) execute an instruction satisfying ev.
func (p *Prog) mayReach(fn *ssa.Function, ev instrPred, maxDepth int) bool {
	for f := range p.reachableFuncs([]*ssa.Function{fn}, maxDepth) {
		for _, b := range f.Blocks {
			for _, in := range b.Instrs {
				if ev(in) {
					return true
				}
			}
		}
	}
	return false
}

// branchUses reports whether boolean value v (possibly negated, combined
// through phis of && / ||) reaches the condition of an If.
func reachesBranch(v ssa.Value) bool {
	seen := map[ssa.Value]bool{}
	var walk func(v ssa.Value) bool
	walk = func(v ssa.Value) bool {
		if seen[v] {
			return false
		}
		seen[v] = true
		refs := v.Referrers()
		if refs == nil {
			return false
		}
		for _, r := range *refs {
			switch r := r.(type) {
			case *ssa.If:
				return true
			case *ssa.UnOp:
				if r.Op == token.NOT && walk(r) {
					return true
				}
			case *ssa.Phi:
				if walk(r) {
					return true
				}
			case *ssa.BinOp:
				if isBool(r.Type()) && walk(r) {
					return true
				}
			}
		}
		return false
	}
	return walk(v)
}

// structFields lists the fields of a named struct type (not descending).
func structFields(t types.Type) []*types.Var {
	if p, ok := t.Underlying().(*types.Pointer); ok {
		t = p.Elem()
	}
	st, ok := t.Underlying().(*types.Struct)
	if !ok {
		return nil
	}
	out := make([]*types.Var, st.NumFields())
	for i := range out {
		out[i] = st.Field(i)
	}
	return out
}

func sortedKeys[V any](m map[string]V) []string {
	ks := make([]string, 0, len(m))
	for k := range m {
		ks = append(ks, k)
	}
	sort.Strings(ks)
	return ks
}

func joinSorted(m map[string]bool) string { return strings.Join(sortedKeys(m), ", ") }

// funcName is a compact stable name: "(*T).M", "T.M", "pkg.F", closures as "outer$1".
func funcName(f *ssa.Function) string {
	if f == nil {
		return "?"
	}
	s := f.String()
	s = strings.ReplaceAll(s, rootPkg+"/", "")
	s = strings.ReplaceAll(s, rootPkg+".", "")
	return s
}
