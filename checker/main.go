// vcheck decides structural necessary conditions of the fasthttp properties in
// /verif/properties.jsonl from the source of /repo, without running it.
//
//	vcheck -prop C12 -tier quick|thorough [-repo /repo] [-verif /verif]
//
// Exit 0: every obligation discharged (known findings printed as KNOWN-FINDING).
// Exit 1: "VIOLATION property=<id> replay=<path>".
// Exit 3: undecided (lost anchor, type errors, panic) - a broken check, not a pass.
package main

import (
	"encoding/json"
	"flag"
	"fmt"
	"os"
	"runtime/debug"
	"sort"
	"strconv"
	"strings"
)

type propDef struct {
	id      string
	explain string // what the structural clauses decide, and what they do not
	assume  []string
	run     func(p *Prog, r *Report)
	// archs for the thorough tier besides amd64
	thoroughArchs []string
}

var registry = map[string]*propDef{}

func register(d *propDef) { registry[d.id] = d }

func main() {
	prop := flag.String("prop", "", "property id (C01..)")
	tier := flag.String("tier", "quick", "quick|thorough")
	repo := flag.String("repo", "/repo", "repository to analyse")
	verif := flag.String("verif", "/verif", "verif directory (evidence, known findings)")
	list := flag.Bool("list", false, "list implemented properties")
	listJSON := flag.Bool("list-json", false, "print {property: what its rules decide} as JSON")
	disc := flag.Bool("discover-locks", false, "development aid: print field/lock co-occurrence statistics")
	dbg := flag.String("debug-explore", "", "development aid: run the bare explorer on a function spec")
	selftest := flag.String("selftest", "", "thorough tier: log of tools/selftest.sh for this property; its verdicts become part of the evidence")
	flag.Parse()
	if *disc {
		discoverLocks(*repo)
		return
	}
	if *dbg != "" {
		debugExplore(*repo, *dbg)
		return
	}
	if *listJSON {
		m := map[string]string{}
		for id, d := range registry {
			m[id] = d.explain
		}
		b, _ := json.MarshalIndent(m, "", " ")
		fmt.Println(string(b))
		return
	}
	if *list {
		var ids []string
		for id := range registry {
			ids = append(ids, id)
		}
		sort.Strings(ids)
		fmt.Println(strings.Join(ids, " "))
		return
	}
	if t := os.Getenv("VERIF_TIER"); t != "" && !isFlagSet("tier") {
		*tier = t
	}
	seed := 0
	if s := os.Getenv("VERIF_SEED"); s != "" {
		seed, _ = strconv.Atoi(s)
	}
	d := registry[*prop]
	if d == nil {
		fmt.Fprintf(os.Stderr, "unknown property %q\n", *prop)
		os.Exit(3)
	}
	r := newReport(d.id, *tier, seed)
	r.Explan = d.explain
	r.Assume = append(r.Assume, d.assume...)
	r.Assume = append(r.Assume, "static analysis of /repo's working tree only: nothing is executed; a pass is a necessary condition of the property, not the property")
	if *selftest != "" {
		mergeSelftest(r, *selftest)
	}
	code := runProp(d, r, *repo, *tier, *verif)
	os.Exit(code)
}

func isFlagSet(name string) bool {
	set := false
	flag.Visit(func(f *flag.Flag) {
		if f.Name == name {
			set = true
		}
	})
	return set
}

func runProp(d *propDef, r *Report, repo, tier, verif string) (code int) {
	defer func() {
		if e := recover(); e != nil {
			fmt.Printf("BROKEN-CHECK property=%s: analyser panic: %v\n%s\n", d.id, e, debug.Stack())
			r.Undecided("panic", "analyser", fmt.Sprint(e))
			r.Finish(verif)
			code = 3
		}
	}()
	archs := []string{"amd64"}
	if tier == "thorough" {
		archs = append(archs, "386")
		archs = append(archs, d.thoroughArchs...)
	}
	for _, a := range archs {
		p, err := loadProg(repo, a)
		if err != nil {
			r.Undecided("load", "GOARCH="+a, err.Error())
			continue
		}
		r.arch = a
		r.Counts["packages["+a+"]"] = len(p.Pkgs)
		r.Counts["source functions["+a+"]"] = len(p.SrcFuncs())
		d.run(p, r)
	}
	return r.Finish(verif)
}

// mergeSelftest reads the log of tools/selftest.sh <prop> (seeded changes and
// mutants applied one at a time to scratch copies of the repository, each
// analysed by this same checker) and records how the check did: a breaking
// change it does not report, or a behaviour-preserving variant it reports, make
// the check undecided (exit 3) - the checker is then not to be believed.
func mergeSelftest(r *Report, path string) {
	b, err := os.ReadFile(path)
	if err != nil {
		r.Undecided("selftest", "log", err.Error())
		return
	}
	caught, missed, silent, alarm, skipped := 0, 0, 0, 0, 0
	var bad []string
	for _, l := range strings.Split(string(b), "\n") {
		f := strings.Fields(l)
		if len(f) < 2 || (f[0] != "SEEDED" && f[0] != "MUTANT" && f[0] != "VARIANT") {
			continue
		}
		if strings.Contains(l, "PATCH-DOES-NOT-APPLY") || strings.Contains(l, "DOES-NOT-COMPILE") {
			skipped++
			continue
		}
		rc := ""
		for _, w := range f {
			if strings.HasPrefix(w, "exit=") {
				rc = strings.TrimPrefix(w, "exit=")
			}
		}
		switch {
		case f[0] == "VARIANT" && rc == "0":
			silent++
		case f[0] == "VARIANT":
			alarm++
			bad = append(bad, "alarm on variant "+f[1])
		case rc == "1":
			caught++
		default:
			missed++
			bad = append(bad, "not reported: "+f[0]+" "+f[1]+" (exit "+rc+")")
		}
	}
	r.Counts["selftest breaking changes reported"] = caught
	r.Counts["selftest breaking changes missed"] = missed
	r.Counts["selftest variants silent"] = silent
	r.Counts["selftest variants alarmed"] = alarm
	r.Counts["selftest patches skipped (no longer apply)"] = skipped
	r.Note("self-test: %d seeded changes / mutants reported, %d missed; %d behaviour-preserving variants silent, %d alarmed; %d skipped", caught, missed, silent, alarm, skipped)
	if len(bad) > 0 {
		r.Undecided("selftest", "checker validation", strings.Join(bad, "; "))
	}
}
