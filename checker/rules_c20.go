package main

// C20 - redirects.

import (
	"fmt"
	"go/token"
	"sort"
	"strings"

	"golang.org/x/tools/go/ssa"
)

func init() {
	register(&propDef{
		id:      "C20",
		explain: "Structural necessary conditions of 'redirects never leak credentials to an untrusted host, are bounded, and rewrite the method as RFC 9110 says': in the redirect loop (the function that re-issues a request through a clientDoer in a loop) every path from one Do to the next passes the credential-strip function, the hop counter increment and the exit when it exceeds the limit; the strip function deletes at least Authorization, Cookie, Cookie2, Proxy-Authorization, Proxy-Authenticate and WWW-Authenticate under the untrusted-host test; the trust anchor handed to it is computed before the loop from the URL string the caller gave and does not derive from storage owned by the reused Request (which every hop rewrites in place); the 303 branch drops the body and its framing headers - through a deleter that matches stored names case-insensitively - and rewrites non-GET/HEAD to GET; the strip function's deleter runs its case-insensitive sweep before every return, whatever the normalisation flag says at that moment; 301/302 on POST rewrites to GET. Not decided: the host-trust predicate over all spellings of hosts; credentials embedded in URL userinfo.",
		run:     runC20,
	})
}

// derivesFromValue: the backward slice of v (through calls' arguments, slices, phis, conversions, field loads) contains root.
func derivesFromValue(v ssa.Value, root ssa.Value) bool {
	seen := map[ssa.Value]bool{}
	var walk func(v ssa.Value, d int) bool
	walk = func(v ssa.Value, d int) bool {
		if v == nil || seen[v] || d > 25 {
			return false
		}
		seen[v] = true
		if v == root {
			return true
		}
		switch w := v.(type) {
		case *ssa.Call:
			for _, a := range w.Call.Args {
				if walk(a, d+1) {
					return true
				}
			}
			if w.Call.IsInvoke() {
				return walk(w.Call.Value, d+1)
			}
		case *ssa.Extract:
			return walk(w.Tuple, d+1)
		case *ssa.Phi:
			for _, e := range w.Edges {
				if walk(e, d+1) {
					return true
				}
			}
		case *ssa.Slice:
			return walk(w.X, d+1)
		case *ssa.Convert:
			return walk(w.X, d+1)
		case *ssa.ChangeType:
			return walk(w.X, d+1)
		case *ssa.UnOp:
			return walk(w.X, d+1)
		case *ssa.FieldAddr:
			return walk(w.X, d+1)
		case *ssa.Field:
			return walk(w.X, d+1)
		case *ssa.IndexAddr:
			return walk(w.X, d+1)
		case *ssa.BinOp:
			return walk(w.X, d+1) || walk(w.Y, d+1)
		case *ssa.MakeInterface:
			return walk(w.X, d+1)
		case *ssa.TypeAssert:
			return walk(w.X, d+1)
		case *ssa.ChangeInterface:
			return walk(w.X, d+1)
		}
		return false
	}
	return walk(v, 0)
}

func runC20(p *Prog, r *Report) {
	strip := p.Func("stripSensitiveHeadersOnRedirect")
	if strip == nil {
		r.Undecided("R1", "anchor stripSensitiveHeadersOnRedirect", "not found")
		return
	}
	// the redirect loop: function containing an interface invoke of Do inside a loop and a call of strip
	var fn *ssa.Function
	var doCall ssa.CallInstruction
	for _, f := range p.funcsIn("") {
		var d ssa.CallInstruction
		hasStrip := false
		allCalls(f, func(b *ssa.BasicBlock, c ssa.CallInstruction) {
			if isInvoke(c, "Do") && loopHeaderOf(b) != nil {
				d = c
			}
			if isCallTo(c, strip) {
				hasStrip = true
			}
		})
		if d != nil && hasStrip {
			fn, doCall = f, d
		}
	}
	if fn == nil {
		r.Undecided("R1", "redirect loop", "no function re-issues a request through an interface Do inside a loop and strips credentials")
		return
	}
	name := funcName(fn)
	header := loopHeaderOf(doCall.Block())
	isDo := func(in ssa.Instruction) bool { return in == doCall.(ssa.Instruction) }
	// R1: every path Do -> Do passes strip
	hit, path := reachAvoiding(fn, doCall.(ssa.Instruction), isDo, callTo(strip), nil)
	r.Check("R1", name+": the credential strip is passed on every path from one hop to the next", hit == nil, p.Pos(doCall.Pos()),
		"the next Do is reachable without stripSensitiveHeadersOnRedirect: credentials set for the first host would be sent to whatever host the redirect names", blocksString(p, path)...)
	// R3: hop counter: a loop-carried integer incremented by one and compared with the limit parameter, with an exit
	{
		var limit *ssa.Parameter
		for _, prm := range fn.Params {
			if isIntType(prm.Type()) {
				limit = prm
			}
		}
		var cmp ssa.Instruction
		if limit != nil {
			for _, b := range fn.Blocks {
				for _, in := range b.Instrs {
					if bo, ok := in.(*ssa.BinOp); ok && (bo.X == ssa.Value(limit) || bo.Y == ssa.Value(limit)) && inLoop(header, b) {
						o := bo.X
						if o == ssa.Value(limit) {
							o = bo.Y
						}
						if inc, ok := o.(*ssa.BinOp); ok {
							if k, okc := constInt(inc.Y); okc && k == 1 {
								cmp = in
							}
						}
					}
				}
			}
		}
		ok := false
		var pth []*ssa.BasicBlock
		if cmp != nil {
			h2, p2 := reachAvoiding(fn, doCall.(ssa.Instruction), isDo, func(in ssa.Instruction) bool { return in == cmp }, nil)
			ok = h2 == nil
			pth = p2
		}
		r.Check("R3", name+": every path from one hop to the next passes the comparison of the incremented hop counter with the limit", ok, p.Pos(doCall.Pos()),
			"no 'counter+1 compared with the limit parameter' lies on every path between two hops: a redirect loop could go on forever", blocksString(p, pth)...)
	}
	// R5: the trust anchor
	allCalls(fn, func(b *ssa.BasicBlock, c ssa.CallInstruction) {
		if !isCallTo(c, strip) {
			return
		}
		anchor := c.Common().Args[1]
		in, isInstr := anchor.(ssa.Instruction)
		outside := !isInstr || !inLoop(header, in.Block())
		var urlParam, reqParam *ssa.Parameter
		for _, prm := range fn.Params {
			switch {
			case strings.HasSuffix(prm.Type().String(), "string"):
				urlParam = prm
			case strings.HasSuffix(prm.Type().String(), ".Request"):
				reqParam = prm
			}
		}
		fromURL := urlParam != nil && derivesFromValue(anchor, urlParam)
		fromReq := reqParam != nil && derivesFromValue(anchor, reqParam)
		r.Check("R5", name+": the trust anchor given to the strip function is fixed before the loop", outside, p.Pos(c.Pos()),
			"the host the redirect targets are compared with is (re)computed inside the redirect loop: it no longer is the host of the initial request on later hops")
		r.Check("R5", name+": the trust anchor derives from the caller's URL string and not from storage of the reused Request", fromURL && !fromReq, p.Pos(c.Pos()),
			fmt.Sprintf("derives from the url parameter: %v; derives from the Request parameter: %v (the Request's URI buffers are rewritten in place on every hop, so a slice into them changes under the comparison)", fromURL, fromReq))
	})
	// R2: what the strip function deletes, and under which test
	{
		should := p.Func("shouldStripSensitiveHeadersOnRedirect")
		names := map[string]bool{}
		guarded := true
		foldsNames := true
		nDel := 0
		sweepChecked := map[*ssa.Function]bool{}
		allCalls(strip, func(b *ssa.BasicBlock, c ssa.CallInstruction) {
			f := c.Common().StaticCallee()
			if f == nil || len(c.Common().Args) < 2 {
				return
			}
			// a deletion: RequestHeader.Del, or a helper that hands its name parameter to it
			if !(f.Name() == "Del" && recvTypeName(f) == "RequestHeader") && !passesParamToDel(f, 1) {
				return
			}
			if s, ok := stringConst(c.Common().Args[1]); ok {
				names[strings.ToLower(s)] = true
			}
			nDel++
			if !deletesAnyCase(f, 2) {
				foldsNames = false
			}
			if !(f.Name() == "Del" && recvTypeName(f) == "RequestHeader") && !sweepChecked[f] {
				sweepChecked[f] = true
				sweepOnEveryPath(p, r, f)
			}
			// the deletions must not be reachable when the trust test said "trusted": they sit after the early return
			okg := false
			for _, g := range guardsOf(b) {
				if cv, isCall := g.Cond.(*ssa.Call); isCall && isCallTo(cv, should) {
					okg = true
				}
			}
			// or: entry block returns early under !should
			if !okg {
				if e := strip.Blocks[0]; len(e.Succs) == 2 {
					if ifi, ok := e.Instrs[len(e.Instrs)-1].(*ssa.If); ok {
						_, cv := stripNot(ifi.Cond)
						if cc, isCall := cv.(*ssa.Call); isCall && isCallTo(cc, should) {
							okg = true
						}
					}
				}
			}
			if !okg {
				guarded = false
			}
		})
		want := []string{"authorization", "cookie", "cookie2", "proxy-authorization", "proxy-authenticate", "www-authenticate"}
		var missing []string
		for _, w := range want {
			if !names[w] {
				missing = append(missing, w)
			}
		}
		r.Check("R2", "the strip function deletes the six credential-bearing header names", len(missing) == 0, p.Pos(strip.Pos()), "missing: "+strings.Join(missing, ", ")+"; deletes: "+joinSorted(names))
		r.Check("R2", "the strip function removes the names whatever their stored case", foldsNames && nDel > 0, p.Pos(strip.Pos()),
			"a deletion goes through RequestHeader.Del alone, which matches stored names byte for byte when the caller disabled name normalisation: 'authorization: ...' set in lower case is sent on to the foreign host")
		if dom := p.Func("isDomainOrSubdomainBytes"); dom == nil {
			r.Undecided("R2", "isDomainOrSubdomainBytes", "anchor not found")
		} else {
			var uni []string
			allCalls(dom, func(b *ssa.BasicBlock, c ssa.CallInstruction) {
				f := c.Common().StaticCallee()
				if f == nil || f.Pkg == nil {
					return
				}
				switch f.Pkg.Pkg.Path() {
				case "bytes", "strings", "unicode":
					if strings.Contains(f.Name(), "Fold") || strings.HasPrefix(f.Name(), "ToLower") || strings.HasPrefix(f.Name(), "ToUpper") || strings.HasPrefix(f.Name(), "ToTitle") {
						uni = append(uni, f.Pkg.Pkg.Path()+"."+f.Name()+" at "+p.Pos(c.Pos()))
					}
				}
			})
			// the comparators it does use fold letters only: no "x|0x20" folding, which equates every pair of bytes that
			// differ in bit 5 (0xb7 and 0x97, '[' and '{', '@' and '`')
			allCalls(dom, func(b *ssa.BasicBlock, c ssa.CallInstruction) {
				f := c.Common().StaticCallee()
				if f == nil || !inModule(f) || f.Blocks == nil {
					return
				}
				for _, fb := range f.Blocks {
					for _, in := range fb.Instrs {
						if bo, ok := in.(*ssa.BinOp); ok && bo.Op == token.OR {
							if k, isK := constInt(bo.Y); isK && k == 0x20 {
								uni = append(uni, funcName(f)+" (folds bit 5 of every byte) at "+p.Pos(c.Pos()))
							}
						}
					}
				}
			})
			sort.Strings(uni)
			r.Check("R2", "the host comparison of the trust predicate folds case over ASCII only", len(uni) == 0, p.Pos(dom.Pos()),
				"uses "+strings.Join(uni, ", ")+": Unicode simple folding equates U+212A (Kelvin sign) with 'k' and U+017F with 's', and folding bit 5 of every byte equates different non-ASCII bytes, so a redirect to a different host name is taken for the initial host and keeps the credentials")
		}
		r.Check("R2", "the strip function decides through the host-trust predicate", guarded && should != nil, p.Pos(strip.Pos()), "the deletions are not controlled by shouldStripSensitiveHeadersOnRedirect")
		if should != nil {
			// the predicate compares the redirect host with the anchor: both parameters reach isDomainOrSubdomainBytes
			uses := 0
			allCalls(should, func(b *ssa.BasicBlock, c ssa.CallInstruction) {
				if f := c.Common().StaticCallee(); f != nil && strings.Contains(f.Name(), "isDomainOrSubdomain") {
					for _, prm := range should.Params {
						for _, a := range c.Common().Args {
							if derivesFromValue(a, prm) {
								uses++
							}
						}
					}
				}
			})
			r.Check("R2", "the host-trust predicate compares both the redirect host and the anchor", uses >= 2, p.Pos(should.Pos()), fmt.Sprintf("parameters reaching the domain comparison: %d", uses))
		}
	}
	// R4: method/body rewriting
	{
		setMethod := p.Func("(*RequestHeader).SetMethod")
		resetBody := p.Func("(*Request).ResetBody")
		var seeOther []*ssa.BasicBlock
		for _, b := range fn.Blocks {
			for _, g := range guardsOf(b) {
				if bo, ok := g.Cond.(*ssa.BinOp); ok && g.Pol {
					if k, okc := constInt(bo.Y); okc && k == 303 && (len(seeOther) == 0 || seeOther[len(seeOther)-1] != b) {
						seeOther = append(seeOther, b)
					}
				}
			}
		}
		dels := map[string]bool{}
		var exactDels []string
		hasReset, hasGet := false, false
		for _, b := range seeOther {
			for _, in := range b.Instrs {
				c, ok := in.(ssa.CallInstruction)
				if !ok {
					continue
				}
				switch {
				case isCallTo(c, resetBody):
					hasReset = true
				case isCallTo(c, setMethod):
					if s, ok := stringConst(c.Common().Args[1]); ok && s == "GET" {
						hasGet = true
					}
				default:
					if f := c.Common().StaticCallee(); f != nil && f.Name() == "Del" {
						if s, ok := stringConst(c.Common().Args[1]); ok {
							dels[strings.ToLower(s)] = true
							exactDels = append(exactDels, s)
						}
					} else if f != nil && inModule(f) && f.Signature.Recv() == nil && len(c.Common().Args) == 2 && passesParamToDel(f, 1) {
						// a deleter helper: (header, name)
						if s, ok := stringConst(c.Common().Args[1]); ok {
							dels[strings.ToLower(s)] = true
							if !deletesAnyCase(f, 2) {
								exactDels = append(exactDels, s)
							}
						}
					}
				}
			}
		}
		// every part of the teardown runs on every 303: from the head of the 303 branch no path reaches the next
		// transmission (or a return) that goes round it
		{
			var head *ssa.BasicBlock
			for _, b := range seeOther {
				dominatesAll := true
				for _, o := range seeOther {
					if o != b && !b.Dominates(o) {
						dominatesAll = false
					}
				}
				if dominatesAll {
					head = b
				}
			}
			var cond []string
			argsReset := false
			steps := 0
			if head != nil {
				for _, b := range seeOther {
					for _, in := range b.Instrs {
						c, ok := in.(ssa.CallInstruction)
						if !ok {
							continue
						}
						f := c.Common().StaticCallee()
						isTeardown := isCallTo(c, resetBody) || (f != nil && f.Name() == "Del") ||
							(f != nil && inModule(f) && f.Signature.Recv() == nil && len(c.Common().Args) == 2 && passesParamToDel(f, 1))
						if f != nil && f.Name() == "Reset" && recvTypeName(f) == "Args" {
							if fa, isFA := c.Common().Args[0].(*ssa.FieldAddr); isFA && fieldName(fa.X.Type(), fa.Field) == "postArgs" {
								isTeardown = true
								argsReset = true
							}
						}
						if isCallTo(c, resetBody) && resetBody != nil {
							allCalls(resetBody, func(b2 *ssa.BasicBlock, c2 ssa.CallInstruction) {
								if f2 := c2.Common().StaticCallee(); f2 != nil && f2.Name() == "Reset" && recvTypeName(f2) == "Args" {
									if fa, isFA := c2.Common().Args[0].(*ssa.FieldAddr); isFA && fieldName(fa.X.Type(), fa.Field) == "postArgs" {
										argsReset = true
									}
								}
							})
						}
						if !isTeardown {
							continue
						}
						steps++
						step := in
						goal := func(i ssa.Instruction) bool {
							if isReturn(i) {
								return true
							}
							cc, ok := i.(ssa.CallInstruction)
							return ok && cc == ssa.CallInstruction(doCall)
						}
						if hit, path := reachAvoiding(fn, head.Instrs[0], goal, func(i ssa.Instruction) bool { return i == step }, nil); hit != nil {
							cond = append(cond, fmt.Sprintf("%s at %s can be skipped (%s)", calleeName(c), p.Pos(c.Pos()), strings.Join(blocksString(p, path), " > ")))
						}
					}
				}
			}
			sort.Strings(cond)
			r.Check("R4", name+": every step of the 303 teardown (body, post arguments, framing headers) runs on every 303", len(cond) == 0 && argsReset && head != nil && steps >= 4, p.Pos(fn.Pos()),
				fmt.Sprintf("steps found: %d; post arguments reset: %v; conditional steps: %s - Request.Write also builds a body from post arguments and multipart forms when the body buffer is empty, so a guard that looks at the buffer alone lets such a body through to the follow-up GET", steps, argsReset, strings.Join(cond, "; ")))
		}
		r.Check("R4", name+": a 303 drops the body and its framing headers and rewrites the method to GET", hasReset && hasGet && dels["content-length"] && dels["content-type"] && dels["transfer-encoding"],
			p.Pos(fn.Pos()), fmt.Sprintf("303 branch blocks: %d; ResetBody: %v; SetMethod(GET): %v; deleted: %s", len(seeOther), hasReset, hasGet, joinSorted(dels)))
		// the framing headers of the dropped body are removed whatever spelling they are stored under: with special
		// header handling and normalisation both off they sit in the generic list as the caller wrote them, where
		// RequestHeader.Del (exact match) does not find 'content-length'
		sort.Strings(exactDels)
		r.Check("R4", name+": the 303 teardown removes the framing headers with a deleter that matches stored names case-insensitively", len(exactDels) == 0 && len(dels) >= 3, p.Pos(fn.Pos()),
			"removed by exact name only: "+strings.Join(exactDels, ", ")+" - a 'content-length: 3' set by hand under DisableSpecialHeader + DisableNormalizing survives, and the body-less GET that follows the 303 announces a body the peer then waits for")
		// 301/302 on POST -> GET
		okPost := false
		allCalls(fn, func(b *ssa.BasicBlock, c ssa.CallInstruction) {
			if !isCallTo(c, setMethod) {
				return
			}
			at := map[string]bool{}
			for _, g := range guardsOf(b) {
				at[g.Atom] = true
			}
			if hasAtomContaining(at, "IsPost") && (hasAtomContaining(at, "const:301") || hasAtomContaining(at, "const:302")) {
				if s, ok := stringConst(c.Common().Args[1]); ok && s == "GET" {
					okPost = true
				}
			}
		})
		r.Check("R4", name+": 301/302 on a POST rewrites the method to GET", okPost, p.Pos(fn.Pos()), "no SetMethod(GET) under IsPost() and status 301/302")
	}
}

// passesParamToDel: f hands its parameter #idx to RequestHeader.Del.
func passesParamToDel(f *ssa.Function, idx int) bool {
	if f == nil || f.Blocks == nil || !inModule(f) || idx >= len(f.Params) {
		return false
	}
	found := false
	allCalls(f, func(b *ssa.BasicBlock, c ssa.CallInstruction) {
		g := c.Common().StaticCallee()
		if g != nil && g.Name() == "Del" && recvTypeName(g) == "RequestHeader" && len(c.Common().Args) >= 2 && c.Common().Args[1] == ssa.Value(f.Params[idx]) {
			found = true
		}
	})
	return found
}

// deletesAnyCase: f (or a module callee, to the given depth) compares stored
// header names (argsKV.key) through the ASCII case-insensitive comparator.
func deletesAnyCase(f *ssa.Function, depth int) bool {
	if f == nil || f.Blocks == nil || depth < 0 {
		return false
	}
	found := false
	allCalls(f, func(b *ssa.BasicBlock, c ssa.CallInstruction) {
		g := c.Common().StaticCallee()
		if g == nil {
			return
		}
		if g.Name() == "caseInsensitiveCompare" {
			for _, a := range c.Common().Args {
				if _, fv := loadedField(a); fv != nil && fv.Name() == "key" {
					found = true
				}
			}
			return
		}
		if inModule(g) && g != f && depth > 0 && recvTypeName(g) != "RequestHeader" {
			if deletesAnyCase(g, depth-1) {
				found = true
			}
		}
	})
	return found
}

// sweepOnEveryPath (C20.R2b): the case-insensitive sweep of the deleter the strip function uses is not optional.
// With name normalisation disabled a header can be stored under several spellings at once; removing one of them
// (what RequestHeader.Del does) says nothing about the others. Every return of the deleter follows either a test
// that found normalisation enabled, or the sweep loop over the stored names.
func sweepOnEveryPath(p *Prog, r *Report, deleter *ssa.Function) {
	if deleter == nil || deleter.Blocks == nil {
		return
	}
	var header *ssa.BasicBlock
	allCalls(deleter, func(b *ssa.BasicBlock, c ssa.CallInstruction) {
		if f := c.Common().StaticCallee(); f != nil && f.Name() == "caseInsensitiveCompare" {
			header = loopHeaderOf(b)
		}
	})
	if header == nil {
		return // judged by the existence rule
	}
	const (
		bNorm uint64 = 1 << iota
		bSweep
	)
	n, bad := 0, 0
	var wit []string
	pos := deleter.Pos()
	x := NewExplorer(p, deleter, Hooks{
		Edge: func(x *Explorer, st *State, from, to *ssa.BasicBlock) {
			if to == header {
				st.Set(bSweep)
			}
		},
		Branch: func(x *Explorer, st *State, cond ssa.Value, taken bool, from *ssa.BasicBlock) {
			pol, v := stripNot(cond)
			if _, fv := loadedField(v); fv != nil && fv.Name() == "disableNormalizing" {
				if (taken == pol) == false { // the flag was found false: names are canonical
					st.Set(bNorm)
				}
			}
		},
		Exit: func(x *Explorer, st *State, ret *ssa.Return, pan *ssa.Panic) {
			if ret == nil {
				return
			}
			n++
			if !st.Has(bSweep) {
				bad++
				if wit == nil {
					wit = x.Path(st)
					pos = ret.Pos()
				}
			}
		},
	})
	x.Run(nil)
	_ = bNorm
	r.Check("R2", funcName(deleter)+": every return follows the sweep over the stored names", bad == 0 && n > 0 && !x.Aborted, p.Pos(pos),
		fmt.Sprintf("%d of %d explored returns skip the case-insensitive sweep: whether normalisation is enabled NOW says nothing about how a name was stored (SetCanonical, or Set while it was disabled) - 'authorization' stays and is sent to the foreign host", bad, n), wit...)
}
