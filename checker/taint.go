package main

// E5: cleanliness (backward taint) with sanitiser classes. A value is "clean
// for class C" when every way it can be produced passes a neutraliser of class
// C (CRLF: carriage return / line feed; SEMI: ';'), or is a constant, a numeric
// formatter result, or content of a storage field that is itself only ever
// assigned clean values (induction over the sink fields).

import (
	"fmt"
	"go/token"
	"go/types"
	"sort"
	"strings"

	"golang.org/x/tools/go/ssa"
)

type taintClass string

const (
	clsCRLF taintClass = "CRLF"
	clsSEMI taintClass = "SEMI"
)

type taintKey struct {
	v   ssa.Value
	use ssa.Instruction
	cls taintClass
}

type taint struct {
	p *Prog
	// base sanitisers: function -> class it neutralises (in place on param 0, and returned)
	sanitiser map[*ssa.Function]taintClass
	// functions whose result is clean whatever goes in (numeric / constant formatters), with reason
	alwaysClean map[string]string
	// functions that return their (index) argument possibly re-sliced/copied but never adding bytes: result clean iff arg clean
	passThrough map[string]int
	// exported parameters that are documented preconditions rather than sources: "funcName#paramIndex" -> reason
	trustedParam map[string]string
	// fields that are themselves sinks (clean by induction): "Type.field"
	sinkField map[string]bool
	// values of these struct types come from the wire-side scanner, not from a setter
	wireTypes   map[string]bool
	memo        map[taintKey]int8 // 1 clean, 2 dirty, 3 in progress
	why         map[taintKey]string
	inPlaceMemo map[string]int8
	inPhi       map[*ssa.Phi]bool
	// configuration fields set by the application (not per-message setter arguments): "Type.field" -> reason
	trustedField map[string]string
	fieldMemo    map[string]int8
}

func (t *taint) key(v ssa.Value, use ssa.Instruction, cls taintClass) taintKey {
	return taintKey{v, use, cls}
}

// clean reports whether v, as used at instruction use, is clean for cls.
func (t *taint) clean(v ssa.Value, use ssa.Instruction, cls taintClass, depth int) (bool, string) {
	k := t.key(v, use, cls)
	switch t.memo[k] {
	case 1:
		return true, ""
	case 2:
		return false, t.why[k]
	case 3:
		return true, "" // cycle: coinductive assumption
	}
	if depth > 40 {
		return false, "analysis depth exceeded"
	}
	t.memo[k] = 3
	ok, why := t.clean1(v, use, cls, depth)
	if ok {
		t.memo[k] = 1
	} else {
		t.memo[k] = 2
		t.why[k] = why
	}
	return ok, why
}

func (t *taint) fn(in ssa.Instruction) *ssa.Function { return in.Parent() }

func calleeShort(f *ssa.Function) string {
	if f == nil {
		return ""
	}
	if rt := recvTypeName(f); rt != "" {
		return rt + "." + f.Name()
	}
	if f.Pkg != nil && f.Pkg.Pkg.Path() != rootPkg {
		return f.Pkg.Pkg.Name() + "." + f.Name()
	}
	return f.Name()
}

func (t *taint) clean1(v ssa.Value, use ssa.Instruction, cls taintClass, depth int) (bool, string) {
	// sanitised in place before the use?
	if t.sanitisedBefore(v, use, cls) {
		return true, ""
	}
	switch w := v.(type) {
	case *ssa.Const:
		return true, ""
	case *ssa.Global:
		return true, ""
	case *ssa.Slice:
		if w.High != nil {
			if k, ok := constInt(w.High); ok && k == 0 {
				return true, "" // x[:0]
			}
		}
		return t.clean(w.X, use, cls, depth+1)
	case *ssa.Convert:
		return t.clean(w.X, use, cls, depth+1)
	case *ssa.ChangeType:
		return t.clean(w.X, use, cls, depth+1)
	case *ssa.MakeInterface:
		return t.clean(w.X, use, cls, depth+1)
	case *ssa.Phi:
		for _, e := range w.Edges {
			if ok, why := t.clean(e, use, cls, depth+1); !ok {
				return false, why
			}
		}
		return true, ""
	case *ssa.Extract:
		if c, ok := w.Tuple.(*ssa.Call); ok {
			return t.cleanCall(c, w.Index, use, cls, depth)
		}
		return false, "tuple component of unknown origin"
	case *ssa.Call:
		return t.cleanCall(w, 0, use, cls, depth)
	case *ssa.UnOp:
		if w.Op != token.MUL {
			return false, "unary operation"
		}
		switch a := w.X.(type) {
		case *ssa.Global:
			return true, ""
		case *ssa.FieldAddr:
			return t.cleanFieldLoad(w, a, use, cls, depth)
		case *ssa.Alloc:
			// local variable: all stores into it must be clean
			any := false
			for _, ref := range *a.Referrers() {
				if st, ok := ref.(*ssa.Store); ok && st.Addr == ssa.Value(a) {
					any = true
					if ok2, why := t.clean(st.Val, st, cls, depth+1); !ok2 {
						return false, why
					}
				}
			}
			if !any {
				return true, "" // zero value
			}
			return true, ""
		case *ssa.IndexAddr:
			// element of a slice of byte slices (trailer list, ...): clean iff the container is
			return t.clean(a.X, use, cls, depth+1)
		}
		return false, "load through a computed address"
	case *ssa.Parameter:
		return t.cleanParam(w, cls, depth)
	case *ssa.FreeVar:
		return false, "closure variable " + w.Name()
	case *ssa.MakeSlice, *ssa.Alloc:
		return true, "" // fresh zeroed memory
	case *ssa.Lookup:
		return false, "element of a string/map of unknown content"
	}
	return false, fmt.Sprintf("value of kind %T", v)
}

// sanitisedBefore: an in-place sanitiser of class cls was applied to this very
// value (or, for a field load, to the same field with no store in between -
// handled in cleanFieldLoad) on every path to the use.
func (t *taint) sanitisedBefore(v ssa.Value, use ssa.Instruction, cls taintClass) bool {
	refs := v.Referrers()
	if refs == nil || use == nil {
		return false
	}
	for _, ref := range *refs {
		c, ok := ref.(*ssa.Call)
		if !ok || c.Parent() != use.Parent() {
			continue
		}
		f := c.Call.StaticCallee()
		if f == nil {
			continue
		}
		for i, a := range c.Call.Args {
			if a == v && t.inPlace(f, i, cls, 0) && dominatesInstr(c, use) {
				return true
			}
		}
	}
	return false
}

// inPlace: f neutralises class cls in the bytes of its parameter i on every path.
func (t *taint) inPlace(f *ssa.Function, i int, cls taintClass, depth int) bool {
	if f == nil || f.Blocks == nil || depth > 3 {
		return false
	}
	if c, ok := t.sanitiser[f]; ok {
		return i == 0 && c == cls
	}
	key := fmt.Sprintf("%p#%d#%s", f, i, cls)
	switch t.inPlaceMemo[key] {
	case 1:
		return true
	case 2:
		return false
	}
	t.inPlaceMemo[key] = 2
	if i >= len(f.Params) {
		return false
	}
	prm := ssa.Value(f.Params[i])
	ev := func(in ssa.Instruction) bool {
		c, ok := in.(*ssa.Call)
		if !ok {
			return false
		}
		g := c.Call.StaticCallee()
		if g == nil {
			return false
		}
		for ai, a := range c.Call.Args {
			if a == prm && t.inPlace(g, ai, cls, depth+1) {
				return true
			}
		}
		return false
	}
	hit, _ := reachAvoiding(f, nil, isReturn, ev, nil)
	if hit == nil {
		t.inPlaceMemo[key] = 1
		return true
	}
	return false
}

func (t *taint) cleanCall(c *ssa.Call, resIdx int, use ssa.Instruction, cls taintClass, depth int) (bool, string) {
	cc := &c.Call
	if b, ok := cc.Value.(*ssa.Builtin); ok {
		switch b.Name() {
		case "append":
			for _, a := range cc.Args {
				if ok, why := t.clean(a, c, cls, depth+1); !ok {
					return false, why
				}
			}
			return true, ""
		case "len", "cap", "copy", "min", "max":
			return true, ""
		}
		return false, "builtin " + b.Name()
	}
	f := cc.StaticCallee()
	if f == nil {
		return false, "result of a dynamic call"
	}
	name := calleeShort(f)
	if scls, ok := t.sanitiser[f]; ok {
		if scls == cls {
			return true, ""
		}
		// a neutraliser of another class only replaces bytes by spaces: cleanliness of its argument carries over
		return t.clean(cc.Args[0], c, cls, depth+1)
	}
	if _, ok := t.alwaysClean[name]; ok {
		return true, ""
	}
	if idx, ok := t.passThrough[name]; ok && idx < len(cc.Args) {
		return t.clean(cc.Args[idx], c, cls, depth+1)
	}
	if !inModule(f) || f.Blocks == nil {
		return false, "result of " + name + " (not known to preserve or establish " + string(cls) + "-freedom)"
	}
	// module function: every returned value (at resIdx) must be clean inside it; parameters resolve to this call's arguments
	for _, b := range f.Blocks {
		rt, ok := b.Instrs[len(b.Instrs)-1].(*ssa.Return)
		if !ok {
			continue
		}
		rr := returnResults(rt)
		if resIdx >= len(rr) {
			continue
		}
		if ok2, why := t.cleanIn(rr[resIdx], rt, cls, depth+1, f, c); !ok2 {
			return false, why + " (returned by " + name + ")"
		}
	}
	return true, ""
}

// cleanIn evaluates v inside callee f for one specific call site: parameters are
// replaced by that call's arguments (context sensitivity of depth one; deeper
// parameters fall back to the all-callers rule).
func (t *taint) cleanIn(v ssa.Value, use ssa.Instruction, cls taintClass, depth int, f *ssa.Function, site *ssa.Call) (bool, string) {
	if depth > 40 {
		return false, "analysis depth exceeded"
	}
	if t.sanitisedBefore(v, use, cls) {
		return true, ""
	}
	switch w := v.(type) {
	case *ssa.Parameter:
		for i, prm := range f.Params {
			if prm == w && i < len(site.Call.Args) {
				return t.clean(site.Call.Args[i], site, cls, depth+1)
			}
		}
	case *ssa.Slice:
		if w.High != nil {
			if k, ok := constInt(w.High); ok && k == 0 {
				return true, ""
			}
		}
		return t.cleanIn(w.X, use, cls, depth+1, f, site)
	case *ssa.Phi:
		if t.inPhi[w] {
			return true, "" // loop-carried value: decided by its other operands
		}
		t.inPhi[w] = true
		defer delete(t.inPhi, w)
		for _, e := range w.Edges {
			if ok, why := t.cleanIn(e, use, cls, depth+1, f, site); !ok {
				return false, why
			}
		}
		return true, ""
	case *ssa.Convert:
		return t.cleanIn(w.X, use, cls, depth+1, f, site)
	case *ssa.ChangeType:
		return t.cleanIn(w.X, use, cls, depth+1, f, site)
	case *ssa.Call:
		if b, ok := w.Call.Value.(*ssa.Builtin); ok && b.Name() == "append" {
			for _, a := range w.Call.Args {
				if ok2, why := t.cleanIn(a, w, cls, depth+1, f, site); !ok2 {
					return false, why
				}
			}
			return true, ""
		}
		if g := w.Call.StaticCallee(); g != nil {
			name := calleeShort(g)
			if scls, ok := t.sanitiser[g]; ok {
				if scls == cls {
					return true, ""
				}
				return t.cleanIn(w.Call.Args[0], w, cls, depth+1, f, site)
			}
			if idx, ok := t.passThrough[name]; ok && idx < len(w.Call.Args) {
				return t.cleanIn(w.Call.Args[idx], w, cls, depth+1, f, site)
			}
		}
	}
	return t.clean(v, use, cls, depth+1)
}

func isExportedAPI(f *ssa.Function) bool {
	if f.Parent() != nil || !token.IsExported(f.Name()) {
		return false
	}
	if r := f.Signature.Recv(); r != nil {
		t := r.Type()
		if p, ok := t.(*types.Pointer); ok {
			t = p.Elem()
		}
		if n, ok := t.(*types.Named); ok {
			return n.Obj().Exported()
		}
		return false
	}
	return true
}

func (t *taint) cleanParam(prm *ssa.Parameter, cls taintClass, depth int) (bool, string) {
	f := prm.Parent()
	idx := -1
	for i, q := range f.Params {
		if q == prm {
			idx = i
		}
	}
	fname := funcName(f)
	if why, ok := t.trustedParam[fmt.Sprintf("%s#%d", fname, idx)]; ok {
		_ = why
		return true, ""
	}
	if isExportedAPI(f) {
		return false, fmt.Sprintf("caller-supplied parameter %q of exported %s", prm.Name(), fname)
	}
	// unexported: every module call site must pass a clean argument
	n := 0
	for _, cf := range t.p.SrcFuncs() {
		for _, b := range cf.Blocks {
			for _, in := range b.Instrs {
				c, ok := in.(ssa.CallInstruction)
				if !ok || c.Common().StaticCallee() != f || idx >= len(c.Common().Args) {
					continue
				}
				n++
				if ok2, why := t.clean(c.Common().Args[idx], in, cls, depth+1); !ok2 {
					return false, why + " (passed to " + fname + " at " + t.p.Pos(in.Pos()) + ")"
				}
			}
		}
	}
	if n == 0 {
		// only reachable through function values / interfaces: unknown callers
		return false, fmt.Sprintf("parameter %q of %s, whose callers are not statically known", prm.Name(), fname)
	}
	return true, ""
}

// cleanFieldLoad: reaching definitions of the field inside the function.
func (t *taint) cleanFieldLoad(load *ssa.UnOp, fa *ssa.FieldAddr, use ssa.Instruction, cls taintClass, depth int) (bool, string) {
	fn := load.Parent()
	owner := typeNameOf(fa.X)
	field := fieldName(fa.X.Type(), fa.Field)
	if t.wireTypes[owner] {
		return true, "" // bytes taken from the wire by the scanner: not a setter path
	}
	path := fieldPath(fa)
	root := rootOf(fa)
	// events on the same cell in this function, in dominance order before the load
	type ev struct {
		in       ssa.Instruction
		store    *ssa.Store
		sanitise taintClass
	}
	var evs []ev
	for _, b := range fn.Blocks {
		for _, in := range b.Instrs {
			switch w := in.(type) {
			case *ssa.Store:
				if fa2, ok := w.Addr.(*ssa.FieldAddr); ok && fieldPath(fa2) == path && rootOf(fa2) == root {
					evs = append(evs, ev{in: in, store: w})
				}
			case *ssa.Call:
				g := w.Call.StaticCallee()
				if g == nil {
					continue
				}
				for ai, a := range w.Call.Args {
					if u, ok := a.(*ssa.UnOp); ok && u.Op == token.MUL {
						if fa2, ok := u.X.(*ssa.FieldAddr); ok && fieldPath(fa2) == path && rootOf(fa2) == root {
							for _, c := range []taintClass{clsCRLF, clsSEMI} {
								if t.inPlace(g, ai, c, 0) {
									evs = append(evs, ev{in: in, sanitise: c})
								}
							}
						}
					}
				}
			}
		}
	}
	// the closest dominating events, newest first
	var dom []ev
	for _, e := range evs {
		if dominatesInstr(e.in, load) {
			dom = append(dom, e)
		}
	}
	// sort by dominance: e1 before e2 if e1 dominates e2
	for i := 0; i < len(dom); i++ {
		for j := i + 1; j < len(dom); j++ {
			if dominatesInstr(dom[i].in, dom[j].in) {
				dom[i], dom[j] = dom[j], dom[i]
			}
		}
	}
	// any non-dominating store that can reach the load makes the content ambiguous: require it to be clean too
	for _, e := range evs {
		if e.store == nil || dominatesInstr(e.in, load) {
			continue
		}
		if e.in.Block() == load.Block() && instrIndex(e.in) > instrIndex(load) && !blockReaches(load.Block(), load.Block(), nil) {
			continue
		}
		if blockReaches(e.in.Block(), load.Block(), nil) || e.in.Block() == load.Block() {
			if ok, why := t.clean(e.store.Val, e.in, cls, depth+1); !ok {
				return false, why
			}
		}
	}
	for _, e := range dom {
		if e.store != nil {
			return t.clean(e.store.Val, e.in, cls, depth+1)
		}
		if e.sanitise == cls {
			return true, ""
		}
	}
	// content at function entry
	if t.sinkField[owner+"."+field] {
		return true, "" // storage that only ever receives clean values (checked at every store)
	}
	if _, ok := t.trustedField[owner+"."+field]; ok {
		return true, ""
	}
	// any other field: clean iff every store to it anywhere in the module is clean and nobody outside the module can set it
	if ok, why := t.cleanFieldEverywhere(fa, owner, field, cls, depth); ok {
		return true, ""
	} else if why != "" {
		return false, why
	}
	return false, fmt.Sprintf("content of %s.%s as found on entry to %s (not a checked storage field)", owner, field, funcName(fn))
}

func newTaint(p *Prog) *taint {
	t := &taint{p: p, sanitiser: map[*ssa.Function]taintClass{}, memo: map[taintKey]int8{}, why: map[taintKey]string{}, inPlaceMemo: map[string]int8{}, inPhi: map[*ssa.Phi]bool{}, trustedField: map[string]string{}, fieldMemo: map[string]int8{},
		sinkField: map[string]bool{}, wireTypes: map[string]bool{"headerScanner": true, "headerValueScanner": true}}
	if f := p.Func("removeNewLines"); f != nil {
		t.sanitiser[f] = clsCRLF
	}
	if f := p.Func("removeSemicolons"); f != nil {
		t.sanitiser[f] = clsSEMI
	}
	t.alwaysClean = map[string]string{
		"AppendUint":              "decimal digits only",
		"AppendHTTPDate":          "fixed date format",
		"AppendIPv4":              "digits and dots",
		"strconv.AppendInt":       "digits",
		"strconv.AppendUint":      "digits",
		"strconv.Itoa":            "digits",
		"strconv.FormatInt":       "digits",
		"Encoding.AppendEncode":   "base64 alphabet",
		"Encoding.EncodeToString": "base64 alphabet",
		"Time.AppendFormat":       "date format",
		"formatStatusLine":        "built from numeric code and checked message",
		"statusLine":              "constant table",
		"StatusMessage":           "constant table",
	}
	t.passThrough = map[string]int{"b2s": 0, "s2b": 0, "bytes.ToLower": 0, "bytes.ToUpper": 0, "bytes.TrimSpace": 0, "strings.TrimSpace": 0,
		"strings.ToLower": 0, "bytes.TrimRight": 0, "bytes.TrimLeft": 0, "trimTrailingSpace": 0}
	t.trustedParam = map[string]string{}
	return t
}

// shape precondition of the base sanitisers: the function writes only elements
// of its parameter, only a constant that is not in the class, and its reads
// compare against the class's bytes.
func (t *taint) checkSanitiserShapes(r *Report, rule string) {
	bad := map[taintClass][]int64{clsCRLF: {'\r', '\n'}, clsSEMI: {';'}}
	for f, cls := range t.sanitiser {
		okWrites, nWrites, mentions := true, 0, 0
		for _, b := range f.Blocks {
			for _, in := range b.Instrs {
				switch w := in.(type) {
				case *ssa.Store:
					if _, isIdx := w.Addr.(*ssa.IndexAddr); isIdx {
						nWrites++
						k, ok := constInt(w.Val)
						if !ok {
							// copying an element from another position of the same slice is fine only if that element was itself scanned;
							// accept loads of elements (the compaction form) but not arbitrary values
							if u, isU := w.Val.(*ssa.UnOp); !isU || u.Op != token.MUL {
								okWrites = false
							}
							continue
						}
						for _, bb := range bad[cls] {
							if k == bb {
								okWrites = false
							}
						}
					}
				case *ssa.BinOp:
					for _, o := range []ssa.Value{w.X, w.Y} {
						if k, ok := constInt(o); ok {
							for _, bb := range bad[cls] {
								if k == bb {
									mentions++
								}
							}
						}
					}
				case *ssa.Call:
					for _, a := range w.Call.Args {
						if k, ok := constInt(a); ok {
							for _, bb := range bad[cls] {
								if k == bb {
									mentions++
								}
							}
						}
						if g := globalOf(a); g == "rChar" || g == "nChar" {
							mentions++
						}
					}
				}
			}
		}
		// package-level byte constants rChar/nChar
		for _, b := range f.Blocks {
			for _, in := range b.Instrs {
				if u, ok := in.(*ssa.UnOp); ok {
					if g, ok := u.X.(*ssa.Global); ok && (g.Name() == "rChar" || g.Name() == "nChar") {
						mentions++
					}
				}
			}
		}
		r.Check(rule, fmt.Sprintf("neutraliser %s: replaces the %s bytes it scans for and writes nothing from the class", funcName(f), cls), okWrites && nWrites > 0 && mentions >= len(bad[cls]), t.p.Pos(f.Pos()),
			fmt.Sprintf("element writes=%d (all outside the class: %v), comparisons against the class bytes=%d", nWrites, okWrites, mentions))
	}
}

func joinWhy(parts ...string) string { return strings.Join(parts, "; ") }

// cleanFieldEverywhere: the field belongs to an unexported struct type or is
// unexported itself (so only module code assigns it) and every store to it in
// the module is clean.
func (t *taint) cleanFieldEverywhere(fa *ssa.FieldAddr, owner, field string, cls taintClass, depth int) (bool, string) {
	fv := fieldVar(fa.X.Type(), fa.Field)
	if fv == nil {
		return false, ""
	}
	if fv.Exported() && token.IsExported(owner) {
		return false, fmt.Sprintf("exported field %s.%s, which the application sets directly", owner, field)
	}
	key := owner + "." + field + "#" + string(cls)
	switch t.fieldMemo[key] {
	case 1, 3:
		return true, ""
	case 2:
		return false, "a store to " + owner + "." + field + " is not clean"
	}
	t.fieldMemo[key] = 3
	n := 0
	for _, fn := range t.p.SrcFuncs() {
		for _, b := range fn.Blocks {
			for _, in := range b.Instrs {
				st, ok := in.(*ssa.Store)
				if !ok {
					continue
				}
				fa2, ok := st.Addr.(*ssa.FieldAddr)
				if !ok || fieldVar(fa2.X.Type(), fa2.Field) != fv {
					continue
				}
				n++
				if ok2, why := t.clean(st.Val, st, cls, depth+1); !ok2 {
					t.fieldMemo[key] = 2
					return false, why + " (stored to " + owner + "." + field + " at " + t.p.Pos(st.Pos()) + ")"
				}
			}
		}
	}
	t.fieldMemo[key] = 1
	return true, ""
}

// checkSanitiserScan: scan-coverage precondition of the base neutralisers. A
// neutraliser rewrites its argument in place inside one loop; the value it
// returns is clean only if that loop visits every position that can hold a
// byte of the class. Decided here: (step) the loop index advances by exactly
// one; (bound) the loop runs until the index reaches len(argument); (body) in
// every iteration each class byte is compared with the current element and a
// match always reaches the rewrite; (start) in the zone domain, on every path
// to the loop the first index visited is 0 or not beyond the first occurrence
// of each class byte (bytes.IndexByte result, which is -1 or the smallest
// position), and a return that skips the loop is taken only when every class
// byte was reported absent. An implementation of a different shape is
// reported as undecided, never as a violation.
func (t *taint) checkSanitiserScan(r *Report, rule string) {
	classBytes := map[taintClass][]int64{clsCRLF: {'\r', '\n'}, clsSEMI: {';'}}
	var fns []*ssa.Function
	for f := range t.sanitiser {
		fns = append(fns, f)
	}
	sort.Slice(fns, func(i, j int) bool { return fns[i].Name() < fns[j].Name() })
	for _, f := range fns {
		cls := t.sanitiser[f]
		name := funcName(f)
		if len(f.Params) == 0 {
			r.Undecided(rule, "scan coverage of "+name, "no parameter")
			continue
		}
		arg := f.Params[0]
		// the rewriting stores
		var stores []*ssa.Store
		for _, b := range f.Blocks {
			for _, in := range b.Instrs {
				if st, ok := in.(*ssa.Store); ok {
					if ia, ok := st.Addr.(*ssa.IndexAddr); ok && ia.X == arg {
						stores = append(stores, st)
					}
				}
			}
		}
		if len(stores) == 0 {
			r.Undecided(rule, "scan coverage of "+name, "no in-place element store on the parameter: implementation shape not recognised")
			continue
		}
		idxTerm := func(v ssa.Value) (*ssa.Phi, int64, bool) {
			var k int64
			for i := 0; i < 4; i++ {
				switch w := v.(type) {
				case *ssa.Phi:
					return w, k, true
				case *ssa.BinOp:
					c, ok := constInt(w.Y)
					if !ok {
						return nil, 0, false
					}
					if w.Op == token.ADD {
						k += c
					} else if w.Op == token.SUB {
						k -= c
					} else {
						return nil, 0, false
					}
					v = w.X
				default:
					return nil, 0, false
				}
			}
			return nil, 0, false
		}
		var hdr *ssa.BasicBlock
		var phi *ssa.Phi
		var off int64
		shapeOK := true
		for _, st := range stores {
			h := loopHeaderOf(st.Block())
			ph, k, ok := idxTerm(st.Addr.(*ssa.IndexAddr).Index)
			if h == nil || !ok || ph.Block() != h || (hdr != nil && (h != hdr || ph != phi || k != off)) {
				shapeOK = false
				break
			}
			hdr, phi, off = h, ph, k
		}
		if !shapeOK {
			r.Undecided(rule, "scan coverage of "+name, "the element rewrites are not inside one loop indexed by one induction variable: implementation shape not recognised")
			continue
		}
		sameIdx := func(v ssa.Value) bool {
			ph, k, ok := idxTerm(v)
			return ok && ph == phi && k == off
		}
		// (step)
		stepOK, initN := true, 0
		for i, pr := range hdr.Preds {
			e := phi.Edges[i]
			if hdr.Dominates(pr) {
				ph, k, ok := idxTerm(e)
				if !ok || ph != phi || k != 1 {
					stepOK = false
				}
			} else {
				initN++
			}
		}
		r.Check(rule, fmt.Sprintf("neutraliser %s: the scan index advances by exactly one position per iteration", name), stepOK && initN > 0, t.p.Pos(phi.Pos()),
			"the loop that rewrites the class bytes skips positions (its index is not advanced by the constant 1 on every back edge)")
		// (bound)
		boundOK := false
		for _, b := range f.Blocks {
			if !inLoop(hdr, b) {
				continue
			}
			iff, ok := b.Instrs[len(b.Instrs)-1].(*ssa.If)
			if !ok {
				continue
			}
			leaves := -1
			for i, su := range b.Succs {
				if !inLoop(hdr, su) {
					leaves = i
				}
			}
			if leaves < 0 {
				continue
			}
			pos, c := stripNot(iff.Cond)
			bo, ok := c.(*ssa.BinOp)
			if !ok {
				continue
			}
			isLen := func(v ssa.Value) bool {
				call, ok := v.(*ssa.Call)
				if !ok {
					return false
				}
				bi, ok := call.Call.Value.(*ssa.Builtin)
				return ok && bi.Name() == "len" && len(call.Call.Args) == 1 && call.Call.Args[0] == arg
			}
			// stays in the loop exactly while idx < len(arg)
			stayOnTrue := leaves == 1
			if !pos {
				stayOnTrue = !stayOnTrue
			}
			switch {
			case bo.Op == token.LSS && sameIdx(bo.X) && isLen(bo.Y) && stayOnTrue,
				bo.Op == token.GTR && isLen(bo.X) && sameIdx(bo.Y) && stayOnTrue,
				bo.Op == token.GEQ && sameIdx(bo.X) && isLen(bo.Y) && !stayOnTrue,
				bo.Op == token.LEQ && isLen(bo.X) && sameIdx(bo.Y) && !stayOnTrue:
				boundOK = true
			}
		}
		r.Check(rule, fmt.Sprintf("neutraliser %s: the scan runs until the index reaches len(argument)", name), boundOK, t.p.Pos(phi.Pos()),
			"the loop that rewrites the class bytes may stop before the end of its argument")
		// (body)
		storeBlocks := map[*ssa.BasicBlock]bool{}
		for _, st := range stores {
			if c, ok := constInt(st.Val); ok {
				inClass := false
				for _, cb := range classBytes[cls] {
					if c == cb {
						inClass = true
					}
				}
				if !inClass {
					storeBlocks[st.Block()] = true
				}
			}
		}
		reachesHeaderAvoiding := func(from *ssa.BasicBlock, stop map[*ssa.BasicBlock]bool) bool {
			seen := map[*ssa.BasicBlock]bool{}
			var q []*ssa.BasicBlock
			push := func(b *ssa.BasicBlock) {
				if !seen[b] && inLoop(hdr, b) {
					seen[b] = true
					q = append(q, b)
				}
			}
			push(from)
			for len(q) > 0 {
				b := q[0]
				q = q[1:]
				if stop[b] {
					continue
				}
				for _, su := range b.Succs {
					if su == hdr {
						return true
					}
					push(su)
				}
			}
			return false
		}
		for _, cb := range classBytes[cls] {
			cmpBlocks := map[*ssa.BasicBlock]bool{}
			matchOK := true
			for _, b := range f.Blocks {
				if !inLoop(hdr, b) {
					continue
				}
				iff, ok := b.Instrs[len(b.Instrs)-1].(*ssa.If)
				if !ok {
					continue
				}
				pos, c := stripNot(iff.Cond)
				bo, ok := c.(*ssa.BinOp)
				if !ok || (bo.Op != token.EQL && bo.Op != token.NEQ) {
					continue
				}
				el, k := bo.X, bo.Y
				if _, isC := constInt(el); isC {
					el, k = k, el
				}
				kv, isC := constInt(k)
				ld, isLd := el.(*ssa.UnOp)
				if !isC || kv != cb || !isLd || ld.Op != token.MUL {
					continue
				}
				ia, ok := ld.X.(*ssa.IndexAddr)
				if !ok || ia.X != arg || !sameIdx(ia.Index) {
					continue
				}
				cmpBlocks[b] = true
				matchSucc := 0
				if (bo.Op == token.NEQ) == pos {
					matchSucc = 1
				}
				if reachesHeaderAvoiding(b.Succs[matchSucc], storeBlocks) {
					matchOK = false
				}
			}
			stop := map[*ssa.BasicBlock]bool{}
			for b := range cmpBlocks {
				stop[b] = true
			}
			for b := range storeBlocks {
				stop[b] = true
			}
			// the body proper starts at the in-loop successors of the header (or at the header itself when it holds the compare)
			skip := false
			if !stop[hdr] {
				for _, su := range hdr.Succs {
					if inLoop(hdr, su) && su != hdr && reachesHeaderAvoiding(su, stop) {
						skip = true
					}
				}
			}
			r.Check(rule, fmt.Sprintf("neutraliser %s: every iteration compares the element with byte %#x and a match is always rewritten", name, cb), len(cmpBlocks) > 0 && matchOK && !skip, t.p.Pos(phi.Pos()),
				fmt.Sprintf("compare sites in the loop: %d; a match can reach the next iteration without the rewrite: %v; an iteration can pass without the compare: %v", len(cmpBlocks), !matchOK, skip))
		}
		// (start) zone analysis of the prefix of the function up to the loop
		indexCalls := map[int64][]*ssa.Call{}
		for _, b := range f.Blocks {
			for _, in := range b.Instrs {
				c, ok := in.(*ssa.Call)
				if !ok {
					continue
				}
				g := c.Call.StaticCallee()
				if g == nil || g.Pkg == nil || g.Pkg.Pkg.Path() != "bytes" || g.Name() != "IndexByte" || len(c.Call.Args) != 2 || c.Call.Args[0] != arg {
					continue
				}
				if k, ok := constInt(c.Call.Args[1]); ok {
					indexCalls[k] = append(indexCalls[k], c)
				}
			}
		}
		absent := func(z *zone, cb int64) bool {
			for _, c := range indexCalls[cb] {
				if n, ok := z.idx[c]; ok && z.entails(n, 0, 0, 0, -1) {
					return true
				}
			}
			return false
		}
		firstIdx := phi
		res := zoneWalk(t.p, f, nil,
			func(rt *ssa.Return) bool { return true },
			func(z *zone, rt *ssa.Return) (bool, string) {
				for _, cb := range classBytes[cls] {
					if !absent(z, cb) {
						return false, fmt.Sprintf("returns without scanning although byte %#x was not reported absent on this path", cb)
					}
				}
				return true, ""
			},
			func(b, from *ssa.BasicBlock, z *zone) (bool, bool, string) {
				if b != hdr {
					return false, true, ""
				}
				n, o := z.term(firstIdx)
				o += off
				if z.entails(n, o, 0, 0, 0) {
					return true, true, ""
				}
				for _, cb := range classBytes[cls] {
					ok := absent(z, cb)
					for _, c := range indexCalls[cb] {
						if m, has := z.idx[c]; has && z.entails(n, o, m, 0, 0) {
							ok = true
						}
					}
					if !ok {
						return true, false, fmt.Sprintf("on this path the scan starts at a position that is not shown to be at or before the first byte %#x", cb)
					}
				}
				return true, true, ""
			})
		if res.undecided != "" {
			r.Undecided(rule, "scan start of "+name, res.undecided)
			continue
		}
		r.Check(rule, fmt.Sprintf("neutraliser %s: the scan starts at or before the first byte of the class on every path, and is skipped only when none is present", name), res.bad == 0, t.p.Pos(f.Pos()),
			fmt.Sprintf("%s (%d of %d paths to the loop or to an early return)", res.detail, res.bad, res.successReturns), res.witness...)
		r.Counts[rule+" paths to the scan loop of "+name] = res.successReturns
	}
}
