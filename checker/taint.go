package main

// E5: cleanliness (backward taint) with sanitiser classes. A value is "clean
// for class C" when every way it can be produced passes a neutraliser of class
// C (CRLF: carriage return / line feed; SEMI: ';'), or is a constant, a numeric
// formatter result, or content of a storage field that is itself only ever
// assigned clean values (induction over the sink fields).

import (
	"fmt"
	"go/token"
	"go/types"
	"strings"

	"golang.org/x/tools/go/ssa"
)

type taintClass string

const (
	clsCRLF taintClass = "CRLF"
	clsSEMI taintClass = "SEMI"
)

type taintKey struct {
	v   ssa.Value
	use ssa.Instruction
	cls taintClass
}

type taint struct {
	p *Prog
	// base sanitisers: function -> class it neutralises (in place on param 0, and returned)
	sanitiser map[*ssa.Function]taintClass
	// functions whose result is clean whatever goes in (numeric / constant formatters), with reason
	alwaysClean map[string]string
	// functions that return their (index) argument possibly re-sliced/copied but never adding bytes: result clean iff arg clean
	passThrough map[string]int
	// exported parameters that are documented preconditions rather than sources: "funcName#paramIndex" -> reason
	trustedParam map[string]string
	// fields that are themselves sinks (clean by induction): "Type.field"
	sinkField map[string]bool
	// values of these struct types come from the wire-side scanner, not from a setter
	wireTypes   map[string]bool
	memo        map[taintKey]int8 // 1 clean, 2 dirty, 3 in progress
	why         map[taintKey]string
	inPlaceMemo map[string]int8
	inPhi       map[*ssa.Phi]bool
	// configuration fields set by the application (not per-message setter arguments): "Type.field" -> reason
	trustedField map[string]string
	fieldMemo    map[string]int8
}

func (t *taint) key(v ssa.Value, use ssa.Instruction, cls taintClass) taintKey {
	return taintKey{v, use, cls}
}

// clean reports whether v, as used at instruction use, is clean for cls.
func (t *taint) clean(v ssa.Value, use ssa.Instruction, cls taintClass, depth int) (bool, string) {
	k := t.key(v, use, cls)
	switch t.memo[k] {
	case 1:
		return true, ""
	case 2:
		return false, t.why[k]
	case 3:
		return true, "" // cycle: coinductive assumption
	}
	if depth > 40 {
		return false, "analysis depth exceeded"
	}
	t.memo[k] = 3
	ok, why := t.clean1(v, use, cls, depth)
	if ok {
		t.memo[k] = 1
	} else {
		t.memo[k] = 2
		t.why[k] = why
	}
	return ok, why
}

func (t *taint) fn(in ssa.Instruction) *ssa.Function { return in.Parent() }

func calleeShort(f *ssa.Function) string {
	if f == nil {
		return ""
	}
	if rt := recvTypeName(f); rt != "" {
		return rt + "." + f.Name()
	}
	if f.Pkg != nil && f.Pkg.Pkg.Path() != rootPkg {
		return f.Pkg.Pkg.Name() + "." + f.Name()
	}
	return f.Name()
}

func (t *taint) clean1(v ssa.Value, use ssa.Instruction, cls taintClass, depth int) (bool, string) {
	// sanitised in place before the use?
	if t.sanitisedBefore(v, use, cls) {
		return true, ""
	}
	switch w := v.(type) {
	case *ssa.Const:
		return true, ""
	case *ssa.Global:
		return true, ""
	case *ssa.Slice:
		if w.High != nil {
			if k, ok := constInt(w.High); ok && k == 0 {
				return true, "" // x[:0]
			}
		}
		return t.clean(w.X, use, cls, depth+1)
	case *ssa.Convert:
		return t.clean(w.X, use, cls, depth+1)
	case *ssa.ChangeType:
		return t.clean(w.X, use, cls, depth+1)
	case *ssa.MakeInterface:
		return t.clean(w.X, use, cls, depth+1)
	case *ssa.Phi:
		for _, e := range w.Edges {
			if ok, why := t.clean(e, use, cls, depth+1); !ok {
				return false, why
			}
		}
		return true, ""
	case *ssa.Extract:
		if c, ok := w.Tuple.(*ssa.Call); ok {
			return t.cleanCall(c, w.Index, use, cls, depth)
		}
		return false, "tuple component of unknown origin"
	case *ssa.Call:
		return t.cleanCall(w, 0, use, cls, depth)
	case *ssa.UnOp:
		if w.Op != token.MUL {
			return false, "unary operation"
		}
		switch a := w.X.(type) {
		case *ssa.Global:
			return true, ""
		case *ssa.FieldAddr:
			return t.cleanFieldLoad(w, a, use, cls, depth)
		case *ssa.Alloc:
			// local variable: all stores into it must be clean
			any := false
			for _, ref := range *a.Referrers() {
				if st, ok := ref.(*ssa.Store); ok && st.Addr == ssa.Value(a) {
					any = true
					if ok2, why := t.clean(st.Val, st, cls, depth+1); !ok2 {
						return false, why
					}
				}
			}
			if !any {
				return true, "" // zero value
			}
			return true, ""
		case *ssa.IndexAddr:
			// element of a slice of byte slices (trailer list, ...): clean iff the container is
			return t.clean(a.X, use, cls, depth+1)
		}
		return false, "load through a computed address"
	case *ssa.Parameter:
		return t.cleanParam(w, cls, depth)
	case *ssa.FreeVar:
		return false, "closure variable " + w.Name()
	case *ssa.MakeSlice, *ssa.Alloc:
		return true, "" // fresh zeroed memory
	case *ssa.Lookup:
		return false, "element of a string/map of unknown content"
	}
	return false, fmt.Sprintf("value of kind %T", v)
}

// sanitisedBefore: an in-place sanitiser of class cls was applied to this very
// value (or, for a field load, to the same field with no store in between -
// handled in cleanFieldLoad) on every path to the use.
func (t *taint) sanitisedBefore(v ssa.Value, use ssa.Instruction, cls taintClass) bool {
	refs := v.Referrers()
	if refs == nil || use == nil {
		return false
	}
	for _, ref := range *refs {
		c, ok := ref.(*ssa.Call)
		if !ok || c.Parent() != use.Parent() {
			continue
		}
		f := c.Call.StaticCallee()
		if f == nil {
			continue
		}
		for i, a := range c.Call.Args {
			if a == v && t.inPlace(f, i, cls, 0) && dominatesInstr(c, use) {
				return true
			}
		}
	}
	return false
}

// inPlace: f neutralises class cls in the bytes of its parameter i on every path.
func (t *taint) inPlace(f *ssa.Function, i int, cls taintClass, depth int) bool {
	if f == nil || f.Blocks == nil || depth > 3 {
		return false
	}
	if c, ok := t.sanitiser[f]; ok {
		return i == 0 && c == cls
	}
	key := fmt.Sprintf("%p#%d#%s", f, i, cls)
	switch t.inPlaceMemo[key] {
	case 1:
		return true
	case 2:
		return false
	}
	t.inPlaceMemo[key] = 2
	if i >= len(f.Params) {
		return false
	}
	prm := ssa.Value(f.Params[i])
	ev := func(in ssa.Instruction) bool {
		c, ok := in.(*ssa.Call)
		if !ok {
			return false
		}
		g := c.Call.StaticCallee()
		if g == nil {
			return false
		}
		for ai, a := range c.Call.Args {
			if a == prm && t.inPlace(g, ai, cls, depth+1) {
				return true
			}
		}
		return false
	}
	hit, _ := reachAvoiding(f, nil, isReturn, ev, nil)
	if hit == nil {
		t.inPlaceMemo[key] = 1
		return true
	}
	return false
}

func (t *taint) cleanCall(c *ssa.Call, resIdx int, use ssa.Instruction, cls taintClass, depth int) (bool, string) {
	cc := &c.Call
	if b, ok := cc.Value.(*ssa.Builtin); ok {
		switch b.Name() {
		case "append":
			for _, a := range cc.Args {
				if ok, why := t.clean(a, c, cls, depth+1); !ok {
					return false, why
				}
			}
			return true, ""
		case "len", "cap", "copy", "min", "max":
			return true, ""
		}
		return false, "builtin " + b.Name()
	}
	f := cc.StaticCallee()
	if f == nil {
		return false, "result of a dynamic call"
	}
	name := calleeShort(f)
	if scls, ok := t.sanitiser[f]; ok {
		if scls == cls {
			return true, ""
		}
		// a neutraliser of another class only replaces bytes by spaces: cleanliness of its argument carries over
		return t.clean(cc.Args[0], c, cls, depth+1)
	}
	if _, ok := t.alwaysClean[name]; ok {
		return true, ""
	}
	if idx, ok := t.passThrough[name]; ok && idx < len(cc.Args) {
		return t.clean(cc.Args[idx], c, cls, depth+1)
	}
	if !inModule(f) || f.Blocks == nil {
		return false, "result of " + name + " (not known to preserve or establish " + string(cls) + "-freedom)"
	}
	// module function: every returned value (at resIdx) must be clean inside it; parameters resolve to this call's arguments
	for _, b := range f.Blocks {
		rt, ok := b.Instrs[len(b.Instrs)-1].(*ssa.Return)
		if !ok {
			continue
		}
		rr := returnResults(rt)
		if resIdx >= len(rr) {
			continue
		}
		if ok2, why := t.cleanIn(rr[resIdx], rt, cls, depth+1, f, c); !ok2 {
			return false, why + " (returned by " + name + ")"
		}
	}
	return true, ""
}

// cleanIn evaluates v inside callee f for one specific call site: parameters are
// replaced by that call's arguments (context sensitivity of depth one; deeper
// parameters fall back to the all-callers rule).
func (t *taint) cleanIn(v ssa.Value, use ssa.Instruction, cls taintClass, depth int, f *ssa.Function, site *ssa.Call) (bool, string) {
	if depth > 40 {
		return false, "analysis depth exceeded"
	}
	if t.sanitisedBefore(v, use, cls) {
		return true, ""
	}
	switch w := v.(type) {
	case *ssa.Parameter:
		for i, prm := range f.Params {
			if prm == w && i < len(site.Call.Args) {
				return t.clean(site.Call.Args[i], site, cls, depth+1)
			}
		}
	case *ssa.Slice:
		if w.High != nil {
			if k, ok := constInt(w.High); ok && k == 0 {
				return true, ""
			}
		}
		return t.cleanIn(w.X, use, cls, depth+1, f, site)
	case *ssa.Phi:
		if t.inPhi[w] {
			return true, "" // loop-carried value: decided by its other operands
		}
		t.inPhi[w] = true
		defer delete(t.inPhi, w)
		for _, e := range w.Edges {
			if ok, why := t.cleanIn(e, use, cls, depth+1, f, site); !ok {
				return false, why
			}
		}
		return true, ""
	case *ssa.Convert:
		return t.cleanIn(w.X, use, cls, depth+1, f, site)
	case *ssa.ChangeType:
		return t.cleanIn(w.X, use, cls, depth+1, f, site)
	case *ssa.Call:
		if b, ok := w.Call.Value.(*ssa.Builtin); ok && b.Name() == "append" {
			for _, a := range w.Call.Args {
				if ok2, why := t.cleanIn(a, w, cls, depth+1, f, site); !ok2 {
					return false, why
				}
			}
			return true, ""
		}
		if g := w.Call.StaticCallee(); g != nil {
			name := calleeShort(g)
			if scls, ok := t.sanitiser[g]; ok {
				if scls == cls {
					return true, ""
				}
				return t.cleanIn(w.Call.Args[0], w, cls, depth+1, f, site)
			}
			if idx, ok := t.passThrough[name]; ok && idx < len(w.Call.Args) {
				return t.cleanIn(w.Call.Args[idx], w, cls, depth+1, f, site)
			}
		}
	}
	return t.clean(v, use, cls, depth+1)
}

func isExportedAPI(f *ssa.Function) bool {
	if f.Parent() != nil || !token.IsExported(f.Name()) {
		return false
	}
	if r := f.Signature.Recv(); r != nil {
		t := r.Type()
		if p, ok := t.(*types.Pointer); ok {
			t = p.Elem()
		}
		if n, ok := t.(*types.Named); ok {
			return n.Obj().Exported()
		}
		return false
	}
	return true
}

func (t *taint) cleanParam(prm *ssa.Parameter, cls taintClass, depth int) (bool, string) {
	f := prm.Parent()
	idx := -1
	for i, q := range f.Params {
		if q == prm {
			idx = i
		}
	}
	fname := funcName(f)
	if why, ok := t.trustedParam[fmt.Sprintf("%s#%d", fname, idx)]; ok {
		_ = why
		return true, ""
	}
	if isExportedAPI(f) {
		return false, fmt.Sprintf("caller-supplied parameter %q of exported %s", prm.Name(), fname)
	}
	// unexported: every module call site must pass a clean argument
	n := 0
	for _, cf := range t.p.SrcFuncs() {
		for _, b := range cf.Blocks {
			for _, in := range b.Instrs {
				c, ok := in.(ssa.CallInstruction)
				if !ok || c.Common().StaticCallee() != f || idx >= len(c.Common().Args) {
					continue
				}
				n++
				if ok2, why := t.clean(c.Common().Args[idx], in, cls, depth+1); !ok2 {
					return false, why + " (passed to " + fname + " at " + t.p.Pos(in.Pos()) + ")"
				}
			}
		}
	}
	if n == 0 {
		// only reachable through function values / interfaces: unknown callers
		return false, fmt.Sprintf("parameter %q of %s, whose callers are not statically known", prm.Name(), fname)
	}
	return true, ""
}

// cleanFieldLoad: reaching definitions of the field inside the function.
func (t *taint) cleanFieldLoad(load *ssa.UnOp, fa *ssa.FieldAddr, use ssa.Instruction, cls taintClass, depth int) (bool, string) {
	fn := load.Parent()
	owner := typeNameOf(fa.X)
	field := fieldName(fa.X.Type(), fa.Field)
	if t.wireTypes[owner] {
		return true, "" // bytes taken from the wire by the scanner: not a setter path
	}
	path := fieldPath(fa)
	root := rootOf(fa)
	// events on the same cell in this function, in dominance order before the load
	type ev struct {
		in       ssa.Instruction
		store    *ssa.Store
		sanitise taintClass
	}
	var evs []ev
	for _, b := range fn.Blocks {
		for _, in := range b.Instrs {
			switch w := in.(type) {
			case *ssa.Store:
				if fa2, ok := w.Addr.(*ssa.FieldAddr); ok && fieldPath(fa2) == path && rootOf(fa2) == root {
					evs = append(evs, ev{in: in, store: w})
				}
			case *ssa.Call:
				g := w.Call.StaticCallee()
				if g == nil {
					continue
				}
				for ai, a := range w.Call.Args {
					if u, ok := a.(*ssa.UnOp); ok && u.Op == token.MUL {
						if fa2, ok := u.X.(*ssa.FieldAddr); ok && fieldPath(fa2) == path && rootOf(fa2) == root {
							for _, c := range []taintClass{clsCRLF, clsSEMI} {
								if t.inPlace(g, ai, c, 0) {
									evs = append(evs, ev{in: in, sanitise: c})
								}
							}
						}
					}
				}
			}
		}
	}
	// the closest dominating events, newest first
	var dom []ev
	for _, e := range evs {
		if dominatesInstr(e.in, load) {
			dom = append(dom, e)
		}
	}
	// sort by dominance: e1 before e2 if e1 dominates e2
	for i := 0; i < len(dom); i++ {
		for j := i + 1; j < len(dom); j++ {
			if dominatesInstr(dom[i].in, dom[j].in) {
				dom[i], dom[j] = dom[j], dom[i]
			}
		}
	}
	// any non-dominating store that can reach the load makes the content ambiguous: require it to be clean too
	for _, e := range evs {
		if e.store == nil || dominatesInstr(e.in, load) {
			continue
		}
		if e.in.Block() == load.Block() && instrIndex(e.in) > instrIndex(load) && !blockReaches(load.Block(), load.Block(), nil) {
			continue
		}
		if blockReaches(e.in.Block(), load.Block(), nil) || e.in.Block() == load.Block() {
			if ok, why := t.clean(e.store.Val, e.in, cls, depth+1); !ok {
				return false, why
			}
		}
	}
	for _, e := range dom {
		if e.store != nil {
			return t.clean(e.store.Val, e.in, cls, depth+1)
		}
		if e.sanitise == cls {
			return true, ""
		}
	}
	// content at function entry
	if t.sinkField[owner+"."+field] {
		return true, "" // storage that only ever receives clean values (checked at every store)
	}
	if _, ok := t.trustedField[owner+"."+field]; ok {
		return true, ""
	}
	// any other field: clean iff every store to it anywhere in the module is clean and nobody outside the module can set it
	if ok, why := t.cleanFieldEverywhere(fa, owner, field, cls, depth); ok {
		return true, ""
	} else if why != "" {
		return false, why
	}
	return false, fmt.Sprintf("content of %s.%s as found on entry to %s (not a checked storage field)", owner, field, funcName(fn))
}

func newTaint(p *Prog) *taint {
	t := &taint{p: p, sanitiser: map[*ssa.Function]taintClass{}, memo: map[taintKey]int8{}, why: map[taintKey]string{}, inPlaceMemo: map[string]int8{}, inPhi: map[*ssa.Phi]bool{}, trustedField: map[string]string{}, fieldMemo: map[string]int8{},
		sinkField: map[string]bool{}, wireTypes: map[string]bool{"headerScanner": true, "headerValueScanner": true}}
	if f := p.Func("removeNewLines"); f != nil {
		t.sanitiser[f] = clsCRLF
	}
	if f := p.Func("removeSemicolons"); f != nil {
		t.sanitiser[f] = clsSEMI
	}
	t.alwaysClean = map[string]string{
		"AppendUint":              "decimal digits only",
		"AppendHTTPDate":          "fixed date format",
		"AppendIPv4":              "digits and dots",
		"strconv.AppendInt":       "digits",
		"strconv.AppendUint":      "digits",
		"strconv.Itoa":            "digits",
		"strconv.FormatInt":       "digits",
		"Encoding.AppendEncode":   "base64 alphabet",
		"Encoding.EncodeToString": "base64 alphabet",
		"Time.AppendFormat":       "date format",
		"formatStatusLine":        "built from numeric code and checked message",
		"statusLine":              "constant table",
		"StatusMessage":           "constant table",
	}
	t.passThrough = map[string]int{"b2s": 0, "s2b": 0, "bytes.ToLower": 0, "bytes.ToUpper": 0, "bytes.TrimSpace": 0, "strings.TrimSpace": 0,
		"strings.ToLower": 0, "bytes.TrimRight": 0, "bytes.TrimLeft": 0, "trimTrailingSpace": 0}
	t.trustedParam = map[string]string{}
	return t
}

// shape precondition of the base sanitisers: the function writes only elements
// of its parameter, only a constant that is not in the class, and its reads
// compare against the class's bytes.
func (t *taint) checkSanitiserShapes(r *Report, rule string) {
	bad := map[taintClass][]int64{clsCRLF: {'\r', '\n'}, clsSEMI: {';'}}
	for f, cls := range t.sanitiser {
		okWrites, nWrites, mentions := true, 0, 0
		for _, b := range f.Blocks {
			for _, in := range b.Instrs {
				switch w := in.(type) {
				case *ssa.Store:
					if _, isIdx := w.Addr.(*ssa.IndexAddr); isIdx {
						nWrites++
						k, ok := constInt(w.Val)
						if !ok {
							// copying an element from another position of the same slice is fine only if that element was itself scanned;
							// accept loads of elements (the compaction form) but not arbitrary values
							if u, isU := w.Val.(*ssa.UnOp); !isU || u.Op != token.MUL {
								okWrites = false
							}
							continue
						}
						for _, bb := range bad[cls] {
							if k == bb {
								okWrites = false
							}
						}
					}
				case *ssa.BinOp:
					for _, o := range []ssa.Value{w.X, w.Y} {
						if k, ok := constInt(o); ok {
							for _, bb := range bad[cls] {
								if k == bb {
									mentions++
								}
							}
						}
					}
				case *ssa.Call:
					for _, a := range w.Call.Args {
						if k, ok := constInt(a); ok {
							for _, bb := range bad[cls] {
								if k == bb {
									mentions++
								}
							}
						}
						if g := globalOf(a); g == "rChar" || g == "nChar" {
							mentions++
						}
					}
				}
			}
		}
		// package-level byte constants rChar/nChar
		for _, b := range f.Blocks {
			for _, in := range b.Instrs {
				if u, ok := in.(*ssa.UnOp); ok {
					if g, ok := u.X.(*ssa.Global); ok && (g.Name() == "rChar" || g.Name() == "nChar") {
						mentions++
					}
				}
			}
		}
		r.Check(rule, fmt.Sprintf("neutraliser %s: replaces the %s bytes it scans for and writes nothing from the class", funcName(f), cls), okWrites && nWrites > 0 && mentions >= len(bad[cls]), t.p.Pos(f.Pos()),
			fmt.Sprintf("element writes=%d (all outside the class: %v), comparisons against the class bytes=%d", nWrites, okWrites, mentions))
	}
}

func joinWhy(parts ...string) string { return strings.Join(parts, "; ") }

// cleanFieldEverywhere: the field belongs to an unexported struct type or is
// unexported itself (so only module code assigns it) and every store to it in
// the module is clean.
func (t *taint) cleanFieldEverywhere(fa *ssa.FieldAddr, owner, field string, cls taintClass, depth int) (bool, string) {
	fv := fieldVar(fa.X.Type(), fa.Field)
	if fv == nil {
		return false, ""
	}
	if fv.Exported() && token.IsExported(owner) {
		return false, fmt.Sprintf("exported field %s.%s, which the application sets directly", owner, field)
	}
	key := owner + "." + field + "#" + string(cls)
	switch t.fieldMemo[key] {
	case 1, 3:
		return true, ""
	case 2:
		return false, "a store to " + owner + "." + field + " is not clean"
	}
	t.fieldMemo[key] = 3
	n := 0
	for _, fn := range t.p.SrcFuncs() {
		for _, b := range fn.Blocks {
			for _, in := range b.Instrs {
				st, ok := in.(*ssa.Store)
				if !ok {
					continue
				}
				fa2, ok := st.Addr.(*ssa.FieldAddr)
				if !ok || fieldVar(fa2.X.Type(), fa2.Field) != fv {
					continue
				}
				n++
				if ok2, why := t.clean(st.Val, st, cls, depth+1); !ok2 {
					t.fieldMemo[key] = 2
					return false, why + " (stored to " + owner + "." + field + " at " + t.p.Pos(st.Pos()) + ")"
				}
			}
		}
	}
	t.fieldMemo[key] = 1
	return true, ""
}
