package main

import (
	"fmt"
	"go/token"
	"sort"
	"strings"

	"golang.org/x/tools/go/ssa"
)

// atomOf names an elementary condition operand in a role-based way:
//
//	field:<Type>.<field>        load of a struct field (through any base)
//	call:<callee>[<recv path>]  static call result, with the field path of the receiver/first arg
//	dyn:<field>                 result of a call through a func-typed field (e.g. s.ExpectHandler)
//	param:<name>, freevar:<name>, global:<name>, const:<v>
func atomOf(v ssa.Value) string {
	switch v := v.(type) {
	case *ssa.Const:
		if v.Value == nil {
			return "const:nil"
		}
		return "const:" + v.Value.ExactString()
	case *ssa.Parameter:
		return "param:" + v.Name()
	case *ssa.FreeVar:
		return "freevar:" + v.Name()
	case *ssa.Global:
		return "global:" + v.Name()
	case *ssa.UnOp:
		if v.Op == token.MUL {
			if g, ok := v.X.(*ssa.Global); ok {
				return "global:" + g.Name()
			}
			if base, fv := fieldOfAddr(v.X); fv != nil {
				return "field:" + typeNameOf(base) + "." + fv.Name()
			}
			if fvv, ok := v.X.(*ssa.FreeVar); ok {
				return "freevar:" + fvv.Name()
			}
			if a, ok := v.X.(*ssa.Alloc); ok {
				return "local:" + a.Comment
			}
		}
	case *ssa.Field:
		if fv := fieldVar(v.X.Type(), v.Field); fv != nil {
			return "field:" + typeNameOf(v.X) + "." + fv.Name()
		}
	case *ssa.Call:
		cc := v.Common()
		if cc.IsInvoke() {
			return "call:iface." + cc.Method.Name()
		}
		if f := cc.StaticCallee(); f != nil {
			recv := ""
			if len(cc.Args) > 0 {
				recv = fieldPath(cc.Args[0])
			}
			name := f.Name()
			if rt := recvTypeName(f); rt != "" {
				name = rt + "." + name
			} else if f.Pkg != nil && f.Pkg.Pkg.Path() != rootPkg {
				name = f.Pkg.Pkg.Name() + "." + name
			}
			return "call:" + name + "[" + recv + "]"
		}
		if b, ok := cc.Value.(*ssa.Builtin); ok {
			arg := ""
			if len(cc.Args) > 0 {
				arg = atomOf(cc.Args[0])
			}
			return "builtin:" + b.Name() + "(" + arg + ")"
		}
		// dynamic: through a field?
		if _, fv := loadedField(cc.Value); fv != nil {
			return "dyn:" + fv.Name()
		}
		return "dyn:?"
	case *ssa.Extract:
		return atomOf(v.Tuple) + "#" + fmt.Sprint(v.Index)
	case *ssa.TypeAssert:
		return "typeassert:" + v.AssertedType.String() + "(" + atomOf(v.X) + ")"
	case *ssa.Lookup:
		return "lookup(" + atomOf(v.X) + ")"
	}
	return fmt.Sprintf("%T", v)
}

func typeNameOf(v ssa.Value) string {
	t := v.Type()
	for i := 0; i < 3; i++ {
		s := t.String()
		if j := strings.LastIndex(s, "."); j >= 0 {
			s = s[j+1:]
		}
		s = strings.TrimLeft(s, "*")
		if s != "" {
			return s
		}
	}
	return "?"
}

// condAtoms computes the set of elementary operands a boolean (or any) value
// depends on inside its function: through phis (including the branch
// conditions that select a phi's constant operands, i.e. lowered && / ||),
// unary/binary operators, conversions and extracts.
func condAtoms(v ssa.Value) map[string]bool {
	return condAtomsDepth(v, 2)
}

// condAtomsDepth additionally looks into module functions with a single bool
// result (to the given inlining depth): the atoms their returned value depends
// on count as atoms of the call, so that extracting part of a condition into a
// helper does not change what the condition is seen to depend on.
func condAtomsDepth(v ssa.Value, inline int) map[string]bool {
	out := map[string]bool{}
	seen := map[ssa.Value]bool{}
	var walk func(v ssa.Value, depth int)
	ctrl := func(b *ssa.BasicBlock, depth int) {
		// conditions controlling block b: the If of b itself when it ends in one is
		// handled by the caller; here: the Ifs of dominators one of whose
		// successors dominates b (up to 3 levels)
		// a block entered from several branches (the body of 'if a || b') depends on each of their conditions
		if len(b.Preds) > 1 {
			for _, pr := range b.Preds {
				if ifi, ok := pr.Instrs[len(pr.Instrs)-1].(*ssa.If); ok {
					walk(ifi.Cond, depth+1)
				}
			}
		}
		cur := b
		for lvl := 0; lvl < 3 && cur != nil; lvl++ {
			d := cur.Idom()
			if d == nil {
				return
			}
			if ifi, ok := d.Instrs[len(d.Instrs)-1].(*ssa.If); ok {
				for _, s := range d.Succs {
					if s == cur || s.Dominates(cur) {
						walk(ifi.Cond, depth+1)
						break
					}
				}
			}
			cur = d
			if len(d.Preds) > 1 {
				return
			}
		}
	}
	walk = func(v ssa.Value, depth int) {
		if v == nil || seen[v] || depth > 14 {
			return
		}
		seen[v] = true
		switch w := v.(type) {
		case *ssa.Phi:
			for i, e := range w.Edges {
				pred := w.Block().Preds[i]
				if _, isC := e.(*ssa.Const); isC {
					// which condition selected this constant?
					if ifi, ok := pred.Instrs[len(pred.Instrs)-1].(*ssa.If); ok {
						walk(ifi.Cond, depth+1)
					} else {
						ctrl(pred, depth)
					}
				} else {
					walk(e, depth+1)
					if ifi, ok := pred.Instrs[len(pred.Instrs)-1].(*ssa.If); ok {
						walk(ifi.Cond, depth+1)
					}
				}
			}
		case *ssa.BinOp:
			walk(w.X, depth+1)
			walk(w.Y, depth+1)
		case *ssa.UnOp:
			if w.Op == token.MUL {
				out[atomOf(w)] = true
				return
			}
			walk(w.X, depth+1)
		case *ssa.Convert:
			walk(w.X, depth+1)
		case *ssa.ChangeType:
			walk(w.X, depth+1)
		case *ssa.ChangeInterface:
			walk(w.X, depth+1)
		case *ssa.MakeInterface:
			walk(w.X, depth+1)
		case *ssa.Extract:
			out[atomOf(w)] = true
			walk(w.Tuple, depth+1)
		case *ssa.Call:
			out[atomOf(w)] = true
			// a getter (every return is a load of one field of its receiver, possibly taken under a lock) stands for
			// that field: moving a read behind such a method does not change what a condition depends on
			if u := getterLoad(w); u != nil {
				out[atomOf(u)] = true
			}
			if f := w.Call.StaticCallee(); f != nil && inline > 0 && inModule(f) && f.Blocks != nil &&
				f.Signature.Results().Len() == 1 && isBool(f.Signature.Results().At(0).Type()) {
				for _, b := range f.Blocks {
					if rt, ok := b.Instrs[len(b.Instrs)-1].(*ssa.Return); ok {
						for _, rv := range returnResults(rt) {
							for a := range condAtomsDepth(rv, inline-1) {
								out[a] = true
							}
						}
						// early "return true/false" under a condition: the controlling conditions count too
						for _, g := range guardsOfDepth(b, inline-1) {
							out[g.Atom] = true
						}
					}
				}
			}
		default:
			out[atomOf(v)] = true
		}
	}
	walk(v, 0)
	return out
}

type guardAtom struct {
	Atom string
	Pol  bool // the edge taken towards the guarded block
	Cond ssa.Value
}

// guardsOf lists the branch conditions block b is control-dependent on through
// its dominator chain: for every dominator ending in an If one of whose
// successors dominates b (or is b), the condition's atoms with the polarity of
// that edge.
func guardsOf(b *ssa.BasicBlock) []guardAtom { return guardsOfDepth(b, 2) }

func guardsOfDepth(b *ssa.BasicBlock, inline int) []guardAtom {
	var out []guardAtom
	cur := b
	for {
		d := cur.Idom()
		if d == nil {
			break
		}
		if ifi, ok := d.Instrs[len(d.Instrs)-1].(*ssa.If); ok {
			t, f := d.Succs[0], d.Succs[1]
			td := t == b || (t.Dominates(b) && len(t.Preds) == 1)
			fd := f == b || (f.Dominates(b) && len(f.Preds) == 1)
			if t == b && len(b.Preds) > 1 {
				td = false
			}
			if f == b && len(b.Preds) > 1 {
				fd = false
			}
			if td != fd {
				for a := range condAtomsDepth(ifi.Cond, inline) {
					out = append(out, guardAtom{Atom: a, Pol: td, Cond: ifi.Cond})
				}
			}
		}
		cur = d
	}
	return out
}

func atomsList(m map[string]bool) string {
	var ks []string
	for k := range m {
		ks = append(ks, k)
	}
	sort.Strings(ks)
	return strings.Join(ks, ", ")
}

func hasAtomPrefix(m map[string]bool, prefix string) bool {
	for k := range m {
		if strings.HasPrefix(k, prefix) {
			return true
		}
	}
	return false
}

func hasAtomContaining(m map[string]bool, sub string) bool {
	for k := range m {
		if strings.Contains(k, sub) {
			return true
		}
	}
	return false
}

// loopHeaderOf returns the innermost loop header that contains block b: the
// closest dominator H of b that has a predecessor dominated by H (back edge)
// from which b... (natural loop membership: b reaches that predecessor).
func loopHeaderOf(b *ssa.BasicBlock) *ssa.BasicBlock {
	for h := b; h != nil; h = h.Idom() {
		for _, p := range h.Preds {
			if h.Dominates(p) && (p == b || b == h || blockReaches(b, p, map[*ssa.BasicBlock]bool{h: true}) || p == b) {
				return h
			}
		}
	}
	return nil
}

// inLoop reports whether block b belongs to the natural loop of header h.
func inLoop(h, b *ssa.BasicBlock) bool {
	if b == h {
		return true
	}
	if !h.Dominates(b) {
		return false
	}
	for _, p := range h.Preds {
		if h.Dominates(p) && (p == b || blockReaches(b, p, map[*ssa.BasicBlock]bool{h: true})) {
			return true
		}
	}
	return false
}

// getterLoad: c calls a module method all of whose returns hand back one and the same load of a field of the
// receiver (directly or through a local it was copied to); the load is returned.
func getterLoad(c *ssa.Call) *ssa.UnOp {
	f := c.Call.StaticCallee()
	if f == nil || !inModule(f) || f.Blocks == nil || f.Signature.Recv() == nil || f.Signature.Results().Len() != 1 || len(f.Params) != 1 {
		return nil
	}
	var got *ssa.UnOp
	for _, b := range f.Blocks {
		rt, ok := b.Instrs[len(b.Instrs)-1].(*ssa.Return)
		if !ok {
			continue
		}
		if len(rt.Results) != 1 {
			return nil
		}
		u, ok := rt.Results[0].(*ssa.UnOp)
		if !ok || u.Op != token.MUL {
			return nil
		}
		fa, ok := u.X.(*ssa.FieldAddr)
		if !ok || fa.X != ssa.Value(f.Params[0]) {
			return nil
		}
		if got != nil && got != u {
			return nil
		}
		got = u
	}
	return got
}

// timeoutResponseOf: v is the ctx's timeout response - the field load itself or a getter call for it.
func isFieldOrGetter(v ssa.Value, field string) bool {
	if _, fv := loadedField(v); fv != nil && fv.Name() == field {
		return true
	}
	if c, ok := v.(*ssa.Call); ok {
		if u := getterLoad(c); u != nil {
			if _, fv := loadedField(u); fv != nil && fv.Name() == field {
				return true
			}
		}
	}
	return false
}
