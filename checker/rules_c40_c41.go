package main

// C40 (LBClient selection and penalties) and C41 (TCPDialer concurrency and deadlines).

import (
	"fmt"
	"go/token"
	"go/types"
	"sort"
	"strconv"
	"strings"

	"golang.org/x/tools/go/ssa"
)

func init() {
	register(&propDef{
		id:      "C40",
		explain: "Structural necessary conditions of 'LBClient routes to the least loaded client, bounds penalties and never panics': (R1) in the selection loop of LBClient.get the selected client and the keys recorded for it (its load and its completed-request total) are replaced together on every path of an iteration - a candidate recorded with the keys of another client makes later comparisons wrong; the selection condition depends on both keys; (E1) penalty pairing: incPenalty keeps one unit exactly when it returns true (taken by an atomic add, given back when the bound is exceeded, or by a compare-and-swap; at every 'kept' return the comparisons guarding it bound the counter after the increment by maxPenalty), and the caller schedules exactly one decrement for every unit kept, on every path; (R3) get returns nil exactly when there is no client, every caller tests for nil and reports ErrNoAvailableClients, and no explicit panic is reachable through static calls from the Do* methods. (R4) every assignment of the candidate list LBClient.cs derives from the list's own previous content (append / filter / reslice), so the lazy initialisation cannot drop clients registered through AddClient before the first call. (E8) LBClient.cs is accessed under LBClient.mu only and its elements only through a header taken while the lock is held. Not decided: optimality of the choice under concurrent updates, timing of the 3 s penalty expiry.",
		run:     runC40,
	})
	register(&propDef{
		id:      "C41",
		explain: "Structural necessary conditions of 'TCPDialer bounds concurrent dials and returns ErrDialTimeout by the deadline': (E1) the dial semaphore is paired: when a concurrency channel exists every path to the dial has acquired a slot (fast or waiting send) and the release is deferred exactly on those paths; the waiting acquisition is a select that includes a timer armed with the remaining time, and its timeout path returns ErrDialTimeout without holding a slot; (R2) the context that bounds the connect is built from the absolute deadline (or from a duration computed after the slot was acquired), so time spent waiting for a slot is not granted again; (R3) every ErrDialTimeout (and every other dial error) leaves tryDial wrapped with the upstream address; (R4) the rotation loop of dial advances the address index after every failed attempt, is counted from a constant (one attempt per resolved address wherever the rotation starts) and stops on ErrDialTimeout; (R5) a failed connect is classified as a timeout by the deadline itself, not only by the context's state. (R6) every tryDial call in TCPDialer.dial is reached only after the once.Do whose body creates the concurrency channel, on every configuration branch; (R7) when address resolution fails, dial returns the raw resolver error only on a path that examined the deadline, and ErrDialTimeout wrapped with the upstream address otherwise; (R8) a TCPDialer routine that received the dial deadline hands it on to the resolving / connecting routines unchanged: followed through merges the argument is its own deadline parameter on every edge. Not decided: real timing, resolver behaviour, the DNS cache (C37).",
		run:     runC41,
	})
}

func runC40(p *Prog, r *Report) {
	get := p.Func("(*LBClient).get")
	if get == nil {
		r.Undecided("R1", "(*LBClient).get", "not found")
		return
	}
	// the selection loop: header with a phi of type *lbClient
	var header *ssa.BasicBlock
	var candPhi *ssa.Phi
	for _, b := range get.Blocks {
		for _, in := range b.Instrs {
			ph, ok := in.(*ssa.Phi)
			if !ok {
				break
			}
			if strings.HasSuffix(ph.Type().String(), "lbClient") && loopHeaderOf(b) == b {
				header, candPhi = b, ph
			}
		}
	}
	if header == nil {
		r.Undecided("R1", "LBClient.get selection loop", "no loop-carried candidate of type *lbClient")
		return
	}
	var keyPhis []*ssa.Phi
	for _, in := range header.Instrs {
		ph, ok := in.(*ssa.Phi)
		if !ok {
			break
		}
		if ph == candPhi || !isIntType(ph.Type()) {
			continue
		}
		// a key: assigned somewhere in the loop from something other than itself+1 (the range index)
		isIndex := false
		for i, e := range ph.Edges {
			if inLoop(header, header.Preds[i]) {
				if bo, ok := e.(*ssa.BinOp); ok && bo.Op == token.ADD && bo.X == ssa.Value(ph) {
					isIndex = true
				}
			}
		}
		if !isIndex {
			keyPhis = append(keyPhis, ph)
		}
	}
	r.Floor("R1", "keys recorded with the selected client", len(keyPhis), 2)
	n, bad := 0, 0
	var wit []string
	detail := ""
	x := NewExplorer(p, get, Hooks{
		PreEdge: func(x *Explorer, st *State, from, to *ssa.BasicBlock) {
			if to != header || !inLoop(header, from) {
				return
			}
			idx := -1
			for i, pr := range header.Preds {
				if pr == from {
					idx = i
				}
			}
			changed := func(ph *ssa.Phi) bool {
				// follow the values taken on this path, stopping at the loop-carried variable itself
				v := ph.Edges[idx]
				for i := 0; i < 10; i++ {
					if v == ssa.Value(ph) {
						return false
					}
					if _, isPhi := v.(*ssa.Phi); !isPhi {
						return true
					}
					k, ok := st.ali[x.Canon(v)]
					if !ok {
						return true
					}
					nv := x.byKey[k]
					if nv == nil {
						return true
					}
					v = nv
				}
				return true
			}
			n++
			if changed(candPhi) {
				for _, k := range keyPhis {
					if !changed(k) {
						bad++
						if wit == nil {
							wit = x.Path(st)
							detail = "the candidate is replaced on this path but its recorded key '" + k.Comment + "' keeps the value of the previous candidate"
						}
					}
				}
			} else {
				for _, k := range keyPhis {
					if changed(k) {
						bad++
						if wit == nil {
							wit = x.Path(st)
							detail = "the recorded key '" + k.Comment + "' is replaced on this path but the candidate is not"
						}
					}
				}
			}
		},
	})
	x.AliasPhis = map[*ssa.Phi]bool{}
	for _, b := range get.Blocks {
		for _, in := range b.Instrs {
			if ph, ok := in.(*ssa.Phi); ok {
				x.AliasPhis[ph] = true
			}
		}
	}
	x.Filter = func(k string) bool { return false }
	x.Run(nil)
	r.Check("R1", "LBClient.get: the selected client and the keys recorded for it are replaced together on every path of the selection loop", bad == 0 && n > 0, p.Pos(candPhi.Pos()),
		fmt.Sprintf("%s (%d violations over %d explored loop iterations)", detail, bad, n), wit...)
	// the selection condition depends on both keys
	{
		at := map[string]bool{}
		for _, b := range get.Blocks {
			if !inLoop(header, b) {
				continue
			}
			if ifi, ok := b.Instrs[len(b.Instrs)-1].(*ssa.If); ok {
				for a := range condAtoms(ifi.Cond) {
					at[a] = true
				}
			}
		}
		r.Check("R1", "LBClient.get: the selection depends on the pending+penalty load and on the completed-request total", hasAtomContaining(at, "PendingRequests") && (hasAtomContaining(at, "LoadUint64") || hasAtomContaining(at, "total")), p.Pos(get.Pos()), "atoms of the loop's conditions: "+atomsList(at))
	}
	// ---- penalties ----
	inc := p.Func("(*lbClient).incPenalty")
	dec := p.Func("(*lbClient).decPenalty")
	dd := p.Func("(*lbClient).DoDeadline")
	if inc == nil || dec == nil || dd == nil {
		r.Undecided("E1", "incPenalty / decPenalty / lbClient.DoDeadline", "not found")
	} else {
		names := [4]string{"lbClient.penalty", "", "", ""}
		addDelta := func(c ssa.CallInstruction) (int8, bool) {
			f := c.Common().StaticCallee()
			if f == nil || f.Pkg == nil || f.Pkg.Pkg.Path() != "sync/atomic" || !strings.HasPrefix(f.Name(), "Add") {
				return 0, false
			}
			if fieldPathLast(c.Common().Args[0]) != "penalty" {
				return 0, false
			}
			if cst, ok := c.Common().Args[len(c.Common().Args)-1].(*ssa.Const); ok && cst.Value != nil {
				switch cst.Value.ExactString() {
				case "1":
					return 1, true
				case "4294967295":
					return -1, true
				}
			}
			return 0, false
		}
		eff := func(x *Explorer, st *State, c ssa.CallInstruction) (pairDelta, bool) {
			var d pairDelta
			if k, ok := addDelta(c); ok {
				d[0] = k
				return d, true
			}
			if isCallTo(c, dec) {
				d[0] = -1
				return d, true
			}
			return d, false
		}
		sp := &pairSpec{rule: "E1", what: "decPenalty gives back exactly one penalty unit", fn: dec, tokens: names, min: -2, max: 2, effect: eff,
			expect: func(x *Explorer, st *State, ret *ssa.Return) (pairDelta, [4]bool, bool) {
				return pairDelta{-1, 0, 0, 0}, [4]bool{true}, true
			}}
		runPairing(p, sp).report(p, r, sp)
		sp2 := &pairSpec{rule: "E1", what: "incPenalty keeps one penalty unit exactly when it returns true", fn: inc, tokens: names, min: -2, max: 2, effect: eff,
			expect: func(x *Explorer, st *State, ret *ssa.Return) (pairDelta, [4]bool, bool) {
				rr := returnResults(ret)
				switch staticAbs(rr[0]) {
				case True:
					return pairDelta{1, 0, 0, 0}, [4]bool{true}, true
				case False:
					return pairDelta{0, 0, 0, 0}, [4]bool{true}, true
				}
				return pairDelta{-99}, [4]bool{true}, true
			}}
		// a unit may also be taken by a successful compare-and-swap of the counter from m to m+1
		casNew := func(v ssa.Value) (ssa.Value, bool) {
			c, ok := v.(*ssa.Call)
			if !ok {
				return nil, false
			}
			f := c.Call.StaticCallee()
			if f == nil || f.Pkg == nil || f.Pkg.Pkg.Path() != "sync/atomic" || !strings.HasPrefix(f.Name(), "CompareAndSwap") || len(c.Call.Args) != 3 {
				return nil, false
			}
			if fieldPathLast(c.Call.Args[0]) != "penalty" {
				return nil, false
			}
			if bo, ok := c.Call.Args[2].(*ssa.BinOp); ok && bo.Op == token.ADD && bo.X == c.Call.Args[1] {
				if k, isK := constInt(bo.Y); isK && k == 1 {
					return bo, true
				}
			}
			return nil, false
		}
		sp2.branch = func(x *Explorer, st *State, cond ssa.Value, taken bool, from *ssa.BasicBlock) {
			pos, v := stripNot(cond)
			if _, ok := casNew(v); ok && taken == pos {
				st.N[0]++
			}
		}
		runPairing(p, sp2).report(p, r, sp2)
		// the bound: wherever incPenalty reports that it kept the unit, the counter's value after the increment is at
		// most maxPenalty - decided from the comparisons that guard the 'true' return (an upper bound of the value
		// tested, plus the step when the tested value is the one before the increment)
		bound := int64(-1)
		if cv, ok := constOfObj(p.byPath[rootPkg].Types, "maxPenalty"); ok {
			if v, err := strconv.ParseInt(cv.ExactString(), 10, 64); err == nil {
				bound = v
			}
		}
		// the post-increment value: the result of the atomic add, or the new value of the compare-and-swap
		var posts []ssa.Value
		for _, b := range inc.Blocks {
			for _, in := range b.Instrs {
				if c, ok := in.(*ssa.Call); ok {
					if k, isAdd := addDelta(c); isAdd && k == 1 {
						posts = append(posts, c)
					}
					if nv, isCas := casNew(c); isCas {
						posts = append(posts, nv)
					}
				}
			}
		}
		nkept, boundOK := 0, bound > 0 && len(posts) > 0
		detail := ""
		for _, b := range inc.Blocks {
			rt, ok := b.Instrs[len(b.Instrs)-1].(*ssa.Return)
			if !ok {
				continue
			}
			rr := returnResults(rt)
			if len(rr) != 1 || staticAbs(rr[0]) != True {
				continue
			}
			nkept++
			for _, post := range posts {
				// upper bound of post from the guards of this return
				base, step := post, int64(0)
				if bo, ok := post.(*ssa.BinOp); ok && bo.Op == token.ADD {
					if k, isK := constInt(bo.Y); isK {
						base, step = bo.X, k
					}
				}
				ub := int64(1) << 40
				for _, g := range guardsOf(b) {
					bo, ok := g.Cond.(*ssa.BinOp)
					if !ok || bo.X != base {
						continue
					}
					k, isK := constInt(bo.Y)
					if !isK {
						continue
					}
					switch {
					case bo.Op == token.GTR && !g.Pol, bo.Op == token.LEQ && g.Pol:
						if k < ub {
							ub = k
						}
					case bo.Op == token.GEQ && !g.Pol, bo.Op == token.LSS && g.Pol:
						if k-1 < ub {
							ub = k - 1
						}
					}
				}
				if ub+step > bound {
					boundOK = false
					detail = fmt.Sprintf("at the 'kept' return the counter after the increment can be as large as %d (tested value <= %d, step %d), the bound is %d", ub+step, ub, step, bound)
					if ub >= int64(1)<<40 {
						detail = "the 'kept' return is not guarded by an upper bound on the counter"
					}
				}
			}
		}
		r.Check("E1", "incPenalty keeps a unit only while the counter, the new unit included, does not exceed maxPenalty", boundOK && nkept > 0, p.Pos(inc.Pos()), detail)
		// DoDeadline: every kept unit schedules exactly one decrement
		nret, badp := 0, 0
		var witp []string
		xp := NewExplorer(p, dd, Hooks{
			Branch: func(x *Explorer, st *State, cond ssa.Value, taken bool, from *ssa.BasicBlock) {
				pos, v := stripNot(cond)
				if c, ok := v.(*ssa.Call); ok && isCallTo(c, inc) && taken == pos {
					st.N[0]++
				}
			},
			Instr: func(x *Explorer, st *State, in ssa.Instruction) {
				c, ok := in.(*ssa.Call)
				if !ok {
					return
				}
				if f := c.Call.StaticCallee(); f != nil && f.Name() == "AfterFunc" && len(c.Call.Args) == 2 {
					// the scheduled function is the bound method decPenalty
					if mc, ok := c.Call.Args[1].(*ssa.MakeClosure); ok {
						if bf, ok := mc.Fn.(*ssa.Function); ok && strings.Contains(bf.Name(), "decPenalty") {
							st.N[0]--
						}
					}
				}
			},
			Exit: func(x *Explorer, st *State, ret *ssa.Return, pan *ssa.Panic) {
				if ret == nil {
					return
				}
				nret++
				if st.N[0] != 0 {
					badp++
					if witp == nil {
						witp = x.Path(st)
					}
				}
			},
		})
		xp.Filter = noIntFilter
		xp.Run(nil)
		r.Check("E1", "lbClient.DoDeadline schedules exactly one decrement for every penalty unit it keeps", badp == 0 && nret > 0, p.Pos(dd.Pos()),
			fmt.Sprintf("%d of %d explored returns leave a kept penalty without a scheduled decPenalty (it would never expire) or schedule one without a kept unit (the counter underflows)", badp, nret), witp...)
	}
	// ---- R3: nil on empty, callers test it, no panic reachable ----
	{
		okNil := false
		for _, b := range get.Blocks {
			if rt, ok := b.Instrs[len(b.Instrs)-1].(*ssa.Return); ok {
				for _, rv := range returnResults(rt) {
					if isNilConst(rv) {
						for _, g := range guardsOf(b) {
							if strings.Contains(g.Atom, "builtin:len") {
								okNil = true
							}
						}
					}
				}
			}
		}
		r.Check("R3", "LBClient.get returns nil when the client list is empty", okNil, p.Pos(get.Pos()), "no 'return nil' controlled by a length test of the client list: cs[0] would panic on an empty list")
		ncall := 0
		for _, fn := range p.funcsIn("") {
			allCalls(fn, func(b *ssa.BasicBlock, c ssa.CallInstruction) {
				cv, ok := c.(*ssa.Call)
				if !ok || !isCallTo(cv, get) {
					return
				}
				ncall++
				tested := false
				for _, ref := range *cv.Referrers() {
					if bo, ok := ref.(*ssa.BinOp); ok && (isNilConst(bo.X) || isNilConst(bo.Y)) {
						tested = true
					}
				}
				r.Check("R3", funcName(fn)+" tests the selected client for nil", tested, p.Pos(c.Pos()), "the result of get() is used without a nil test: a call with no clients would dereference nil")
			})
		}
		r.Floor("R3", "callers of LBClient.get", ncall, 2)
		var roots []*ssa.Function
		for _, nme := range []string{"(*LBClient).Do", "(*LBClient).DoTimeout", "(*LBClient).DoDeadline"} {
			if f := p.Func(nme); f != nil {
				roots = append(roots, f)
			}
		}
		panics := map[string]bool{}
		seen := map[*ssa.Function]bool{}
		var walk func(f *ssa.Function, d int)
		walk = func(f *ssa.Function, d int) {
			if f == nil || seen[f] || d > 6 || !inModule(f) || f.Blocks == nil {
				return
			}
			seen[f] = true
			// stay inside lbclient.go: calls through the BalancingClient interface are user code
			if !strings.HasSuffix(p.Fset.Position(f.Pos()).Filename, "/lbclient.go") {
				return
			}
			for _, b := range f.Blocks {
				for _, in := range b.Instrs {
					switch w := in.(type) {
					case *ssa.Panic:
						panics[funcName(f)] = true
					case ssa.CallInstruction:
						walk(w.Common().StaticCallee(), d+1)
						for _, a := range w.Common().Args {
							if mc, ok := a.(*ssa.MakeClosure); ok {
								if cf, ok := mc.Fn.(*ssa.Function); ok {
									walk(cf, d+1)
								}
							}
							if cf, ok := a.(*ssa.Function); ok {
								walk(cf, d+1)
							}
						}
					}
				}
			}
		}
		for _, f := range roots {
			walk(f, 0)
		}
		r.Check("R3", "no explicit panic is reachable from LBClient.Do / DoTimeout / DoDeadline inside lbclient.go", len(panics) == 0 && len(roots) == 3, p.Pos(get.Pos()), "panic statements in: "+joinSorted(panics))
	}
	// R4: the candidate list only ever changes from its own previous content. The list is filled lazily on the first
	// call, after AddClient may already have appended to it: an assignment that does not derive from the list itself
	// silently drops candidates (an idle client that is never considered, or "no available clients" with one added).
	{
		n := 0
		for _, fn := range p.funcsIn("") {
			for _, b := range fn.Blocks {
				for _, in := range b.Instrs {
					st, ok := in.(*ssa.Store)
					if !ok {
						continue
					}
					fa, ok := st.Addr.(*ssa.FieldAddr)
					if !ok || typeNameOf(fa.X) != "LBClient" || fieldName(fa.X.Type(), fa.Field) != "cs" {
						continue
					}
					n++
					derives := false
					for _, b2 := range fn.Blocks {
						for _, in2 := range b2.Instrs {
							if u, ok := in2.(*ssa.UnOp); ok {
								if _, fv := loadedField(u); fv != nil && fv == fieldVar(fa.X.Type(), fa.Field) && derivesFromValue(st.Val, u) {
									derives = true
								}
							}
						}
					}
					r.Check("R4", funcName(fn)+": the candidate list is assigned only from its own previous content (append, filter, reslice)", derives, p.Pos(st.Pos()),
						"LBClient.cs is replaced by a value that does not derive from LBClient.cs: clients registered before (AddClient may run before the lazy initialisation) stop being candidates, so a call is routed to a busier client, or fails with ErrNoAvailableClients, while an idle one exists")
				}
			}
		}
		r.Floor("R4", "assignments of the LBClient candidate list", n, 3)
	}
	// E8: the candidate list is scanned under the lock that RemoveClients compacts it under: the list field is accessed
	// under LBClient.mu only, and its elements only through a header taken while the lock is held - a header kept past
	// the unlock reads slots that a concurrent removal has shifted or cleared (a nil client, a removed one)
	checkLockset(p, r, "E8", &lockTable{
		guards:      map[string]string{"LBClient.cs": "LBClient.mu"},
		heldOnEntry: map[string][]string{},
		exempt:      map[string]string{},
	}, nil)
}

// semaphoreCreatedBeforeDial (C41.R6): the concurrency bound is a channel created lazily, once, from the
// Concurrency field; tryDial skips the bound when the channel is nil. Every path of TCPDialer.dial to a tryDial
// call therefore passes the once.Do that creates it - whatever configuration branch it took before.
func semaphoreCreatedBeforeDial(p *Prog, r *Report) {
	dial := p.Func("(*TCPDialer).dial")
	try := p.Func("(*TCPDialer).tryDial")
	if dial == nil || try == nil {
		r.Undecided("R6", "(*TCPDialer).dial / tryDial", "not found")
		return
	}
	isOnce := func(i ssa.Instruction) bool {
		c, ok := i.(ssa.CallInstruction)
		if !ok || c.Common().StaticCallee() == nil || c.Common().StaticCallee().Name() != "Do" || recvTypeName(c.Common().StaticCallee()) != "Once" {
			return false
		}
		fa, ok := c.Common().Args[0].(*ssa.FieldAddr)
		return ok && typeNameOf(fa.X) == "TCPDialer"
	}
	// the once body is what creates the channel
	creates := false
	for _, an := range dial.AnonFuncs {
		for _, b := range an.Blocks {
			for _, in := range b.Instrs {
				if st, ok := in.(*ssa.Store); ok {
					if _, fv := fieldOfAddr(st.Addr); fv != nil && fv.Name() == "concurrencyCh" {
						creates = true
					}
				}
			}
		}
	}
	n := 0
	for _, b := range dial.Blocks {
		for _, in := range b.Instrs {
			c, ok := in.(ssa.CallInstruction)
			if !ok || c.Common().StaticCallee() != try {
				continue
			}
			n++
			hit, path := reachAvoiding(dial, nil, func(i ssa.Instruction) bool { return i == in }, isOnce, nil)
			r.Check("R6", fmt.Sprintf("TCPDialer.dial: tryDial call #%d is reached only after the once.Do that creates the concurrency channel", n), hit == nil && creates, p.Pos(in.Pos()),
				"a dial attempt is reachable without the lazy initialisation: the concurrency channel is still nil there and tryDial skips the bound, so with that configuration any number of dials run at once", blocksString(p, path)...)
		}
	}
	r.Floor("R6", "tryDial calls in TCPDialer.dial", n, 2)
}

// resolverTimeoutClassified (C41.R7): the dial timeout also covers the resolver. When address resolution fails in
// TCPDialer.dial, the raw resolver error is returned only on a path that examined the deadline (a comparison of
// the error with context.DeadlineExceeded, or of the clock with the deadline); otherwise a resolver that hangs until
// the deadline surfaces as a bare context error instead of ErrDialTimeout wrapped with the upstream address.
func resolverTimeoutClassified(p *Prog, r *Report) {
	dial := p.Func("(*TCPDialer).dial")
	get := p.Func("(*TCPDialer).getTCPAddrs")
	if dial == nil || get == nil {
		r.Undecided("R7", "(*TCPDialer).dial / getTCPAddrs", "not found")
		return
	}
	var call *ssa.Call
	allCalls(dial, func(b *ssa.BasicBlock, c ssa.CallInstruction) {
		if cv, ok := c.(*ssa.Call); ok && c.Common().StaticCallee() == get {
			call = cv
		}
	})
	if call == nil {
		r.Undecided("R7", "TCPDialer.dial: call of getTCPAddrs", "not found")
		return
	}
	n, bad, wrapped := 0, []string{}, false
	for _, b := range dial.Blocks {
		rt, ok := b.Instrs[len(b.Instrs)-1].(*ssa.Return)
		if !ok || len(rt.Results) < 2 {
			continue
		}
		ev := rt.Results[1]
		if derivesFromValue(ev, call) {
			if cv, ok := ev.(*ssa.Call); ok && cv.Call.StaticCallee() != nil && cv.Call.StaticCallee().Name() == "wrapDialWithUpstream" {
				if globalOf(cv.Call.Args[0]) == "ErrDialTimeout" {
					wrapped = true
				}
				continue
			}
			if ex, ok := ev.(*ssa.Extract); !ok || ex.Tuple != ssa.Value(call) {
				continue
			}
			n++
			examined := false
			for _, g := range guardsOfDepth(b, 1) {
				if strings.Contains(g.Atom, "DeadlineExceeded") || strings.Contains(g.Atom, "Time.Before") || strings.Contains(g.Atom, "Time.After") || strings.Contains(g.Atom, "time.Until") || strings.Contains(g.Atom, "time.Since") {
					examined = true
				}
			}
			if !examined {
				bad = append(bad, p.Pos(rt.Pos()))
			}
		}
		if cv, ok := ev.(*ssa.Call); ok && cv.Call.StaticCallee() != nil && cv.Call.StaticCallee().Name() == "wrapDialWithUpstream" && globalOf(cv.Call.Args[0]) == "ErrDialTimeout" {
			for _, g := range guardsOfDepth(b, 1) {
				if strings.Contains(g.Atom, "getTCPAddrs") {
					wrapped = true
				}
			}
		}
	}
	sort.Strings(bad)
	r.Check("R7", "TCPDialer.dial: a resolver failure is returned as it is only after the deadline was examined, and as ErrDialTimeout otherwise", len(bad) == 0 && wrapped && n > 0, p.Pos(call.Pos()),
		fmt.Sprintf("raw resolver error returned without a deadline test at: %s; a wrapped ErrDialTimeout on the resolver-failure branch: %v - a resolver that hangs until the dial deadline surfaces as 'context deadline exceeded' instead of ErrDialTimeout with the upstream address", strings.Join(bad, ", "), wrapped))
}

func runC41(p *Prog, r *Report) {
	semaphoreCreatedBeforeDial(p, r)
	resolverTimeoutClassified(p, r)
	deadlinePassedOnUnchanged(p, r)
	fn := p.Func("(*TCPDialer).tryDial")
	if fn == nil {
		r.Undecided("E1", "(*TCPDialer).tryDial", "not found")
		return
	}
	var chParam, deadlineParam *ssa.Parameter
	for _, prm := range fn.Params {
		if strings.HasPrefix(prm.Type().String(), "chan ") {
			chParam = prm
		}
		if strings.HasSuffix(prm.Type().String(), "time.Time") {
			deadlineParam = prm
		}
	}
	var dial ssa.CallInstruction
	allCalls(fn, func(b *ssa.BasicBlock, c ssa.CallInstruction) {
		if f := c.Common().StaticCallee(); f != nil && f.Name() == "DialContext" {
			dial = c
		}
	})
	if chParam == nil || deadlineParam == nil || dial == nil {
		r.Undecided("E1", "tryDial shape", "no channel parameter, deadline parameter or DialContext call")
		return
	}
	const (
		bSlot uint64 = 1 << iota
		bDeferRel
		bTimer
	)
	type tal struct {
		n, bad int
		wit    []string
		pos    string
	}
	obs := map[string]*tal{}
	note := func(x *Explorer, st *State, key string, ok bool, pos token.Pos) {
		t := obs[key]
		if t == nil {
			t = &tal{}
			obs[key] = t
		}
		t.n++
		if !ok {
			t.bad++
			if t.wit == nil {
				t.wit = x.Path(st)
				t.pos = p.Pos(pos)
			}
		}
	}
	// the channel parameter may live in a local (captured by the deferred release): its loads stand for it
	var chLoads []ssa.Value
	for _, b := range fn.Blocks {
		for _, in := range b.Instrs {
			if u, ok := in.(*ssa.UnOp); ok && u.Op == token.MUL && holdsVar(u.X, chParam) {
				chLoads = append(chLoads, u)
			}
		}
	}
	isRelClosure := func(d *ssa.Defer) bool {
		mc, ok := d.Call.Value.(*ssa.MakeClosure)
		if !ok {
			return false
		}
		cf, ok := mc.Fn.(*ssa.Function)
		if !ok {
			return false
		}
		rel := false
		for _, b := range cf.Blocks {
			for _, in := range b.Instrs {
				if u, ok := in.(*ssa.UnOp); ok && u.Op == token.ARROW {
					rel = true
				}
			}
		}
		return rel
	}
	x := NewExplorer(p, fn, Hooks{
		Instr: func(x *Explorer, st *State, in ssa.Instruction) {
			switch w := in.(type) {
			case *ssa.Select:
				if w.Blocking {
					hasTimer := false
					for _, s := range w.States {
						if strings.HasSuffix(fieldPath(s.Chan), "C") && s.Dir == 2 {
							hasTimer = true
						}
					}
					note(x, st, "the waiting acquisition of a dial slot is a select that includes a timer", hasTimer, w.Pos())
				}
			case *ssa.Defer:
				if isRelClosure(w) {
					note(x, st, "the slot release is deferred only on paths that hold a slot", st.Has(bSlot), w.Pos())
					st.Set(bDeferRel)
				}
			case *ssa.Call:
				if in == dial.(ssa.Instruction) {
					chNil := x.Eval(st, chParam) == False
					for _, l := range chLoads {
						if x.Eval(st, l) == False {
							chNil = true
						}
					}
					note(x, st, "the connect is reached holding a slot whenever a concurrency channel exists", chNil || st.Has(bSlot), w.Pos())
					note(x, st, "a held slot has its release deferred before the connect", !st.Has(bSlot) || st.Has(bDeferRel), w.Pos())
				}
			}
		},
		Branch: func(x *Explorer, st *State, cond ssa.Value, taken bool, from *ssa.BasicBlock) {
			sel, idx, ok := selectCase(cond, taken)
			if !ok {
				return
			}
			s := sel.States[idx]
			if s.Dir == 1 && sameVar(s.Chan, chParam) {
				st.Set(bSlot)
			}
			if s.Dir == 2 {
				st.Set(bTimer)
			}
		},
		Exit: func(x *Explorer, st *State, ret *ssa.Return, pan *ssa.Panic) {
			if ret == nil {
				return
			}
			rr := returnResults(ret)
			if len(rr) != 2 {
				return
			}
			if st.Has(bTimer) && !st.Has(bSlot) {
				note(x, st, "a slot wait that timed out returns ErrDialTimeout wrapped with the address", mentionsGlobal(rr[1], "ErrDialTimeout", 0) && isWrapCall(rr[1]), ret.Pos())
			}
			if !isNilConst(rr[1]) {
				note(x, st, "every error leaves tryDial wrapped with the upstream address", isWrapCall(rr[1]), ret.Pos())
			}
		},
	})
	x.Filter = func(k string) bool {
		return strings.HasPrefix(k, "ex0(") || strings.HasPrefix(k, "(") || strings.HasPrefix(k, "v<") || strings.HasPrefix(k, "p:") || strings.HasPrefix(k, "call<") || strings.HasPrefix(k, "ex") || strings.HasPrefix(k, "ld<") || strings.HasPrefix(k, "*(")
	}
	x.TrackAll = true
	x.Track(chParam)
	for _, l := range chLoads {
		x.Track(l)
	}
	x.Run(nil)
	for _, k := range sortedKeys(obs) {
		t := obs[k]
		rule := "E1"
		if strings.Contains(k, "wrapped") {
			rule = "R3"
		}
		r.Check(rule, "TCPDialer.tryDial: "+k, t.bad == 0, t.pos, fmt.Sprintf("%d of %d explored arrivals violate it", t.bad, t.n), t.wit...)
	}
	r.Floor("E1", "tryDial obligations reached", len(obs), 5)

	// ---- R2: the context bounding the connect ----
	{
		ok, detail := false, "the context passed to DialContext is not the result of context.WithDeadline / WithTimeout"
		ctxArg := dial.Common().Args[1]
		if ex, isEx := ctxArg.(*ssa.Extract); isEx {
			if c, isC := ex.Tuple.(*ssa.Call); isC {
				if f := c.Call.StaticCallee(); f != nil && f.Pkg != nil && f.Pkg.Pkg.Path() == "context" {
					switch f.Name() {
					case "WithDeadline":
						ok = c.Call.Args[1] == ssa.Value(deadlineParam)
						detail = "WithDeadline is not given the deadline parameter"
					case "WithTimeout":
						// the duration must be computed after the slot acquisition: its defining call is dominated by every select of the function
						dur := c.Call.Args[1]
						dc, isCall := dur.(*ssa.Call)
						ok = isCall
						detail = "WithTimeout is given a duration that was computed before the wait for a dial slot: the time spent waiting is granted again, so the call can take up to twice its timeout"
						if isCall {
							for _, b := range fn.Blocks {
								for _, in := range b.Instrs {
									if sel, isSel := in.(*ssa.Select); isSel && !dominatesInstr(sel, dc) {
										ok = false
									}
								}
							}
						}
					}
				}
			}
		}
		r.Check("R2", "TCPDialer.tryDial: the connect is bounded by the absolute deadline (not by a duration measured before the slot wait)", ok, p.Pos(dial.Pos()), detail)
	}
	// ---- R5: a connect that ran into the deadline is classified by the deadline, not only by the context's state ----
	{
		n := 0
		for _, b := range fn.Blocks {
			rt, ok := b.Instrs[len(b.Instrs)-1].(*ssa.Return)
			if !ok {
				continue
			}
			rr := returnResults(rt)
			if len(rr) != 2 || !mentionsGlobal(rr[1], "ErrDialTimeout", 0) {
				continue
			}
			// only the return that follows the connect
			if !dominatesInstr(dial.(ssa.Instruction), rt) {
				continue
			}
			n++
			at := map[string]bool{}
			if ifi := controllingIf(b); ifi != nil {
				for a := range condAtoms(ifi.Cond) {
					at[a] = true
				}
			}
			// block reached through || : collect the conditions of all predecessors
			for _, pr := range b.Preds {
				if ifi, ok := pr.Instrs[len(pr.Instrs)-1].(*ssa.If); ok {
					for a := range condAtoms(ifi.Cond) {
						at[a] = true
					}
				}
			}
			clock := hasAtomContaining(at, "Time.Before") || hasAtomContaining(at, "Time.After") || hasAtomContaining(at, "time.Until") || hasAtomContaining(at, "time.Since") || hasAtomContaining(at, "iface.Timeout")
			r.Check("R5", "TCPDialer.tryDial: a failed connect is classified as a timeout by the deadline (clock or the error's Timeout()), not only by the context's state", clock, p.Pos(rt.Pos()),
				"the ErrDialTimeout return after the connect depends only on: "+atomsList(at)+" - the socket deadline can fire before the context is marked done, and the raw network error is then reported instead of ErrDialTimeout")
		}
		r.Floor("R5", "ErrDialTimeout returns after the connect", n, 1)
	}
	// ---- R4: rotation loop in dial ----
	if df := p.Func("(*TCPDialer).dial"); df != nil {
		var try *ssa.Call
		allCalls(df, func(b *ssa.BasicBlock, c ssa.CallInstruction) {
			if cv, ok := c.(*ssa.Call); ok && isCallTo(cv, fn) && loopHeaderOf(b) != nil {
				try = cv
			}
		})
		if try == nil {
			r.Undecided("R4", "TCPDialer.dial rotation loop", "no tryDial call inside a loop")
		} else {
			// from one attempt to the next: the index increment is passed
			inc := func(in ssa.Instruction) bool {
				bo, ok := in.(*ssa.BinOp)
				if !ok || bo.Op != token.ADD {
					return false
				}
				k, okc := constInt(bo.Y)
				if !okc || k != 1 {
					return false
				}
				// the incremented value feeds the address index of the next attempt
				return derivesFromValue(try.Call.Args[2], bo) || reachesValue(bo, try.Call.Args[2])
			}
			hit, path := reachAvoiding(df, try, func(in ssa.Instruction) bool { return in == ssa.Instruction(try) }, inc, nil)
			r.Check("R4", "TCPDialer.dial advances the address index between attempts", hit == nil, p.Pos(try.Pos()), "the next attempt is reachable without incrementing the index: the same address would be retried and the others never tried", blocksString(p, path)...)
			// errors.Is(err, ErrDialTimeout) => return
			stop := false
			allCalls(df, func(b *ssa.BasicBlock, c ssa.CallInstruction) {
				if f := c.Common().StaticCallee(); f != nil && f.Name() == "Is" && len(c.Common().Args) == 2 && globalOf(c.Common().Args[1]) == "ErrDialTimeout" {
					stop = true
				}
			})
			r.Check("R4", "TCPDialer.dial stops rotating when an attempt timed out", stop, p.Pos(df.Pos()), "no errors.Is(err, ErrDialTimeout) test in the rotation loop")
			// every resolved address gets its turn: the loop is counted from a constant up to the number of addresses
			// (so it makes exactly that many attempts wherever the rotation starts), it is not bounded by the index itself
			full := false
			if h := loopHeaderOf(try.Block()); h != nil {
				for _, bb := range df.Blocks {
					if !inLoop(h, bb) {
						continue
					}
					iff, ok := bb.Instrs[len(bb.Instrs)-1].(*ssa.If)
					if !ok {
						continue
					}
					leaves := false
					for _, su := range bb.Succs {
						if !inLoop(h, su) {
							leaves = true
						}
					}
					_, cv := stripNot(iff.Cond)
					bo, ok := cv.(*ssa.BinOp)
					if !leaves || !ok || (bo.Op != token.LSS && bo.Op != token.GTR && bo.Op != token.LEQ && bo.Op != token.GEQ) {
						continue
					}
					for _, side := range []ssa.Value{bo.X, bo.Y} {
						// the counter: a header phi (possibly +1) whose entry value is a constant
						v := side
						if b2, ok := v.(*ssa.BinOp); ok && b2.Op == token.ADD {
							if _, isC := constInt(b2.Y); isC {
								v = b2.X
							}
						}
						ph, ok := v.(*ssa.Phi)
						if !ok || ph.Block() != h {
							continue
						}
						for i, pr := range h.Preds {
							if !h.Dominates(pr) {
								if _, isC := constInt(ph.Edges[i]); isC {
									full = true
								}
							}
						}
					}
				}
			}
			r.Check("R4", "TCPDialer.dial makes one attempt per resolved address wherever the rotation starts", full, p.Pos(try.Pos()),
				"the attempt loop is not counted from a constant: when the rotation starts in the middle of the list the addresses before that position are never tried, so a host with a live address is reported unreachable")
		}
	} else {
		r.Undecided("R4", "(*TCPDialer).dial", "not found")
	}
}

func isWrapCall(v ssa.Value) bool {
	v = stripMakeIface(v)
	if ph, ok := v.(*ssa.Phi); ok {
		for _, e := range ph.Edges {
			if !isWrapCall(e) {
				return false
			}
		}
		return true
	}
	c, ok := v.(*ssa.Call)
	if !ok {
		return false
	}
	f := c.Call.StaticCallee()
	return f != nil && f.Name() == "wrapDialWithUpstream"
}

// reachesValue: the value produced by from flows (through phis / binops / conversions) into to.
func reachesValue(from ssa.Value, to ssa.Value) bool {
	seen := map[ssa.Value]bool{}
	var walk func(v ssa.Value, d int) bool
	walk = func(v ssa.Value, d int) bool {
		if v == nil || seen[v] || d > 12 {
			return false
		}
		seen[v] = true
		if v == from {
			return true
		}
		switch w := v.(type) {
		case *ssa.Phi:
			for _, e := range w.Edges {
				if walk(e, d+1) {
					return true
				}
			}
		case *ssa.BinOp:
			return walk(w.X, d+1) || walk(w.Y, d+1)
		case *ssa.Convert:
			return walk(w.X, d+1)
		case *ssa.Call:
			for _, a := range w.Call.Args {
				if walk(a, d+1) {
					return true
				}
			}
			if w.Call.IsInvoke() {
				return walk(w.Call.Value, d+1)
			}
		case *ssa.UnOp:
			return walk(w.X, d+1)
		case *ssa.IndexAddr:
			return walk(w.X, d+1) || walk(w.Index, d+1)
		case *ssa.Index:
			return walk(w.X, d+1) || walk(w.Index, d+1)
		}
		return false
	}
	return walk(to, 0)
}

// deadlinePassedOnUnchanged (C41.R8): the dial deadline is one absolute point in time for the whole dial. A TCPDialer
// routine that received it as a parameter hands it on to the routines that resolve or connect (module functions
// with a time.Time parameter) as it is: followed back through merges, the argument is the routine's own deadline
// parameter on every edge. A later point in time substituted on some path ("give the shared DNS refresh at least
// the default timeout") lets that step outlast the caller's timeout.
func deadlinePassedOnUnchanged(p *Prog, r *Report) {
	isTime := func(t types.Type) bool { return t.String() == "time.Time" }
	n := 0
	for _, fn := range p.funcsIn("") {
		if fn.Blocks == nil || !(recvTypeName(fn) == "TCPDialer" || strings.Contains(strings.ToLower(fn.Name()), "tcpaddr")) {
			continue
		}
		var own *ssa.Parameter
		for _, prm := range fn.Params {
			if isTime(prm.Type()) {
				own = prm
			}
		}
		if own == nil {
			continue
		}
		allCalls(fn, func(b *ssa.BasicBlock, c ssa.CallInstruction) {
			f := c.Common().StaticCallee()
			if f == nil || !inModule(f) || f.Signature.Recv() != nil && c.Common().IsInvoke() {
				return
			}
			for i, a := range c.Common().Args {
				if !isTime(a.Type()) {
					continue
				}
				// only arguments that land in a time.Time parameter of a module function
				if i >= len(f.Params) || !isTime(f.Params[i].Type()) {
					continue
				}
				n++
				var foreign []string
				seen := map[ssa.Value]bool{}
				var walk func(v ssa.Value, d int)
				walk = func(v ssa.Value, d int) {
					if seen[v] || d > 8 {
						return
					}
					seen[v] = true
					switch x := v.(type) {
					case *ssa.Parameter:
						if x != own {
							foreign = append(foreign, "parameter "+x.Name())
						}
					case *ssa.Phi:
						for _, e := range x.Edges {
							walk(e, d+1)
						}
					case *ssa.UnOp:
						if al, ok := x.X.(*ssa.Alloc); ok && x.Op == token.MUL {
							for _, ref := range *al.Referrers() {
								if st, ok := ref.(*ssa.Store); ok && st.Addr == ssa.Value(al) {
									walk(st.Val, d+1)
								}
							}
							return
						}
						foreign = append(foreign, x.String())
					default:
						foreign = append(foreign, v.String())
					}
				}
				walk(a, 0)
				sort.Strings(foreign)
				r.Check("R8", fmt.Sprintf("%s: the deadline handed to %s is the deadline it received, on every path", funcName(fn), f.Name()), len(foreign) == 0, p.Pos(c.Pos()),
					"the argument can also be: "+strings.Join(foreign, "; ")+" - a point in time other than the caller's deadline bounds this step, so a resolver or connect that hangs keeps DialTimeout from returning by its timeout")
			}
		})
	}
	r.Floor("R8", "deadline arguments handed on by TCPDialer routines", n, 1)
}
