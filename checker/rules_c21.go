package main

// C21 - scheme / TLS separation in the client.

import (
	"fmt"
	"go/token"
	"go/types"
	"strings"

	"golang.org/x/tools/go/ssa"
)

func init() {
	register(&propDef{
		id:      "C21",
		explain: "Structural necessary conditions of 'an https request never travels over a plaintext connection and vice versa': (R1) in HostClient's single request path every path to the transport passes, unconditionally, the comparison of HostClient.IsTLS with the scheme of the request URI obtained through Request.URI() (which forces the lazy parse), taken on its 'equal' outcome - a mismatch returns an error before anything is sent; (R2) Client.Do picks the host-client map with the same boolean it stores as IsTLS in the HostClient it creates, and that boolean is true exactly under the isHTTPS test; unsupported schemes return an error; (R3) dialAddr returns, when asked for TLS and the dialled connection is not already TLS, only the result of tls.Client / the TLS handshake; dialHostHard passes HostClient.IsTLS to it; (R4) PipelineClient hands its IsTLS to every connection client it creates; (R5) when a redirect Location is resolved against the current URL, every re-parse of the URI either parses text rebuilt from the base scheme and host or is followed by a look at the (saved) scheme - so a reference without a scheme keeps https. (R6) a function that copies the relative form of the parsed URI (URI.RequestURI(): no scheme, no host) into the request header does not also mark the URI as not parsed - otherwise the scheme the caller set is forgotten and rebuilt as http. (E8) the idle-connection list of a HostClient is accessed under connsLock only, and its elements only through a header taken while the lock is held (or after the field was swapped out): a connection struct recycled while still listed would be filled by another HostClient's dial. (R-tlscfg) no function that receives a *tls.Config stores through it: per-address settings (ServerName) go into a fresh object or a Clone, never into the configuration the application shares between all hosts of a client. Not decided: LBClient over user-supplied clients, TLS correctness itself.",
		run:     runC21,
	})
}

func runC21(p *Prog, r *Report) {
	// ---- R1 ----
	fn := p.Func("(*HostClient).doNonNilReqResp")
	fURI := p.Func("(*Request).URI")
	fHTTPS := p.Func("(*URI).isHTTPS")
	if fn == nil || fURI == nil || fHTTPS == nil {
		r.Undecided("R1", "anchors doNonNilReqResp / Request.URI / URI.isHTTPS", "not found")
	} else {
		var tx ssa.CallInstruction
		allCalls(fn, func(b *ssa.BasicBlock, c ssa.CallInstruction) {
			if isInvoke(c, "RoundTrip") {
				tx = c
			}
		})
		if tx == nil {
			r.Undecided("R1", "doNonNilReqResp: transport call", "no RoundTrip invoke found")
		} else {
			const bCmp uint64 = 1
			n, bad := 0, 0
			var wit []string
			viaURI := false
			isSchemeCompare := func(v ssa.Value) (ok bool, eqOp bool) {
				bo, isBo := v.(*ssa.BinOp)
				if !isBo || (bo.Op != token.EQL && bo.Op != token.NEQ) {
					return false, false
				}
				hasTLS, hasScheme := false, false
				for _, o := range []ssa.Value{bo.X, bo.Y} {
					if _, fv := loadedField(o); fv != nil && fv.Name() == "IsTLS" {
						hasTLS = true
					}
					if c, isCall := o.(*ssa.Call); isCall && isCallTo(c, fHTTPS) {
						hasScheme = true
						if rc, isRC := c.Call.Args[0].(*ssa.Call); isRC && isCallTo(rc, fURI) {
							viaURI = true
						}
					}
				}
				return hasTLS && hasScheme, bo.Op == token.EQL
			}
			x := NewExplorer(p, fn, Hooks{
				Branch: func(x *Explorer, st *State, cond ssa.Value, taken bool, from *ssa.BasicBlock) {
					pos, v := stripNot(cond)
					if ok, eqOp := isSchemeCompare(v); ok {
						equal := (taken == pos) == eqOp
						if equal {
							st.Set(bCmp)
						}
					}
				},
				Instr: func(x *Explorer, st *State, in ssa.Instruction) {
					if in == tx.(ssa.Instruction) {
						n++
						if !st.Has(bCmp) {
							bad++
							if wit == nil {
								wit = x.Path(st)
							}
						}
					}
				},
			})
			x.Filter = noIntFilter
			x.Run(nil)
			r.Check("R1", "HostClient: the transport is reached only after IsTLS was compared equal to the request's scheme", bad == 0 && n > 0, p.Pos(tx.Pos()),
				fmt.Sprintf("%d of %d explored arrivals at the transport call have not passed the comparison of HostClient.IsTLS with URI.isHTTPS() on its 'equal' outcome: an https request could be written to a plaintext connection (or the reverse)", bad, n), wit...)
			// the comparison reads a parsed URI: a parse error leaves no scheme, which reads as http
			{
				parse := p.Func("(*Request).parseURI")
				tested := false
				if parse != nil {
					for _, b := range fn.Blocks {
						for _, in := range b.Instrs {
							c, ok := in.(*ssa.Call)
							if !ok || c.Call.StaticCallee() != parse {
								continue
							}
							// its error result is compared with nil and the comparison dominates the scheme test
							for _, ref := range *c.Referrers() {
								bo, ok := ref.(*ssa.BinOp)
								if !ok || (bo.Op != token.NEQ && bo.Op != token.EQL) {
									continue
								}
								for _, b2 := range fn.Blocks {
									for _, i2 := range b2.Instrs {
										if c2, ok := i2.(*ssa.Call); ok && c2.Call.StaticCallee() == fHTTPS && dominatesInstr(bo, i2) {
											tested = true
										}
									}
								}
							}
						}
					}
				}
				r.Check("R1", "HostClient: the request URI's parse error is tested before its scheme is compared", tested, p.Pos(fn.Pos()),
					"Request.URI() swallows the parse error: an https URL that does not parse (a control character, a leading space) yields an empty scheme, which compares as http - the plaintext client accepts the request and writes it, headers included, in clear text")
			}
			r.Check("R1", "HostClient: the scheme compared is that of Request.URI(), which parses the URI first", viaURI, p.Pos(fn.Pos()),
				"the scheme test reads the cached URI without forcing the lazy parse: for a request whose URI was set but not parsed yet the scheme is stale")
		}
	}
	// ---- R2 ----
	cdo := p.Func("(*Client).Do")
	hcf := p.Func("(*Client).hostClient")
	if cdo == nil || hcf == nil {
		r.Undecided("R2", "anchors Client.Do / Client.hostClient", "not found")
	} else {
		// in hostClient: the bool parameter selects the map and is stored as IsTLS
		var flag *ssa.Parameter
		for _, prm := range hcf.Params {
			if isBool(prm.Type()) {
				flag = prm
			}
		}
		stored, selects := false, false
		if flag != nil {
			for _, b := range hcf.Blocks {
				for _, in := range b.Instrs {
					switch w := in.(type) {
					case *ssa.Store:
						if _, fv := fieldOfAddr(w.Addr); fv != nil && fv.Name() == "IsTLS" && w.Val == ssa.Value(flag) {
							stored = true
						}
					case *ssa.If:
						if _, v := stripNot(w.Cond); v == ssa.Value(flag) {
							// one successor loads c.ms, selecting the TLS map
							for _, su := range b.Succs {
								for _, i2 := range su.Instrs {
									if u, ok := i2.(*ssa.UnOp); ok {
										if _, fv := loadedField(u); fv != nil && fv.Name() == "ms" {
											selects = true
										}
									}
								}
							}
						}
					}
				}
			}
		}
		r.Check("R2", "Client.hostClient stores the map-selecting flag as HostClient.IsTLS", stored && selects, p.Pos(hcf.Pos()), fmt.Sprintf("flag stored as IsTLS: %v; flag selects the TLS map: %v", stored, selects))
		// in Do: the argument is true exactly under isHTTPS
		okArg := false
		allCalls(cdo, func(b *ssa.BasicBlock, c ssa.CallInstruction) {
			if !isCallTo(c, hcf) {
				return
			}
			for i, prm := range hcf.Params {
				if prm == flag && i < len(c.Common().Args) {
					at := condAtoms(c.Common().Args[i])
					okArg = hasAtomContaining(at, "URI.isHTTPS")
				}
			}
		})
		r.Check("R2", "Client.Do derives the TLS flag from the isHTTPS test of the request URI", okArg, p.Pos(cdo.Pos()), "the flag passed to hostClient does not depend on URI.isHTTPS()")
	}
	// ---- R3 ----
	da := p.Func("dialAddr")
	hs := p.Func("tlsClientHandshake")
	if da == nil || hs == nil {
		r.Undecided("R3", "anchors dialAddr / tlsClientHandshake", "not found")
	} else {
		var tlsFlag *ssa.Parameter
		for _, prm := range da.Params {
			if prm.Name() == "isTLS" || (isBool(prm.Type()) && tlsFlag == nil && strings.Contains(strings.ToLower(prm.Name()), "tls")) {
				tlsFlag = prm
			}
		}
		n, bad := 0, 0
		var wit []string
		if tlsFlag == nil {
			r.Undecided("R3", "dialAddr TLS flag parameter", "not found")
		} else {
			var alreadyTLS ssa.Value
			for _, b := range da.Blocks {
				for _, in := range b.Instrs {
					if ex, ok := in.(*ssa.Extract); ok && ex.Index == 1 {
						if ta, ok := ex.Tuple.(*ssa.TypeAssert); ok && strings.Contains(ta.AssertedType.String(), "Handshake") {
							alreadyTLS = ex
						}
					}
				}
			}
			x := NewExplorer(p, da, Hooks{
				Exit: func(x *Explorer, st *State, ret *ssa.Return, pan *ssa.Panic) {
					if ret == nil {
						return
					}
					rr := returnResults(ret)
					if len(rr) != 2 || !isNilConst(rr[1]) && x.Eval(st, rr[1]) != False {
						// error (or possibly error) returns are handled by the callers
						if !isNilConst(rr[1]) {
							if c, ok := stripMakeIface(rr[0]).(*ssa.Call); !ok || !isCallTo(c, hs) {
								if ex, ok := rr[0].(*ssa.Extract); !ok || !isCallResultOf(ex.Tuple, hs) {
									return
								}
							}
						}
					}
					if x.Eval(st, tlsFlag) != True {
						return
					}
					n++
					// what is returned as the connection
					v := stripMakeIface(rr[0])
					isTLSConn := false
					if c, ok := v.(*ssa.Call); ok {
						if f := c.Call.StaticCallee(); f != nil && f.Pkg != nil && f.Pkg.Pkg.Path() == "crypto/tls" && f.Name() == "Client" {
							isTLSConn = true
						}
					}
					if ex, ok := rr[0].(*ssa.Extract); ok && isCallResultOf(ex.Tuple, hs) {
						isTLSConn = true
					}
					// the dialled connection itself is acceptable only when found to be TLS already
					already := alreadyTLS != nil && x.Eval(st, alreadyTLS) == True
					if !isTLSConn && !already {
						bad++
						if wit == nil {
							wit = x.Path(st)
						}
					}
				},
			})
			x.TrackAll = true
			x.keep = map[string]bool{}
			x.Track(tlsFlag)
			if alreadyTLS != nil {
				x.Track(alreadyTLS)
			}
			x.Run(nil)
			r.Check("R3", "dialAddr: when TLS is requested the connection returned is a TLS client connection (or was one already)", bad == 0 && n > 0, p.Pos(da.Pos()),
				fmt.Sprintf("%d of %d explored success returns with isTLS = true hand back the plain dialled connection", bad, n), wit...)
		}
		// dialHostHard passes c.IsTLS
		if dh := p.Func("(*HostClient).dialHostHard"); dh != nil {
			ok := false
			allCalls(dh, func(b *ssa.BasicBlock, c ssa.CallInstruction) {
				if !isCallTo(c, da) {
					return
				}
				for i, prm := range da.Params {
					if prm == tlsFlag && i < len(c.Common().Args) {
						if _, fv := loadedField(c.Common().Args[i]); fv != nil && fv.Name() == "IsTLS" {
							ok = true
						}
					}
				}
			})
			r.Check("R3", "HostClient.dialHostHard dials with its own IsTLS", ok, p.Pos(dh.Pos()), "the TLS flag passed to dialAddr is not HostClient.IsTLS")
		} else {
			r.Undecided("R3", "(*HostClient).dialHostHard", "not found")
		}
	}
	// ---- R4: PipelineClient forwards IsTLS ----
	{
		n := 0
		for _, f := range p.funcsIn("") {
			if recvTypeName(f) != "PipelineClient" {
				continue
			}
			for _, b := range f.Blocks {
				for _, in := range b.Instrs {
					st, ok := in.(*ssa.Store)
					if !ok {
						continue
					}
					base, fv := fieldOfAddr(st.Addr)
					if fv == nil || fv.Name() != "IsTLS" || typeNameOf(base) != "pipelineConnClient" {
						continue
					}
					n++
					_, src := loadedField(st.Val)
					r.Check("R4", funcName(f)+": the connection client gets the PipelineClient's IsTLS", src != nil && src.Name() == "IsTLS", p.Pos(st.Pos()), "pipelineConnClient.IsTLS is not assigned from PipelineClient.IsTLS")
				}
			}
		}
		r.Floor("R4", "pipelineConnClient.IsTLS assignments", n, 1)
	}
	schemeSurvivesResolution(p, r)
}

// schemeSurvivesResolution (R5): following a redirect resolves the Location
// against the current URL. URI.Parse starts from a reset URI, so a reference
// that carries no scheme of its own ("/path", "other") comes out as plain http
// unless the text that is parsed was rebuilt from the base scheme and host, or
// the code looks at the scheme afterwards and restores it. In the
// reference-resolution function every Parse call is one or the other -
// otherwise a host-relative redirect of an https request is followed over
// plaintext.
func schemeSurvivesResolution(p *Prog, r *Report) {
	parse := p.Func("(*URI).Parse")
	rebuild := p.Func("(*URI).appendSchemeHost")
	if parse == nil || rebuild == nil {
		r.Undecided("R5", "(*URI).Parse / (*URI).appendSchemeHost", "not found")
		return
	}
	// the resolver: methods of URI, other than Parse's own family, that call Parse on their receiver
	n := 0
	for _, fn := range p.funcsIn("") {
		if recvTypeName(fn) != "URI" || fn == parse || len(fn.Params) == 0 {
			continue
		}
		for _, b := range fn.Blocks {
			for _, in := range b.Instrs {
				c, ok := in.(*ssa.Call)
				if !ok || !isCallTo(c, parse) || len(c.Call.Args) != 3 || c.Call.Args[0] != ssa.Value(fn.Params[0]) {
					continue
				}
				n++
				// (a) the parsed text derives from appendSchemeHost
				derives := false
				seen := map[ssa.Value]bool{}
				var walk func(v ssa.Value, d int)
				walk = func(v ssa.Value, d int) {
					if v == nil || seen[v] || d > 10 || derives {
						return
					}
					seen[v] = true
					switch w := v.(type) {
					case *ssa.Call:
						if isCallTo(w, rebuild) {
							derives = true
							return
						}
						// append(x, ...) and module helpers that extend their first argument
						if len(w.Call.Args) > 0 {
							walk(w.Call.Args[0], d+1)
						}
					case *ssa.Phi:
						for _, e := range w.Edges {
							walk(e, d+1)
						}
					case *ssa.Slice:
						walk(w.X, d+1)
					}
				}
				walk(c.Call.Args[2], 0)
				// a condition that looks at the scheme, or at a copy of it saved before the re-parse
				var onScheme func(v ssa.Value, d int, sn map[ssa.Value]bool) bool
				onScheme = func(v ssa.Value, d int, sn map[ssa.Value]bool) bool {
					if v == nil || sn[v] || d > 10 {
						return false
					}
					sn[v] = true
					if _, fv := loadedField(v); fv != nil && fv.Name() == "scheme" {
						return true
					}
					switch w := v.(type) {
					case *ssa.BinOp:
						return onScheme(w.X, d+1, sn) || onScheme(w.Y, d+1, sn)
					case *ssa.UnOp:
						return onScheme(w.X, d+1, sn)
					case *ssa.Slice:
						return onScheme(w.X, d+1, sn)
					case *ssa.Phi:
						for _, e := range w.Edges {
							if onScheme(e, d+1, sn) {
								return true
							}
						}
					case *ssa.Call:
						for _, a := range w.Call.Args {
							if onScheme(a, d+1, sn) {
								return true
							}
						}
					}
					return false
				}
				examines := func(i ssa.Instruction) bool {
					iff, ok := i.(*ssa.If)
					return ok && (hasAtomContaining(condAtoms(iff.Cond), "URI.scheme") || onScheme(iff.Cond, 0, map[ssa.Value]bool{}))
				}
				// (b) or the scheme is examined on every path from the call to a return
				examined := false
				if !derives {
					hit, _ := reachAvoiding(fn, in, isReturn, examines, nil)
					// returns taken because Parse failed do not count: they are guarded by its error
					examined = hit == nil
					if !examined {
						if rt, ok := hit.(*ssa.Return); ok {
							onlyErr := true
							for _, g := range guardsOf(rt.Block()) {
								_ = g
							}
							// search again, ignoring returns that are control-dependent on the error of this call being non-nil
							h2, _ := reachAvoiding(fn, in, func(i ssa.Instruction) bool {
								rt2, ok := i.(*ssa.Return)
								if !ok {
									return false
								}
								for _, g := range guardsOf(rt2.Block()) {
									if g.Pol && strings.Contains(g.Atom, "URI.Parse") {
										return false
									}
								}
								return true
							}, examines, nil)
							examined = h2 == nil && onlyErr
						}
					}
				}
				r.Check("R5", fmt.Sprintf("%s: the reference is parsed from text rebuilt with the base scheme, or the scheme is examined afterwards", funcName(fn)), derives || examined, p.Pos(c.Pos()),
					"URI.Parse resets the URI; the text given to it here was not rebuilt from the base scheme and host and the scheme is not looked at afterwards: a reference without a scheme resolves to plain http, so a host-relative redirect of an https request is followed in clear text")
			}
		}
	}
	r.Floor("R5", "re-parses during reference resolution", n, 3)
	schemeNotForgotten(p, r)
	callerTLSConfigNotWritten(p, r)
	// a pooled connection belongs to one HostClient - one host, one scheme. The idle list is guarded by connsLock;
	// a slice header taken under the lock and walked after it (E8-alias) lets a released connection be closed and its
	// clientConn recycled while it is still listed, after which another HostClient's dial fills the recycled
	// struct: the https client then writes to a plaintext connection of another host.
	checkLockset(p, r, "E8", &lockTable{
		guards:      map[string]string{"HostClient.conns": "HostClient.connsLock"},
		heldOnEntry: map[string][]string{},
		exempt:      map[string]string{},
	}, nil)
}

// lowersParsedURI: fn (or a module callee, to the given depth) stores false
// into Request.parsedURI.
func lowersParsedURI(fn *ssa.Function, depth int, seen map[*ssa.Function]bool) bool {
	if fn == nil || fn.Blocks == nil || seen[fn] || depth < 0 {
		return false
	}
	seen[fn] = true
	for _, b := range fn.Blocks {
		for _, in := range b.Instrs {
			switch in := in.(type) {
			case *ssa.Store:
				if fa, ok := in.Addr.(*ssa.FieldAddr); ok && fieldName(fa.X.Type(), fa.Field) == "parsedURI" && typeNameOf(fa.X) == "Request" {
					if k, isC := in.Val.(*ssa.Const); isC && k.Value != nil && k.Value.ExactString() == "false" {
						return true
					}
				}
			case ssa.CallInstruction:
				if f := in.Common().StaticCallee(); f != nil && inModule(f) && recvTypeName(f) == "Request" && lowersParsedURI(f, depth-1, seen) {
					return true
				}
			}
		}
	}
	return false
}

// schemeNotForgotten (R6): the request line only carries the relative form of
// the URI (URI.RequestURI() has neither scheme nor host). A function that
// copies that form into the header must leave the parsed URI in place: if it
// also marks the URI as not parsed, the next URI() rebuilds it from the Host
// header and the relative form - as http - and the client picks the plaintext
// pool for a request its caller addressed to https.
func schemeNotForgotten(p *Prog, r *Report) {
	rel := p.Func("(*URI).RequestURI")
	if rel == nil {
		r.Undecided("R6", "URI.RequestURI", "anchor not found")
		return
	}
	n := 0
	for _, fn := range p.funcsIn("") {
		var flows []ssa.CallInstruction
		allCalls(fn, func(b *ssa.BasicBlock, c ssa.CallInstruction) {
			f := c.Common().StaticCallee()
			if f == nil || !strings.HasPrefix(f.Name(), "SetRequestURI") || len(c.Common().Args) < 2 {
				return
			}
			if rt := recvTypeName(f); rt != "Request" && rt != "RequestHeader" {
				return
			}
			src := false
			allCalls(fn, func(b2 *ssa.BasicBlock, c2 ssa.CallInstruction) {
				if v, ok := c2.(*ssa.Call); ok && c2.Common().StaticCallee() == rel && derivesFromValue(c.Common().Args[1], v) {
					src = true
				}
			})
			if src {
				flows = append(flows, c)
			}
		})
		if len(flows) == 0 {
			continue
		}
		n++
		lowers := lowersParsedURI(fn, 2, map[*ssa.Function]bool{})
		r.Check("R6", fmt.Sprintf("%s: copying the relative form of the parsed URI into the header keeps the parsed URI", funcName(fn)), !lowers, p.Pos(flows[0].Pos()),
			"the function writes URI.RequestURI() (no scheme, no host) into the header and also marks the URI as not parsed: the next URI() rebuilds it from Host + relative form with scheme http, and Client.Do sends a request addressed to https over the plaintext pool")
	}
	r.Floor("R6", "functions copying the relative URI form into the header", n, 2)
}

// callerTLSConfigNotWritten (C21.R-tlscfg): the *tls.Config an application gives a client is shared by every
// HostClient of that Client and by every address of a HostClient. The per-address configuration (ServerName taken
// from the address) must therefore be written into a private copy: no function that receives a *tls.Config as a
// parameter stores through it - the base of every store into a tls.Config field resolves, on every phi edge, to a
// fresh object or to the result of Clone, never to the parameter. A ServerName written into the shared object makes
// every later https host of the client be dialled (SNI and certificate verification) as the first one.
func callerTLSConfigNotWritten(p *Prog, r *Report) {
	isTLSConfigPtr := func(t types.Type) bool { return strings.HasSuffix(t.String(), "*crypto/tls.Config") }
	n := 0
	for _, fn := range p.funcsIn("") {
		var params []*ssa.Parameter
		for _, prm := range fn.Params {
			if isTLSConfigPtr(prm.Type()) {
				params = append(params, prm)
			}
		}
		if len(params) == 0 || fn.Blocks == nil {
			continue
		}
		n++
		var mayBeParam func(v ssa.Value, d int) *ssa.Parameter
		mayBeParam = func(v ssa.Value, d int) *ssa.Parameter {
			if d > 8 {
				return nil
			}
			switch x := v.(type) {
			case *ssa.Parameter:
				for _, prm := range params {
					if x == prm {
						return prm
					}
				}
			case *ssa.Phi:
				for _, e := range x.Edges {
					if prm := mayBeParam(e, d+1); prm != nil {
						return prm
					}
				}
			case *ssa.UnOp:
				// a local the parameter was spilled to
				if al, ok := x.X.(*ssa.Alloc); ok && x.Op == token.MUL {
					for _, ref := range *al.Referrers() {
						if st, ok := ref.(*ssa.Store); ok && st.Addr == ssa.Value(al) {
							if prm := mayBeParam(st.Val, d+1); prm != nil {
								return prm
							}
						}
					}
				}
			}
			return nil
		}
		bad := ""
		var pos token.Pos
		for _, b := range fn.Blocks {
			for _, in := range b.Instrs {
				st, ok := in.(*ssa.Store)
				if !ok {
					continue
				}
				fa, ok := st.Addr.(*ssa.FieldAddr)
				if !ok || !isTLSConfigPtr(fa.X.Type()) {
					continue
				}
				if prm := mayBeParam(fa.X, 0); prm != nil && bad == "" {
					bad = fmt.Sprintf("field %s of the configuration received as parameter %s is assigned", fieldName(fa.X.Type(), fa.Field), prm.Name())
					pos = st.Pos()
				}
			}
		}
		if pos == token.NoPos {
			pos = fn.Pos()
		}
		r.Check("R-tlscfg", funcName(fn)+": the caller's tls.Config is never written (per-address settings go into a private copy)", bad == "", p.Pos(pos),
			bad+": the object is the one the application configured and every other host of the client shares - a ServerName derived from one address is then used for the handshake with all the others, so a request for one https host is sent over a connection that only proved to be another host")
	}
	r.Floor("R-tlscfg", "functions that receive a *tls.Config", n, 1)
}
