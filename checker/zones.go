package main

// E10: difference-bound (zone) abstract interpretation of a loop-free integer
// function, path by path. Facts have the form x - y <= c over SSA integer
// values and the constant zero; the closure is Floyd-Warshall. Used to decide
// that every success return of ParseByteRange satisfies 0 <= start <= end < len.

import (
	"fmt"
	"go/token"
	"go/types"
	"math"
	"strings"

	"golang.org/x/tools/go/ssa"
)

const zInf = math.MaxInt32

type zone struct {
	idx map[ssa.Value]int
	m   [][]int64 // m[i][j] = bound on (i - j); node 0 is the constant zero
	// fld: loads of the same field of the same object denote one node until the field is stored to
	fld map[string]ssa.Value
	// slen: the node that stands for the length of a slice value
	slen map[ssa.Value]ssa.Value
}

func newZone() *zone {
	z := &zone{idx: map[ssa.Value]int{}, fld: map[string]ssa.Value{}, slen: map[ssa.Value]ssa.Value{}}
	z.m = [][]int64{{0}}
	return z
}

func fieldLoadKey(v ssa.Value) string {
	u, ok := v.(*ssa.UnOp)
	if !ok || u.Op != token.MUL {
		return ""
	}
	fa, ok := u.X.(*ssa.FieldAddr)
	if !ok {
		return ""
	}
	return fmt.Sprintf("%p.%d", fa.X, fa.Field)
}

// lenOf returns the value whose node stands for len(v).
func (z *zone) lenOf(v ssa.Value) ssa.Value {
	if w, ok := z.slen[v]; ok {
		return w
	}
	z.slen[v] = v // a slice value doubles as the name of its own length
	return v
}

func (z *zone) clone() *zone {
	n := &zone{idx: make(map[ssa.Value]int, len(z.idx)), fld: make(map[string]ssa.Value, len(z.fld)), slen: make(map[ssa.Value]ssa.Value, len(z.slen))}
	for k, v := range z.idx {
		n.idx[k] = v
	}
	for k, v := range z.fld {
		n.fld[k] = v
	}
	for k, v := range z.slen {
		n.slen[k] = v
	}
	n.m = make([][]int64, len(z.m))
	for i := range z.m {
		n.m[i] = append([]int64(nil), z.m[i]...)
	}
	return n
}

func (z *zone) node(v ssa.Value) int {
	if k := fieldLoadKey(v); k != "" {
		if first, ok := z.fld[k]; ok {
			v = first
		} else {
			z.fld[k] = v
		}
	}
	if i, ok := z.idx[v]; ok {
		return i
	}
	i := len(z.m)
	z.idx[v] = i
	for r := range z.m {
		z.m[r] = append(z.m[r], zInf)
	}
	row := make([]int64, i+1)
	for c := range row {
		row[c] = zInf
	}
	row[i] = 0
	z.m = append(z.m, row)
	return i
}

// term: v as (node, offset): constants are (0, k); x+k / x-k are (x, +-k).
func (z *zone) term(v ssa.Value) (int, int64) {
	if k, ok := constInt(v); ok {
		return 0, k
	}
	if bo, ok := v.(*ssa.BinOp); ok {
		if k, okc := constInt(bo.Y); okc {
			switch bo.Op {
			case token.ADD:
				n, o := z.term(bo.X)
				return n, o + k
			case token.SUB:
				n, o := z.term(bo.X)
				return n, o - k
			}
		}
	}
	if c, ok := v.(*ssa.Convert); ok && isIntType(c.X.Type()) && isIntType(c.Type()) {
		return z.term(c.X)
	}
	return z.node(v), 0
}

// add: (a + oa) - (b + ob) <= c
func (z *zone) add(a int, oa int64, b int, ob int64, c int64) {
	bound := c - oa + ob
	if bound < z.m[a][b] {
		z.m[a][b] = bound
		z.close()
	}
}

func (z *zone) close() {
	n := len(z.m)
	for k := 0; k < n; k++ {
		for i := 0; i < n; i++ {
			if z.m[i][k] >= zInf {
				continue
			}
			for j := 0; j < n; j++ {
				if z.m[k][j] >= zInf {
					continue
				}
				if s := z.m[i][k] + z.m[k][j]; s < z.m[i][j] {
					z.m[i][j] = s
				}
			}
		}
	}
}

func (z *zone) infeasible() bool {
	for i := range z.m {
		if z.m[i][i] < 0 {
			return true
		}
	}
	return false
}

// entails: (a+oa) - (b+ob) <= c
func (z *zone) entails(a int, oa int64, b int, ob int64, c int64) bool {
	return z.m[a][b] < zInf && z.m[a][b] <= c-oa+ob
}

// assume a comparison outcome.
func (z *zone) assumeCmp(op token.Token, x, y ssa.Value, outcome bool) {
	if !isIntType(x.Type()) || !isIntType(y.Type()) {
		return
	}
	a, oa := z.term(x)
	b, ob := z.term(y)
	if !outcome {
		switch op {
		case token.LSS:
			op = token.GEQ
		case token.LEQ:
			op = token.GTR
		case token.GTR:
			op = token.LEQ
		case token.GEQ:
			op = token.LSS
		case token.EQL:
			op = token.NEQ
		case token.NEQ:
			op = token.EQL
		}
	}
	switch op {
	case token.LSS:
		z.add(a, oa, b, ob, -1)
	case token.LEQ:
		z.add(a, oa, b, ob, 0)
	case token.GTR:
		z.add(b, ob, a, oa, -1)
	case token.GEQ:
		z.add(b, ob, a, oa, 0)
	case token.EQL:
		z.add(a, oa, b, ob, 0)
		z.add(b, ob, a, oa, 0)
	case token.NEQ:
		// a != b sharpens a non-strict bound that is already known
		if z.entails(a, oa, b, ob, 0) {
			z.add(a, oa, b, ob, -1)
		} else if z.entails(b, ob, a, oa, 0) {
			z.add(b, ob, a, oa, -1)
		}
	}
}

// define applies the meaning of an integer-valued instruction.
func (z *zone) define(in ssa.Instruction) {
	switch w := in.(type) {
	case *ssa.Store:
		if fa, ok := w.Addr.(*ssa.FieldAddr); ok {
			delete(z.fld, fmt.Sprintf("%p.%d", fa.X, fa.Field))
		}
	case *ssa.Slice:
		if _, isSlice := w.Type().Underlying().(*types.Slice); !isSlice {
			return
		}
		switch {
		case w.Low == nil && w.High != nil:
			// len(x[:h]) == h
			t := z.node(z.lenOf(w))
			n, o := z.term(w.High)
			z.add(t, 0, n, o, 0)
			z.add(n, o, t, 0, 0)
		case w.Low == nil && w.High == nil:
			if _, isSl := w.X.Type().Underlying().(*types.Slice); isSl {
				z.slen[w] = z.lenOf(w.X)
			}
		}
		z.add(0, 0, z.node(z.lenOf(w)), 0, 0)
	case *ssa.ChangeType:
		if _, isSlice := w.Type().Underlying().(*types.Slice); isSlice {
			z.slen[w] = z.lenOf(w.X)
		}
	case *ssa.BinOp:
		if !isIntType(w.Type()) {
			return
		}
		t := z.node(w)
		if _, okc := constInt(w.Y); okc && (w.Op == token.ADD || w.Op == token.SUB) {
			n, o := z.term(w)
			if n != t {
				z.add(t, 0, n, o, 0)
				z.add(n, o, t, 0, 0)
			}
			return
		}
		if w.Op == token.SUB {
			// t = a - b: t - a <= -lower(b); a - t <= upper(b)
			a, oa := z.term(w.X)
			b, ob := z.term(w.Y)
			if z.m[0][b] < zInf { // 0 - b <= c  => b >= -c
				lb := -z.m[0][b] + ob
				z.add(t, 0, a, oa, -lb)
			}
			if z.m[b][0] < zInf {
				ub := z.m[b][0] + ob
				z.add(a, oa, t, 0, ub)
			}
		}
	case *ssa.Call:
		if f := w.Call.StaticCallee(); f != nil && f.Pkg != nil && (f.Pkg.Pkg.Path() == "bytes" || f.Pkg.Pkg.Path() == "strings") &&
			strings.HasPrefix(f.Name(), "Index") && isIntType(w.Type()) {
			// post-condition of the Index family: the result is -1 or a valid position
			z.add(0, 0, z.node(w), 0, 1)
			return
		}
		b, ok := w.Call.Value.(*ssa.Builtin)
		if !ok {
			return
		}
		switch b.Name() {
		case "len", "cap":
			t := z.node(w)
			z.add(0, 0, t, 0, 0) // 0 - len <= 0
			if b.Name() == "len" && len(w.Call.Args) == 1 {
				if _, isSlice := w.Call.Args[0].Type().Underlying().(*types.Slice); isSlice {
					l := z.node(z.lenOf(w.Call.Args[0]))
					z.add(t, 0, l, 0, 0)
					z.add(l, 0, t, 0, 0)
				}
			}
		case "max", "min":
			if len(w.Call.Args) != 2 || !isIntType(w.Type()) {
				return
			}
			x, ox := z.term(w.Call.Args[0])
			y, oy := z.term(w.Call.Args[1])
			t := z.node(w)
			// make sure the nodes exist before reading rows
			n := len(z.m)
			if b.Name() == "max" {
				z.add(x, ox, t, 0, 0)
				z.add(y, oy, t, 0, 0)
				for j := 0; j < n; j++ {
					if j == t {
						continue
					}
					bx, by := z.m[x][j], z.m[y][j]
					if bx < zInf && by < zInf {
						bb := bx + ox
						if by+oy > bb {
							bb = by + oy
						}
						if bb < z.m[t][j] {
							z.m[t][j] = bb
						}
					}
				}
			} else {
				z.add(t, 0, x, ox, 0)
				z.add(t, 0, y, oy, 0)
				for j := 0; j < n; j++ {
					if j == t {
						continue
					}
					bx, by := z.m[j][x], z.m[j][y]
					if bx < zInf && by < zInf {
						bb := bx - ox
						if by-oy > bb {
							bb = by - oy
						}
						if bb < z.m[j][t] {
							z.m[j][t] = bb
						}
					}
				}
			}
			z.close()
		}
	}
}

type zonePathResult struct {
	paths, successReturns, bad int
	witness                    []string
	detail                     string
	undecided                  string
}

// checkZoneFunction enumerates the acyclic paths of fn and, at every return
// selected by isSuccess, asks oblig whether the required inequalities hold.
func checkZoneFunction(p *Prog, fn *ssa.Function, nonNegOnNilErr map[*ssa.Function]bool,
	isSuccess func(rt *ssa.Return) bool, oblig func(z *zone, rt *ssa.Return) (bool, string)) *zonePathResult {
	return zoneWalk(p, fn, nonNegOnNilErr, isSuccess, oblig, nil)
}

// zoneWalk is checkZoneFunction with an optional block hook: atBlock is asked
// on entry to every block (after the phis were bound to the incoming edge);
// when it returns stop the path ends there (this is how a loop-free prefix of
// a function with a loop is analysed), and !ok counts as a failed obligation.
func zoneWalk(p *Prog, fn *ssa.Function, nonNegOnNilErr map[*ssa.Function]bool,
	isSuccess func(rt *ssa.Return) bool, oblig func(z *zone, rt *ssa.Return) (bool, string),
	atBlock func(b, from *ssa.BasicBlock, z *zone) (stop, ok bool, why string)) *zonePathResult {
	return zoneWalkFrom(p, fn, nil, nonNegOnNilErr, isSuccess, oblig, atBlock, nil)
}

// zoneWalkFrom: as zoneWalk, starting at block start (nil = entry; phis of the
// start block stay unconstrained, which is how one iteration of a loop is
// analysed from its header), with an optional instruction hook that can end a
// path with a verdict. A path that comes back to the start block ends silently.
func zoneWalkFrom(p *Prog, fn *ssa.Function, start *ssa.BasicBlock, nonNegOnNilErr map[*ssa.Function]bool,
	isSuccess func(rt *ssa.Return) bool, oblig func(z *zone, rt *ssa.Return) (bool, string),
	atBlock func(b, from *ssa.BasicBlock, z *zone) (stop, ok bool, why string),
	atInstr func(in ssa.Instruction, z *zone) (stop, ok bool, why string)) *zonePathResult {
	res := &zonePathResult{}
	onPath := map[*ssa.BasicBlock]bool{}
	var walk func(b *ssa.BasicBlock, from *ssa.BasicBlock, z *zone, trail []*ssa.BasicBlock)
	walk = func(b *ssa.BasicBlock, from *ssa.BasicBlock, z *zone, trail []*ssa.BasicBlock) {
		if res.undecided != "" {
			return
		}
		if start != nil && b == start && from != nil {
			return // one trip around the loop is complete
		}
		if onPath[b] {
			res.undecided = fmt.Sprintf("the function has a loop through block %d: the zone analysis handles loop-free code only", b.Index)
			return
		}
		if len(trail) > 400 || res.paths > 200000 {
			res.undecided = "path budget exhausted"
			return
		}
		onPath[b] = true
		defer delete(onPath, b)
		trail = append(trail, b)
		// phis
		if from != nil {
			idx := -1
			for i, pr := range b.Preds {
				if pr == from {
					idx = i
				}
			}
			for _, in := range b.Instrs {
				ph, ok := in.(*ssa.Phi)
				if !ok {
					break
				}
				if idx >= 0 && isIntType(ph.Type()) {
					t := z.node(ph)
					n, o := z.term(ph.Edges[idx])
					z.add(t, 0, n, o, 0)
					z.add(n, o, t, 0, 0)
				}
				if _, isSlice := ph.Type().Underlying().(*types.Slice); idx >= 0 && isSlice {
					z.slen[ph] = z.lenOf(ph.Edges[idx])
				}
			}
		}
		if atBlock != nil && !z.infeasible() {
			if stop, ok, why := atBlock(b, from, z); stop {
				res.paths++
				res.successReturns++
				if !ok {
					res.bad++
					if res.witness == nil {
						res.witness = blocksString(p, trail)
						res.detail = why
					}
				}
				return
			}
		}
		for _, in := range b.Instrs {
			if atInstr != nil && !z.infeasible() {
				if stop, ok, why := atInstr(in, z); stop {
					res.paths++
					res.successReturns++
					if !ok {
						res.bad++
						if res.witness == nil {
							res.witness = blocksString(p, trail)
							res.detail = why
						}
					}
					return
				}
			}
			z.define(in)
			switch w := in.(type) {
			case *ssa.Return:
				res.paths++
				if z.infeasible() {
					return
				}
				if isSuccess != nil && isSuccess(w) {
					res.successReturns++
					if ok, why := oblig(z, w); !ok {
						res.bad++
						if res.witness == nil {
							res.witness = blocksString(p, trail)
							res.detail = why
						}
					}
				}
				return
			case *ssa.Panic:
				res.paths++
				return
			case *ssa.If:
				for i, su := range b.Succs {
					nz := z.clone()
					taken := i == 0
					pos, v := stripNot(w.Cond)
					outcome := taken == pos
					if bo, ok := v.(*ssa.BinOp); ok {
						switch bo.Op {
						case token.LSS, token.LEQ, token.GTR, token.GEQ, token.EQL, token.NEQ:
							if isIntType(bo.X.Type()) {
								nz.assumeCmp(bo.Op, bo.X, bo.Y, outcome)
							} else if (bo.Op == token.NEQ || bo.Op == token.EQL) && (isNilConst(bo.Y) || isNilConst(bo.X)) {
								// err != nil false  =>  post-condition of a non-negative parser
								o := bo.X
								if isNilConst(bo.X) {
									o = bo.Y
								}
								isNil := outcome == (bo.Op == token.EQL)
								if ex, ok := o.(*ssa.Extract); ok && isNil {
									if c, ok := ex.Tuple.(*ssa.Call); ok && nonNegOnNilErr[c.Call.StaticCallee()] {
										for _, ref := range *c.Referrers() {
											if e0, ok := ref.(*ssa.Extract); ok && e0.Index == 0 {
												nz.add(0, 0, nz.node(e0), 0, 0)
											}
										}
									}
								}
							}
						}
					}
					if nz.infeasible() {
						continue
					}
					walk(su, b, nz, trail)
				}
				return
			case *ssa.Jump:
				walk(b.Succs[0], b, z, trail)
				return
			}
		}
	}
	if start != nil {
		walk(start, nil, newZone(), nil)
	} else if len(fn.Blocks) > 0 {
		walk(fn.Blocks[0], nil, newZone(), nil)
	}
	return res
}
