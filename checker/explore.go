package main

// E3: path-sensitive exploration of one function over a finite abstraction.
//
// The explorer walks the SSA control-flow graph of a function. Its abstract
// state consists of
//   - facts: three-valued knowledge (true/non-nil, false/nil) about SSA values,
//     keyed by a canonical expression string, so that two syntactically
//     separate tests of the same thing (err != nil twice, s.ReduceMemoryUsage
//     twice, a flag carried through phis) correlate;
//   - ints: known small integer values (x == c facts), so that switch/select
//     chains are exclusive;
//   - a rule-owned bit set and four small counters (events, typestate, tokens).
//
// Branches whose condition is known are followed on one side only; unknown
// conditions fork and the assumed outcome is recorded as a fact. Facts about a
// value are dropped when the defining instruction executes again (loops), so
// the state space is finite and exploration is exhaustive for the abstraction.
// The abstraction over-approximates the code's paths: every concrete path is
// explored; some explored paths may be infeasible (unrelated integer
// conditions are independent).
//
// This is dataflow over a finite powerset lattice kept disjunctive: no path
// condition ever leaves the analyser and nothing is executed.

import (
	"fmt"
	"go/constant"
	"go/token"
	"go/types"
	"sort"
	"strconv"
	"strings"

	"golang.org/x/tools/go/ssa"
)

type Abs uint8

const (
	Unknown Abs = 0
	True    Abs = 1 // also: non-nil
	False   Abs = 2 // also: nil
)

func (a Abs) not() Abs {
	switch a {
	case True:
		return False
	case False:
		return True
	}
	return Unknown
}

func absOf(b bool) Abs {
	if b {
		return True
	}
	return False
}

// State is immutable from the point of view of rules except through its
// methods; Clone is cheap enough for the sizes involved.
type State struct {
	facts map[string]Abs
	ints  map[string]int64
	ali   map[string]string // phi key -> key of the operand it took on this path
	Ev    uint64
	N     [4]int8
	// bookkeeping for witnesses
	parent   *State
	blk      *ssa.BasicBlock
	note     string
	inRefine bool
}

func (s *State) clone() *State {
	n := &State{facts: make(map[string]Abs, len(s.facts)+2), ints: make(map[string]int64, len(s.ints)+1), Ev: s.Ev, N: s.N}
	if len(s.ali) > 0 {
		n.ali = make(map[string]string, len(s.ali))
		for k, v := range s.ali {
			n.ali[k] = v
		}
	}
	for k, v := range s.facts {
		n.facts[k] = v
	}
	for k, v := range s.ints {
		n.ints[k] = v
	}
	return n
}

func (s *State) Has(bit uint64) bool { return s.Ev&bit != 0 }
func (s *State) Set(bit uint64)      { s.Ev |= bit }
func (s *State) Clear(bit uint64)    { s.Ev &^= bit }

func (s *State) key() string {
	ks := make([]string, 0, len(s.facts)+len(s.ints))
	for k, v := range s.facts {
		ks = append(ks, k+"="+strconv.Itoa(int(v)))
	}
	for k, v := range s.ints {
		ks = append(ks, k+"#"+strconv.FormatInt(v, 10))
	}
	for k, v := range s.ali {
		ks = append(ks, k+"~"+v)
	}
	sort.Strings(ks)
	return fmt.Sprintf("%x|%v|%s", s.Ev, s.N, strings.Join(ks, "&"))
}

// Hooks are the rule's view of the exploration. Any of them may be nil.
type Hooks struct {
	// Instr is called for every non-phi instruction before its effect on the
	// facts is applied. It may change st.Ev / st.N and call x.SetFact.
	Instr func(x *Explorer, st *State, in ssa.Instruction)
	// Branch is called after a conditional edge was chosen.
	Branch func(x *Explorer, st *State, cond ssa.Value, taken bool, from *ssa.BasicBlock)
	// Edge is called for every CFG edge taken (after Branch), once the phis of
	// the target block have been assigned and stale facts dropped.
	Edge func(x *Explorer, st *State, from, to *ssa.BasicBlock)
	// PreEdge is called for every CFG edge before any of that happens.
	PreEdge func(x *Explorer, st *State, from, to *ssa.BasicBlock)
	// Exit is called at Return (ret != nil) and at Panic (ret == nil).
	Exit func(x *Explorer, st *State, ret *ssa.Return, pan *ssa.Panic)
	// CallEffect lets a rule describe the effect of a call on facts (e.g. "the
	// callee sets field F of its receiver to true"). Return true if handled
	// (then the default kill logic is skipped for this call).
	CallEffect func(x *Explorer, st *State, call ssa.CallInstruction) bool
	// Prune: return true to stop exploring this state (e.g. outside the region
	// of interest).
	Prune func(x *Explorer, st *State, b *ssa.BasicBlock) bool
}

type Explorer struct {
	P     *Prog
	Fn    *ssa.Function
	H     Hooks
	ids   map[ssa.Value]int
	canon map[ssa.Value]string
	defs  map[*ssa.BasicBlock][]string // tokens (re)defined when the block runs
	mods  *modInfo
	// limits / statistics
	MaxStates int
	States    int
	Edges     int
	Aborted   bool
	escAlloc  map[*ssa.Alloc]bool
	escFrom   map[*ssa.Alloc]map[*ssa.BasicBlock]bool // blocks at or after a point where the alloc's address escapes
	// track: keys worth remembering when a branch on an unknown condition is
	// taken (tested at least twice, or flowing into a phi). Everything else is
	// explored path-insensitively, which keeps the state space small.
	track    map[string]int
	TrackAll bool
	// liveness of fact keys: a fact is dropped on entering a block from which
	// no instruction that could consult it is reachable.
	keep     map[string]bool
	liveAt   map[string][]bool
	liveInit bool
	Debug    bool
	DbgKeys  map[int]map[string]int
	byKey    map[string]ssa.Value
	// AliasPhis: phis (of any type) for which the operand taken on the current
	// path is remembered (st.ali), so rules can ask where a value came from.
	AliasPhis map[*ssa.Phi]bool
	byKeyPhi  map[string]*ssa.Phi
	spillKeys map[string]bool // "*(alloc)" cells of memory-resident locals whose content is followed (st.ali)
	// Filter, when set, restricts which fact keys are remembered at all (keys
	// forced with Track are always kept). Rules use it to leave out conditions
	// that cannot matter for them (configuration fields, integer counters), which
	// keeps the explored state space small. Dropping facts only adds paths.
	Filter func(key string) bool
	// shapes of addresses this function stores to: a load from such an address
	// is a register whose value must not follow later stores (see unstableLoad)
	storedField  map[*types.Var]bool
	storedAlloc  map[*ssa.Alloc]bool
	storedGlobal map[*ssa.Global]bool
}

func NewExplorer(p *Prog, fn *ssa.Function, h Hooks) *Explorer {
	x := &Explorer{P: p, Fn: fn, H: h, ids: map[ssa.Value]int{}, canon: map[ssa.Value]string{},
		defs: map[*ssa.BasicBlock][]string{}, MaxStates: 400000, escAlloc: map[*ssa.Alloc]bool{}, byKey: map[string]ssa.Value{}, spillKeys: map[string]bool{}}
	x.mods = p.modInfo()
	x.storedField, x.storedAlloc, x.storedGlobal = map[*types.Var]bool{}, map[*ssa.Alloc]bool{}, map[*ssa.Global]bool{}
	for _, b := range fn.Blocks {
		for _, in := range b.Instrs {
			if st, ok := in.(*ssa.Store); ok {
				switch a := st.Addr.(type) {
				case *ssa.FieldAddr:
					if fv := fieldVar(a.X.Type(), a.Field); fv != nil {
						x.storedField[fv] = true
					}
				case *ssa.Alloc:
					x.storedAlloc[a] = true
				case *ssa.Global:
					x.storedGlobal[a] = true
				}
			}
			// a field a callee of this function may write can change between two loads just as well: a value
			// loaded from it is then a register of its own (moving a store into a helper must not change verdicts)
			if c, ok := in.(*ssa.Call); ok {
				if g := c.Call.StaticCallee(); g != nil && inModule(g) {
					for fv := range x.mods.of(g) {
						x.storedField[fv] = true
					}
				}
			}
		}
	}
	n := 0
	for _, prm := range fn.Params {
		n++
		x.ids[prm] = n
	}
	for _, fv := range fn.FreeVars {
		n++
		x.ids[fv] = n
	}
	for _, b := range fn.Blocks {
		for _, in := range b.Instrs {
			if v, ok := in.(ssa.Value); ok {
				n++
				x.ids[v] = n
				x.defs[b] = append(x.defs[b], x.tok(v))
			}
		}
	}
	// escaping allocs: address captured by a closure, passed to a call, stored, or returned
	for _, b := range fn.Blocks {
		for _, in := range b.Instrs {
			a, ok := in.(*ssa.Alloc)
			if !ok {
				continue
			}
			for _, ref := range *a.Referrers() {
				esc := false
				switch r := ref.(type) {
				case *ssa.Store:
					if r.Val == a {
						esc = true
					}
				case *ssa.UnOp, *ssa.FieldAddr, *ssa.IndexAddr, *ssa.DebugRef:
				default:
					esc = true
				}
				if esc {
					x.escAlloc[a] = true
					if x.escFrom == nil {
						x.escFrom = map[*ssa.Alloc]map[*ssa.BasicBlock]bool{}
					}
					m := x.escFrom[a]
					if m == nil {
						m = map[*ssa.BasicBlock]bool{}
						x.escFrom[a] = m
					}
					// the escaping instruction's block and everything reachable from it
					stack := []*ssa.BasicBlock{ref.Block()}
					for len(stack) > 0 {
						bb := stack[len(stack)-1]
						stack = stack[:len(stack)-1]
						if m[bb] {
							continue
						}
						m[bb] = true
						stack = append(stack, bb.Succs...)
					}
				}
			}
		}
	}
	x.track = map[string]int{}
	for _, b := range fn.Blocks {
		for _, in := range b.Instrs {
			switch in := in.(type) {
			case *ssa.If:
				for _, k := range x.assumeKeys(in.Cond, 0) {
					x.track[k]++
				}
			case *ssa.Phi:
				if isBool(in.Type()) || nilable(in.Type()) {
					for _, e := range in.Edges {
						if _, isC := e.(*ssa.Const); !isC {
							x.track[x.Canon(e)] += 2
						}
					}
					x.track[x.Canon(in)] += 2
				}
			case *ssa.Store:
				if isBool(in.Val.Type()) || nilable(in.Val.Type()) {
					if _, isC := in.Val.(*ssa.Const); !isC {
						x.track[x.Canon(in.Val)] += 2
					}
				}
			}
		}
	}
	return x
}

// Track forces facts about v to be remembered on branches and kept alive
// everywhere (rules call it for values they Eval in hooks).
func (x *Explorer) Track(v ssa.Value) {
	for _, k := range x.evalKeys(v, 0) {
		x.track[k] += 2
		if x.keep == nil {
			x.keep = map[string]bool{}
		}
		x.keep[k] = true
	}
}

// evalKeys lists the fact keys Eval(v) may consult.
func (x *Explorer) evalKeys(v ssa.Value, depth int) []string {
	if depth > 10 {
		return nil
	}
	if _, ok := v.(*ssa.Const); ok {
		return nil
	}
	out := []string{x.Canon(v)}
	switch v := v.(type) {
	case *ssa.UnOp:
		if v.Op == token.NOT {
			out = append(out, x.evalKeys(v.X, depth+1)...)
		}
		if v.Op == token.MUL && x.unstableLoad(v) {
			// the register takes its value from the memory cell when the load executes
			out = append(out, "*("+x.Canon(v.X)+")")
		}
	case *ssa.BinOp:
		switch v.Op {
		case token.EQL, token.NEQ, token.LSS, token.LEQ, token.GTR, token.GEQ:
			out = append(out, x.evalKeys(v.X, depth+1)...)
			out = append(out, x.evalKeys(v.Y, depth+1)...)
			if fk := x.flipKey(v); fk != "" {
				out = append(out, fk)
			}
		}
	case *ssa.ChangeType:
		out = append(out, x.evalKeys(v.X, depth+1)...)
	case *ssa.ChangeInterface:
		out = append(out, x.evalKeys(v.X, depth+1)...)
	}
	return out
}

func (x *Explorer) initLiveness() {
	x.liveInit = true
	n := len(x.Fn.Blocks)
	uses := map[string][]int{}
	add := func(v ssa.Value, b int) {
		for _, k := range x.evalKeys(v, 0) {
			uses[k] = append(uses[k], b)
		}
	}
	for _, b := range x.Fn.Blocks {
		for _, in := range b.Instrs {
			switch in := in.(type) {
			case *ssa.If:
				add(in.Cond, b.Index)
			case *ssa.Store:
				add(in.Val, b.Index)
			case *ssa.Return:
				for _, rv := range returnResults(in) {
					add(rv, b.Index)
				}
			}
		}
		for _, s := range b.Succs {
			idx := -1
			for i, p := range s.Preds {
				if p == b {
					idx = i
				}
			}
			for _, in := range s.Instrs {
				phi, ok := in.(*ssa.Phi)
				if !ok {
					break
				}
				if idx >= 0 {
					add(phi.Edges[idx], b.Index)
				}
			}
		}
	}
	preds := make([][]int, n)
	for _, b := range x.Fn.Blocks {
		for _, s := range b.Succs {
			preds[s.Index] = append(preds[s.Index], b.Index)
		}
	}
	// id -> defining block
	defBlock := map[int]int{}
	for v, id := range x.ids {
		if in, ok := v.(ssa.Instruction); ok && in.Block() != nil {
			defBlock[id] = in.Block().Index
		}
	}
	x.liveAt = map[string][]bool{}
	for k, us := range uses {
		// blocks that (re)define a value mentioned in the key: the fact dies there
		defs := map[int]bool{}
		for i := 0; i < len(k); i++ {
			if k[i] != '<' {
				continue
			}
			j := strings.IndexByte(k[i:], '>')
			if j < 0 {
				break
			}
			if id, err := strconv.Atoi(k[i+1 : i+j]); err == nil {
				if db, ok := defBlock[id]; ok {
					defs[db] = true
				}
			}
			i += j
		}
		liveIn := make([]bool, n)
		var stack []int
		for _, u := range us {
			if !defs[u] && !liveIn[u] {
				liveIn[u] = true
				stack = append(stack, u)
			} else if defs[u] {
				// used after its definition inside u: not live on entry to u
			}
		}
		for len(stack) > 0 {
			c := stack[len(stack)-1]
			stack = stack[:len(stack)-1]
			for _, pb := range preds[c] {
				if liveIn[pb] || defs[pb] {
					continue
				}
				liveIn[pb] = true
				stack = append(stack, pb)
			}
		}
		x.liveAt[k] = liveIn
	}
}

// pruneDead drops facts nobody can consult from block b on.
func (x *Explorer) pruneDead(st *State, b *ssa.BasicBlock) {
	for k := range st.facts {
		if x.keep[k] {
			continue
		}
		if l := x.liveAt[k]; l == nil || !l[b.Index] {
			delete(st.facts, k)
		}
	}
	for k := range st.ints {
		if x.keep[k] {
			continue
		}
		if l := x.liveAt[k]; l == nil || !l[b.Index] {
			delete(st.ints, k)
		}
	}
	for k := range st.ali {
		if x.keep[k] {
			continue
		}
		if v := x.byKeyPhi[k]; v != nil && x.AliasPhis[v] {
			continue
		}
		if x.spillKeys[k] {
			continue
		}
		if l := x.liveAt[k]; l == nil || !l[b.Index] {
			delete(st.ali, k)
		}
	}
}

// assumeKeys lists the fact keys that assuming cond would set.
func (x *Explorer) assumeKeys(v ssa.Value, depth int) []string {
	if depth > 10 {
		return nil
	}
	switch v := v.(type) {
	case *ssa.UnOp:
		if v.Op == token.NOT {
			return x.assumeKeys(v.X, depth+1)
		}
	case *ssa.BinOp:
		switch v.Op {
		case token.EQL, token.NEQ:
			switch {
			case isNilConst(v.Y):
				return []string{x.Canon(stripConv(v.X))}
			case isNilConst(v.X):
				return []string{x.Canon(stripConv(v.Y))}
			case isBool(v.X.Type()):
				return append(x.assumeKeys(v.X, depth+1), x.assumeKeys(v.Y, depth+1)...)
			default:
				if _, ok := constInt(v.Y); ok {
					return []string{x.Canon(v.X), x.Canon(v)}
				}
				if _, ok := constInt(v.X); ok {
					return []string{x.Canon(v.Y), x.Canon(v)}
				}
			}
		}
	}
	if bo, ok := v.(*ssa.BinOp); ok {
		if fk := x.flipKey(bo); fk != "" {
			return []string{x.Canon(v), fk}
		}
	}
	return []string{x.Canon(v)}
}

func stripConv(v ssa.Value) ssa.Value {
	for {
		switch w := v.(type) {
		case *ssa.ChangeType:
			v = w.X
			continue
		case *ssa.ChangeInterface:
			v = w.X
			continue
		}
		return v
	}
}

func (x *Explorer) tracked(key string) bool {
	if x.keep[key] {
		return true
	}
	if x.Filter != nil && !x.Filter(key) {
		return false
	}
	return x.TrackAll || x.track[key] >= 2
}

// allowed: may a fact with this key be stored at all (Filter mode)?
func (x *Explorer) allowed(key string) bool {
	return x.Filter == nil || x.keep[key] || x.Filter(key)
}

// flipKey: the key of the opposite (in)equality over the same operands, so that
// "a != b" found false is known when "a == b" is tested later.
func (x *Explorer) flipKey(v *ssa.BinOp) string {
	if v.Op != token.EQL && v.Op != token.NEQ {
		return ""
	}
	a, b := x.Canon(v.X), x.Canon(v.Y)
	if b < a {
		a, b = b, a
	}
	op := token.EQL
	if v.Op == token.EQL {
		op = token.NEQ
	}
	return "(" + a + " " + op.String() + " " + b + ")"
}

func (x *Explorer) tok(v ssa.Value) string { return "<" + strconv.Itoa(x.ids[v]) + ">" }

// Canon returns the canonical key of a value. Values that denote the same
// computation over the same inputs get the same key.
func (x *Explorer) Canon(v ssa.Value) string {
	if s, ok := x.canon[v]; ok {
		return s
	}
	s := x.canon1(v, 0)
	x.canon[v] = s
	return s
}

func (x *Explorer) canon1(v ssa.Value, depth int) string {
	if depth > 12 {
		return "deep" + x.tok(v)
	}
	switch v := v.(type) {
	case *ssa.Const:
		if v.Value == nil {
			return "nil"
		}
		return "c:" + v.Value.ExactString()
	case *ssa.Parameter:
		return "p:" + v.Name() + x.tok(v)
	case *ssa.FreeVar:
		return "fv:" + v.Name() + x.tok(v)
	case *ssa.Global:
		return "g:" + v.Pkg.Pkg.Path() + "." + v.Name()
	case *ssa.Function:
		return "fn:" + v.String()
	case *ssa.Builtin:
		return "builtin:" + v.Name()
	case *ssa.FieldAddr:
		return x.canon1(v.X, depth+1) + "." + fieldName(v.X.Type(), v.Field) + "@"
	case *ssa.Field:
		return x.canon1(v.X, depth+1) + "." + fieldNameStruct(v.X.Type(), v.Field)
	case *ssa.UnOp:
		switch v.Op {
		case token.MUL:
			if x.unstableLoad(v) {
				return "ld" + x.tok(v)
			}
			return "*(" + x.canon1(v.X, depth+1) + ")"
		case token.NOT:
			return "!(" + x.canon1(v.X, depth+1) + ")"
		default:
			return v.Op.String() + "(" + x.canon1(v.X, depth+1) + ")"
		}
	case *ssa.BinOp:
		a, b := x.canon1(v.X, depth+1), x.canon1(v.Y, depth+1)
		op := v.Op
		// normalise commutative comparisons and flip > / >= to < / <=
		switch op {
		case token.EQL, token.NEQ, token.ADD, token.MUL, token.AND, token.OR, token.XOR:
			if b < a {
				a, b = b, a
			}
		case token.GTR:
			op = token.LSS
			a, b = b, a
		case token.GEQ:
			op = token.LEQ
			a, b = b, a
		}
		return "(" + a + " " + op.String() + " " + b + ")"
	case *ssa.ChangeType:
		return x.canon1(v.X, depth+1)
	case *ssa.ChangeInterface:
		return x.canon1(v.X, depth+1)
	case *ssa.Convert:
		return "conv(" + x.canon1(v.X, depth+1) + ")"
	case *ssa.MakeInterface:
		return "mkiface(" + x.canon1(v.X, depth+1) + ")"
	case *ssa.Call:
		if b, ok := v.Call.Value.(*ssa.Builtin); ok && (b.Name() == "len" || b.Name() == "cap") && len(v.Call.Args) == 1 {
			return b.Name() + "(" + x.canon1(v.Call.Args[0], depth+1) + ")"
		}
		return "call" + x.tok(v)
	case *ssa.Extract:
		return "ex" + strconv.Itoa(v.Index) + "(" + x.canon1(v.Tuple, depth+1) + ")"
	case *ssa.Alloc:
		return "alloc" + x.tok(v)
	}
	return "v" + x.tok(v)
}

// unstableLoad: the loaded value is a register. Keying it by its memory path
// (so that separate loads of the same cell correlate) is only sound when the
// function never stores to a cell of that shape: otherwise a later store would
// wrongly change what is known about the register. Such loads get a key of
// their own and receive the memory fact, if any, when they execute.
func (x *Explorer) unstableLoad(v *ssa.UnOp) bool {
	switch a := v.X.(type) {
	case *ssa.FieldAddr:
		fv := fieldVar(a.X.Type(), a.Field)
		return fv == nil || x.storedField[fv]
	case *ssa.Alloc:
		return x.storedAlloc[a]
	case *ssa.Global:
		return x.storedGlobal[a]
	case *ssa.Parameter, *ssa.FreeVar:
		// *p: stores through the same pointer value are found by key equality below
		for _, ref := range *v.X.Referrers() {
			if st, ok := ref.(*ssa.Store); ok && st.Addr == v.X {
				return true
			}
		}
		return false
	}
	return true
}

func fieldName(t types.Type, idx int) string {
	if p, ok := t.Underlying().(*types.Pointer); ok {
		return fieldNameStruct(p.Elem(), idx)
	}
	return fieldNameStruct(t, idx)
}

func fieldNameStruct(t types.Type, idx int) string {
	if st, ok := t.Underlying().(*types.Struct); ok && idx < st.NumFields() {
		return st.Field(idx).Name()
	}
	return "f" + strconv.Itoa(idx)
}

func fieldVar(t types.Type, idx int) *types.Var {
	if p, ok := t.Underlying().(*types.Pointer); ok {
		t = p.Elem()
	}
	if st, ok := t.Underlying().(*types.Struct); ok && idx < st.NumFields() {
		return st.Field(idx)
	}
	return nil
}

// ---- evaluation ----

func isNilConst(v ssa.Value) bool {
	c, ok := v.(*ssa.Const)
	return ok && c.Value == nil && !isBasic(c.Type())
}

func isBasic(t types.Type) bool {
	_, ok := t.Underlying().(*types.Basic)
	return ok
}

func constInt(v ssa.Value) (int64, bool) {
	c, ok := v.(*ssa.Const)
	if !ok || c.Value == nil {
		return 0, false
	}
	if c.Value.Kind() != constant.Int {
		return 0, false
	}
	i, ok := constant.Int64Val(c.Value)
	return i, ok
}

func nilable(t types.Type) bool {
	switch t.Underlying().(type) {
	case *types.Pointer, *types.Interface, *types.Map, *types.Chan, *types.Signature, *types.Slice:
		return true
	}
	return false
}

func isBool(t types.Type) bool {
	b, ok := t.Underlying().(*types.Basic)
	return ok && b.Info()&types.IsBoolean != 0
}

// Eval returns what the state knows about a boolean value, or about the
// nil-ness of a pointer-like value (True = non-nil).
func (x *Explorer) Eval(st *State, v ssa.Value) Abs {
	return x.eval(st, v, 0)
}

func (x *Explorer) eval(st *State, v ssa.Value, depth int) Abs {
	if depth > 10 {
		return Unknown
	}
	switch v := v.(type) {
	case *ssa.Const:
		if v.Value == nil {
			if isBasic(v.Type()) {
				return Unknown
			}
			return False // nil
		}
		if v.Value.Kind() == constant.Bool {
			return absOf(constant.BoolVal(v.Value))
		}
		return Unknown
	}
	if a, ok := st.facts[x.Canon(v)]; ok && a != Unknown {
		return a
	}
	if bo, ok := v.(*ssa.BinOp); ok && (bo.Op == token.EQL || bo.Op == token.NEQ) {
		if a, ok := st.facts[x.flipKey(bo)]; ok && a != Unknown {
			return a.not()
		}
	}
	switch v := v.(type) {
	case *ssa.UnOp:
		if v.Op == token.NOT {
			return x.eval(st, v.X, depth+1).not()
		}
	case *ssa.BinOp:
		switch v.Op {
		case token.EQL, token.NEQ:
			var r Abs
			switch {
			case isNilConst(v.Y):
				r = x.eval(st, v.X, depth+1).not() // x == nil  is true when x is nil(False)
			case isNilConst(v.X):
				r = x.eval(st, v.Y, depth+1).not()
			case isBool(v.X.Type()):
				a, b := x.eval(st, v.X, depth+1), x.eval(st, v.Y, depth+1)
				if a != Unknown && b != Unknown {
					r = absOf(a == b)
				}
			default:
				if c, ok := constInt(v.Y); ok {
					if k, ok := st.ints[x.Canon(v.X)]; ok {
						r = absOf(k == c)
					}
				} else if c, ok := constInt(v.X); ok {
					if k, ok := st.ints[x.Canon(v.Y)]; ok {
						r = absOf(k == c)
					}
				} else if nilable(v.X.Type()) {
					// identity: both sides are the content of the same package-level sentinel (err == errFoo, where the
					// path assigned err = errFoo), and the function never assigns that sentinel
					if g := x.sentinelOf(st, v.X); g != nil && g == x.sentinelOf(st, v.Y) {
						r = True
					}
				}
			}
			if r == Unknown {
				return Unknown
			}
			if v.Op == token.NEQ {
				return r.not()
			}
			return r
		case token.LSS, token.LEQ, token.GTR, token.GEQ:
			xi, okx := x.intOf(st, v.X)
			yi, oky := x.intOf(st, v.Y)
			if okx && oky {
				switch v.Op {
				case token.LSS:
					return absOf(xi < yi)
				case token.LEQ:
					return absOf(xi <= yi)
				case token.GTR:
					return absOf(xi > yi)
				case token.GEQ:
					return absOf(xi >= yi)
				}
			}
		}
	case *ssa.ChangeType:
		return x.eval(st, v.X, depth+1)
	case *ssa.ChangeInterface:
		return x.eval(st, v.X, depth+1)
	case *ssa.MakeInterface:
		// an interface holding a typed value is non-nil even if the value is a nil pointer
		return True
	case *ssa.Alloc, *ssa.FieldAddr, *ssa.IndexAddr, *ssa.MakeClosure, *ssa.MakeMap, *ssa.MakeChan, *ssa.MakeSlice, *ssa.Function, *ssa.Global:
		return True
	case *ssa.Slice:
		return Unknown
	}
	return Unknown
}

func (x *Explorer) intOf(st *State, v ssa.Value) (int64, bool) {
	if c, ok := constInt(v); ok {
		return c, true
	}
	k, ok := st.ints[x.Canon(v)]
	return k, ok
}

// sentinelOf: v is (on this path) the value loaded from a package-level
// variable that this function does not assign.
func (x *Explorer) sentinelOf(st *State, v ssa.Value) *ssa.Global {
	for i := 0; i < 8; i++ {
		v = stripConv(v)
		if u, ok := v.(*ssa.UnOp); ok && u.Op == token.MUL {
			if g, ok := u.X.(*ssa.Global); ok && !x.storedGlobal[g] {
				return g
			}
		}
		k, ok := st.ali[x.Canon(v)]
		if !ok {
			return nil
		}
		nv := x.byKey[k]
		if nv == nil {
			return nil
		}
		v = nv
	}
	return nil
}

// SetFact records knowledge about v (bool value or nil-ness).
func (x *Explorer) SetFact(st *State, v ssa.Value, a Abs) {
	k := x.Canon(v)
	if a == Unknown {
		delete(st.facts, k)
		return
	}
	st.facts[k] = a
}

func (x *Explorer) SetKey(st *State, key string, a Abs) {
	if a == Unknown {
		delete(st.facts, key)
		return
	}
	st.facts[key] = a
}

// assume refines the state with "v evaluates to want".
func (x *Explorer) assume(st *State, v ssa.Value, want bool, depth int) {
	if depth > 10 {
		return
	}
	switch v := v.(type) {
	case *ssa.UnOp:
		if v.Op == token.NOT {
			x.assume(st, v.X, !want, depth+1)
			return
		}
	case *ssa.BinOp:
		switch v.Op {
		case token.EQL, token.NEQ:
			eq := want == (v.Op == token.EQL)
			switch {
			case isNilConst(v.Y):
				x.setNil(st, v.X, eq)
				return
			case isNilConst(v.X):
				x.setNil(st, v.Y, eq)
				return
			case isBool(v.X.Type()):
				if a := x.eval(st, v.Y, 0); a != Unknown {
					x.assume(st, v.X, (a == True) == eq, depth+1)
					return
				}
				if a := x.eval(st, v.X, 0); a != Unknown {
					x.assume(st, v.Y, (a == True) == eq, depth+1)
					return
				}
			default:
				if c, ok := constInt(v.Y); ok && eq {
					if k := x.Canon(v.X); x.tracked(k) {
						st.ints[k] = c
					}
				} else if c, ok := constInt(v.X); ok && eq {
					if k := x.Canon(v.Y); x.tracked(k) {
						st.ints[k] = c
					}
				}
			}
		}
	}
	if k := x.Canon(v); x.tracked(k) {
		st.facts[k] = absOf(want)
	}
	x.toSpilled(st, v, absOf(want))
	if bo, ok := v.(*ssa.BinOp); ok {
		if fk := x.flipKey(bo); fk != "" && x.tracked(fk) {
			st.facts[fk] = absOf(!want)
		}
	}
	if phi, ok := v.(*ssa.Phi); ok {
		x.refinePhi(st, phi, absOf(want), depth)
	}
}

// refinePhi propagates knowledge about a phi back to its operands: if all but
// one distinct incoming value are state-independently known to differ from
// the assumed outcome, the phi must have taken the remaining one.
func (x *Explorer) refinePhi(st *State, phi *ssa.Phi, want Abs, depth int) {
	if depth > 6 {
		return
	}
	if ok, has := st.ali[x.Canon(phi)]; has {
		if ov := x.byKey[ok]; ov != nil {
			if isBool(ov.Type()) {
				x.assume(st, ov, want == True, depth+1)
			} else if nilable(ov.Type()) {
				if x.tracked(ok) {
					st.facts[ok] = want
				}
				if p2, isPhi := ov.(*ssa.Phi); isPhi {
					x.refinePhi(st, p2, want, depth+1)
				}
			}
			return
		}
	}
	var cand ssa.Value
	n := 0
	seen := map[ssa.Value]bool{}
	for _, e := range phi.Edges {
		if seen[e] {
			continue
		}
		seen[e] = true
		if a := staticAbs(e); a != Unknown && a != want {
			continue
		}
		cand = e
		n++
	}
	if n != 1 || cand == nil {
		return
	}
	if staticAbs(cand) != Unknown {
		return
	}
	if isBool(cand.Type()) {
		x.assume(st, cand, want == True, depth+1)
	} else if nilable(cand.Type()) {
		c := stripConv(cand)
		if k := x.Canon(c); x.tracked(k) {
			st.facts[k] = want
		}
		if p2, ok := c.(*ssa.Phi); ok {
			x.refinePhi(st, p2, want, depth+1)
		}
	}
}

// staticAbs is the part of Eval that does not depend on the state.
func staticAbs(v ssa.Value) Abs {
	switch v := v.(type) {
	case *ssa.Const:
		if v.Value == nil {
			if isBasic(v.Type()) {
				return Unknown
			}
			return False
		}
		if v.Value.Kind() == constant.Bool {
			return absOf(constant.BoolVal(v.Value))
		}
	case *ssa.MakeInterface, *ssa.Alloc, *ssa.FieldAddr, *ssa.IndexAddr, *ssa.MakeClosure, *ssa.MakeMap, *ssa.MakeChan, *ssa.MakeSlice, *ssa.Function, *ssa.Global:
		return True
	case *ssa.ChangeType:
		return staticAbs(v.X)
	case *ssa.ChangeInterface:
		return staticAbs(v.X)
	}
	return Unknown
}

func (x *Explorer) setNil(st *State, v ssa.Value, isNil bool) {
	// look through conversions so that the fact lands on the underlying value
	for {
		switch w := v.(type) {
		case *ssa.ChangeType:
			v = w.X
			continue
		case *ssa.ChangeInterface:
			v = w.X
			continue
		}
		break
	}
	if k := x.Canon(v); x.tracked(k) {
		st.facts[k] = absOf(!isNil)
	}
	x.toSpilled(st, v, absOf(!isNil))
	if phi, ok := v.(*ssa.Phi); ok && !st.inRefine {
		st.inRefine = true
		x.refinePhi(st, phi, absOf(!isNil), 0)
		st.inRefine = false
	}
}

// toSpilled: v is a register read from a memory-resident local variable; what
// is learnt about it is learnt about the value that was stored there.
func (x *Explorer) toSpilled(st *State, v ssa.Value, a Abs) {
	u, ok := v.(*ssa.UnOp)
	if !ok || u.Op != token.MUL {
		return
	}
	if _, isAlloc := u.X.(*ssa.Alloc); !isAlloc {
		return
	}
	tgt, ok := st.ali[x.Canon(v)]
	if !ok {
		return
	}
	if x.tracked(tgt) {
		st.facts[tgt] = a
	}
	if ov := x.byKey[tgt]; ov != nil {
		if phi, isPhi := ov.(*ssa.Phi); isPhi && !st.inRefine {
			st.inRefine = true
			x.refinePhi(st, phi, a, 0)
			st.inRefine = false
		}
	}
}

// kill drops every fact whose key mentions one of the tokens.
func (st *State) kill(tokens []string) {
	if len(tokens) == 0 {
		return
	}
	for k := range st.facts {
		for _, t := range tokens {
			if strings.Contains(k, t) {
				delete(st.facts, k)
				break
			}
		}
	}
	for k := range st.ints {
		for _, t := range tokens {
			if strings.Contains(k, t) {
				delete(st.ints, k)
				break
			}
		}
	}
	for k, v := range st.ali {
		for _, t := range tokens {
			if strings.Contains(k, t) || strings.Contains(v, t) {
				delete(st.ali, k)
				break
			}
		}
	}
}

// killField drops facts about loads of the given field name through any path
// (possible aliases), except the key keep.
func (st *State) killField(field string, keep string) {
	pat := "." + field + "@)"
	for k := range st.facts {
		if k != keep && strings.Contains(k, pat) {
			delete(st.facts, k)
		}
	}
	for k := range st.ints {
		if k != keep && strings.Contains(k, pat) {
			delete(st.ints, k)
		}
	}
}

// ---- exploration ----

type workItem struct {
	b  *ssa.BasicBlock
	st *State
}

// Run explores from the function entry.
func (x *Explorer) Run(init *State) {
	if init == nil {
		init = &State{facts: map[string]Abs{}, ints: map[string]int64{}}
	}
	if init.facts == nil {
		init.facts = map[string]Abs{}
	}
	if init.ints == nil {
		init.ints = map[string]int64{}
	}
	if len(x.Fn.Blocks) == 0 {
		return
	}
	x.RunFrom(x.Fn.Blocks[0], init)
}

func (x *Explorer) RunFrom(start *ssa.BasicBlock, init *State) {
	if !x.liveInit {
		x.initLiveness()
	}
	visited := map[*ssa.BasicBlock]map[string]bool{}
	work := []workItem{{start, init}}
	for len(work) > 0 {
		it := work[len(work)-1]
		work = work[:len(work)-1]
		b, st := it.b, it.st
		if x.H.Prune != nil && x.H.Prune(x, st, b) {
			continue
		}
		k := st.key()
		if visited[b] == nil {
			visited[b] = map[string]bool{}
		}
		if visited[b][k] {
			continue
		}
		visited[b][k] = true
		if x.Debug {
			if x.DbgKeys == nil {
				x.DbgKeys = map[int]map[string]int{}
			}
			m := x.DbgKeys[b.Index]
			if m == nil {
				m = map[string]int{}
				x.DbgKeys[b.Index] = m
			}
			m["#states"]++
			for fk, fv := range st.facts {
				m[fk+"="+strconv.Itoa(int(fv))]++
			}
			for fk := range st.ints {
				m["int:"+fk]++
			}
		}
		x.States++
		if x.States > x.MaxStates {
			x.Aborted = true
			return
		}
		st.blk = b
		succs := x.execBlock(b, st)
		for _, s := range succs {
			work = append(work, s)
		}
	}
}

func (x *Explorer) execBlock(b *ssa.BasicBlock, st *State) []workItem {
	for _, in := range b.Instrs {
		if _, ok := in.(*ssa.Phi); ok {
			continue
		}
		if x.H.Instr != nil {
			x.H.Instr(x, st, in)
		}
		x.effect(st, in)
		switch t := in.(type) {
		case *ssa.If:
			a := x.Eval(st, t.Cond)
			var out []workItem
			for i, succ := range b.Succs {
				taken := i == 0
				if (a == True && !taken) || (a == False && taken) {
					continue
				}
				ns := st.clone()
				ns.parent = st
				if a == Unknown {
					x.assume(ns, t.Cond, taken, 0)
				}
				if x.H.Branch != nil {
					x.H.Branch(x, ns, t.Cond, taken, b)
				}
				x.enter(ns, b, succ)
				out = append(out, workItem{succ, ns})
			}
			return out
		case *ssa.Jump:
			ns := st.clone()
			ns.parent = st
			x.enter(ns, b, b.Succs[0])
			return []workItem{{b.Succs[0], ns}}
		case *ssa.Return:
			if x.H.Exit != nil {
				x.H.Exit(x, st, t, nil)
			}
			return nil
		case *ssa.Panic:
			if x.H.Exit != nil {
				x.H.Exit(x, st, nil, t)
			}
			return nil
		}
	}
	return nil
}

// enter applies the phi assignments of edge from->to, kills stale facts about
// values that are about to be recomputed in to, and notifies the rule.
func (x *Explorer) enter(st *State, from, to *ssa.BasicBlock) {
	x.Edges++
	if x.H.PreEdge != nil {
		x.H.PreEdge(x, st, from, to)
	}
	idx := -1
	for i, p := range to.Preds {
		if p == from {
			idx = i
			break
		}
	}
	type upd struct {
		phi   *ssa.Phi
		a     Abs
		i     int64
		hasI  bool
		op    ssa.Value
		force bool
	}
	var ups []upd
	for _, in := range to.Instrs {
		phi, ok := in.(*ssa.Phi)
		if !ok {
			break
		}
		if idx < 0 {
			continue
		}
		e := phi.Edges[idx]
		u := upd{phi: phi}
		if isBool(phi.Type()) || nilable(phi.Type()) {
			u.a = x.Eval(st, e)
			if u.a == Unknown {
				if _, isC := e.(*ssa.Const); !isC {
					u.op = stripConv(e)
				}
			}
		} else if k, ok := x.intOf(st, e); ok {
			u.i, u.hasI = k, true
		}
		if x.AliasPhis[phi] && u.op == nil {
			if _, isC := e.(*ssa.Const); !isC {
				u.op = stripConv(e)
				u.force = true
			}
		}
		ups = append(ups, u)
	}
	st.kill(x.defs[to])
	x.pruneDead(st, to)
	for _, u := range ups {
		k := x.Canon(u.phi)
		if !x.allowed(k) && !u.force {
			continue
		}
		if u.a != Unknown {
			st.facts[k] = u.a
		}
		if u.hasI {
			st.ints[k] = u.i
		}
		if u.op != nil && (u.force || x.tracked(k)) {
			ok := x.Canon(u.op)
			if ok != k {
				if st.ali == nil {
					st.ali = map[string]string{}
				}
				st.ali[k] = ok
				x.byKey[ok] = u.op
				if x.byKeyPhi == nil {
					x.byKeyPhi = map[string]*ssa.Phi{}
				}
				x.byKeyPhi[k] = u.phi
			}
		}
	}
	if x.H.Edge != nil {
		x.H.Edge(x, st, from, to)
	}
}

// effect applies the memory effect of an instruction to the facts.
func (x *Explorer) effect(st *State, in ssa.Instruction) {
	switch in := in.(type) {
	case *ssa.Alloc:
		// a new variable holds its zero value
		if pt, ok := in.Type().Underlying().(*types.Pointer); ok {
			key := "*(" + x.Canon(in) + ")"
			if x.allowed(key) {
				switch {
				case isBool(pt.Elem()) || nilable(pt.Elem()):
					st.facts[key] = False
				case isIntType(pt.Elem()):
					st.ints[key] = 0
				}
			}
		}
	case *ssa.UnOp:
		if in.Op == token.MUL && x.unstableLoad(in) {
			mem := "*(" + x.Canon(in.X) + ")"
			k := x.Canon(in)
			// a variable kept in memory (named results are, once the function defers): the register read from it
			// is the value last stored there
			if tgt, ok := st.ali[mem]; ok {
				st.ali[k] = tgt
				x.spillKeys[k] = true
			}
			if a, ok := st.facts[mem]; ok && a != Unknown && x.allowed(k) {
				st.facts[k] = a
			}
			if i, ok := st.ints[mem]; ok && x.allowed(k) {
				st.ints[k] = i
			}
		}
	case *ssa.Store:
		key := "*(" + x.Canon(in.Addr) + ")"
		if fa, ok := in.Addr.(*ssa.FieldAddr); ok {
			st.killField(fieldName(fa.X.Type(), fa.Field), key)
		}
		delete(st.facts, key)
		delete(st.ints, key)
		// drop composite facts that mention the old content
		for k := range st.facts {
			if k != key && strings.Contains(k, key) {
				delete(st.facts, k)
			}
		}
		for k := range st.ints {
			if k != key && strings.Contains(k, key) {
				delete(st.ints, k)
			}
		}
		delete(st.ali, key)
		if a, isAlloc := in.Addr.(*ssa.Alloc); isAlloc && !x.escAlloc[a] && (isBool(in.Val.Type()) || nilable(in.Val.Type())) {
			if _, isC := in.Val.(*ssa.Const); !isC {
				vk := x.Canon(stripConv(in.Val))
				if st.ali == nil {
					st.ali = map[string]string{}
				}
				st.ali[key] = vk
				x.byKey[vk] = stripConv(in.Val)
				x.spillKeys[key] = true
			}
		}
		if !x.allowed(key) {
			break
		}
		if isBool(in.Val.Type()) || nilable(in.Val.Type()) {
			if a := x.Eval(st, in.Val); a != Unknown {
				st.facts[key] = a
			}
		} else if k, ok := x.intOf(st, in.Val); ok {
			st.ints[key] = k
		}
	case ssa.CallInstruction:
		if x.H.CallEffect != nil && x.H.CallEffect(x, st, in) {
			return
		}
		x.callKills(st, in)
		if cv, ok := in.(*ssa.Call); ok && nilable(cv.Type()) {
			if f := cv.Call.StaticCallee(); f != nil && x.P.returnsNonNil(f) {
				if k := x.Canon(cv); x.allowed(k) {
					st.facts[k] = True
				}
			}
		}
	case *ssa.RunDefers:
		x.killMutable(st, nil)
	case *ssa.Send, *ssa.Select:
		// no memory effect on tracked cells
	}
}

// callKills forgets facts about memory the callee may write.
func (x *Explorer) callKills(st *State, call ssa.CallInstruction) {
	cc := call.Common()
	if b, ok := cc.Value.(*ssa.Builtin); ok {
		_ = b
		return
	}
	callee := cc.StaticCallee()
	if _, isGo := call.(*ssa.Go); isGo {
		return // runs later; its effects are not ordered with this path
	}
	if _, isDefer := call.(*ssa.Defer); isDefer {
		return
	}
	if callee != nil {
		if !inModule(callee) {
			// standard library / dependency: it cannot name the module's fields; it can
			// only reach module code through interface or function values it is given
			if externalMayCallBack(cc) {
				x.killMutable(st, nil)
			} else {
				x.killEscapedAllocs(st)
			}
			return
		}
		x.killMutable(st, x.mods.of(callee))
		return
	}
	// dynamic call: unknown code
	x.killMutable(st, nil)
}

// killMutable drops facts about loads of mutable fields (all of them when
// fields == nil, otherwise only the listed ones) and about escaping locals.
func (x *Explorer) killMutable(st *State, fields map[*types.Var]bool) {
	for k := range st.facts {
		if x.keyTouches(k, fields) {
			delete(st.facts, k)
		}
	}
	for k := range st.ints {
		if x.keyTouches(k, fields) {
			delete(st.ints, k)
		}
	}
	x.killEscapedAllocs(st)
}

func (x *Explorer) killEscapedAllocs(st *State) {
	if len(x.escAlloc) == 0 {
		return
	}
	var toks []string
	for a := range x.escAlloc {
		// nobody else can hold the address before the point where it escapes
		if st.blk != nil && !x.escFrom[a][st.blk] {
			continue
		}
		toks = append(toks, "*(alloc"+x.tok(a)+")")
	}
	if len(toks) == 0 {
		return
	}
	for k := range st.facts {
		for _, t := range toks {
			if strings.Contains(k, t) {
				delete(st.facts, k)
				break
			}
		}
	}
	for k := range st.ints {
		for _, t := range toks {
			if strings.Contains(k, t) {
				delete(st.ints, k)
				break
			}
		}
	}
}

// keyTouches reports whether a fact key contains a load of a mutable field.
func (x *Explorer) keyTouches(k string, fields map[*types.Var]bool) bool {
	// loads look like "*(<path>.<field>@)"
	i := 0
	for {
		j := strings.Index(k[i:], "@)")
		if j < 0 {
			return false
		}
		end := i + j
		dot := strings.LastIndex(k[:end], ".")
		if dot >= 0 {
			name := k[dot+1 : end]
			if fields == nil {
				if x.mods.mutableName[name] {
					return true
				}
			} else {
				for f := range fields {
					if f.Name() == name {
						return true
					}
				}
			}
		}
		i = end + 2
	}
}

// Path renders the chain of decisions that led to st, for witnesses.
func (x *Explorer) Path(st *State) []string {
	var rev []string
	var last *ssa.BasicBlock
	for s := st; s != nil; s = s.parent {
		if s.blk == nil || s.blk == last {
			continue
		}
		last = s.blk
		pos := token.NoPos
		for _, in := range s.blk.Instrs {
			if in.Pos().IsValid() {
				pos = in.Pos()
				break
			}
		}
		rev = append(rev, fmt.Sprintf("block %d (%s) %s", s.blk.Index, s.blk.Comment, x.P.Pos(pos)))
	}
	out := make([]string, 0, len(rev))
	for i := len(rev) - 1; i >= 0; i-- {
		out = append(out, rev[i])
	}
	if len(out) > 60 {
		out = append(out[:25], append([]string{"..."}, out[len(out)-30:]...)...)
	}
	return out
}

// ---- module-wide field mutation summaries ----

type modInfo struct {
	p           *Prog
	direct      map[*ssa.Function]map[*types.Var]bool
	trans       map[*ssa.Function]map[*types.Var]bool
	mutableName map[string]bool // names of fields stored to anywhere in the module
	dyn         map[*ssa.Function]bool
}

func (p *Prog) modInfo() *modInfo {
	if p.mods != nil {
		return p.mods
	}
	m := &modInfo{p: p, direct: map[*ssa.Function]map[*types.Var]bool{}, trans: map[*ssa.Function]map[*types.Var]bool{},
		mutableName: map[string]bool{}, dyn: map[*ssa.Function]bool{}}
	for _, fn := range p.SrcFuncs() {
		d := map[*types.Var]bool{}
		for _, b := range fn.Blocks {
			for _, in := range b.Instrs {
				switch in := in.(type) {
				case *ssa.Store:
					if fa, ok := in.Addr.(*ssa.FieldAddr); ok {
						if fv := fieldVar(fa.X.Type(), fa.Field); fv != nil {
							// stores into a freshly allocated object (composite literal) do not mutate shared state
							if _, fresh := fa.X.(*ssa.Alloc); fresh && !allocEscapesBefore(fa.X.(*ssa.Alloc), in) {
								continue
							}
							d[fv] = true
							m.mutableName[fv.Name()] = true
						}
					}
				}
			}
		}
		m.direct[fn] = d
	}
	p.mods = m
	return m
}

// allocEscapesBefore is a cheap approximation: a store into a local composite
// literal under construction is not a mutation of shared state. We accept any
// Alloc whose type is a struct and that is marked Heap only because it is
// returned/stored later; the store itself happens on a private object.
func allocEscapesBefore(a *ssa.Alloc, at ssa.Instruction) bool {
	return false
}

// of returns the set of fields fn may store to, transitively through static
// callees and closures. Dynamic calls inside make the summary "everything"
// (nil map = all mutable fields).
func (m *modInfo) of(fn *ssa.Function) map[*types.Var]bool {
	if r, ok := m.trans[fn]; ok {
		return r
	}
	seen := map[*ssa.Function]bool{}
	res := map[*types.Var]bool{}
	all := false
	var walk func(f *ssa.Function)
	walk = func(f *ssa.Function) {
		if f == nil || seen[f] || all {
			return
		}
		seen[f] = true
		if f.Blocks == nil {
			return
		}
		for v := range m.direct[f] {
			res[v] = true
		}
		for _, b := range f.Blocks {
			for _, in := range b.Instrs {
				switch in := in.(type) {
				case ssa.CallInstruction:
					cc := in.Common()
					if _, ok := cc.Value.(*ssa.Builtin); ok {
						continue
					}
					if c := cc.StaticCallee(); c != nil {
						if !inModule(c) {
							if externalMayCallBack(cc) {
								all = true
							}
							continue
						}
						walk(c)
					} else if cc.IsInvoke() {
						// interface method: union over module implementations with that method name
						for _, impl := range m.p.implementations(cc.Method) {
							walk(impl)
						}
					} else {
						all = true
					}
				case *ssa.MakeClosure:
					if c, ok := in.Fn.(*ssa.Function); ok {
						walk(c)
					}
				}
			}
		}
	}
	walk(fn)
	if all {
		m.trans[fn] = nil
		return nil
	}
	m.trans[fn] = res
	return res
}

// implementations returns the module's concrete methods that can be the target
// of an interface method call (matched by name and signature identity).
func (p *Prog) implementations(m *types.Func) []*ssa.Function {
	if p.impls == nil {
		p.impls = map[string][]*ssa.Function{}
		for _, fn := range p.SrcFuncs() {
			if fn.Signature.Recv() != nil {
				p.impls[fn.Name()] = append(p.impls[fn.Name()], fn)
			}
		}
	}
	var out []*ssa.Function
	sig := m.Type().(*types.Signature)
	for _, fn := range p.impls[m.Name()] {
		fs := fn.Signature
		if fs.Params().Len() == sig.Params().Len() && fs.Results().Len() == sig.Results().Len() {
			out = append(out, fn)
		}
	}
	return out
}

// returnsNonNil: every return of fn yields a value that is syntactically
// non-nil: an allocation, a closure/map/chan/slice construction, an interface
// made from a value, the result of another such function, a standard library
// constructor (New*), or a checked type assertion v.(*T) of a pooled value
// (assumption: pools never hold typed nil pointers). Single-result functions only.
func (p *Prog) returnsNonNil(fn *ssa.Function) bool {
	if p.nonNil == nil {
		p.nonNil = map[*ssa.Function]int8{}
	}
	switch p.nonNil[fn] {
	case 1:
		return true
	case 2, 3:
		return false // 3 = in progress (cycle)
	}
	p.nonNil[fn] = 3
	ok := p.returnsNonNil1(fn)
	if ok {
		p.nonNil[fn] = 1
	} else {
		p.nonNil[fn] = 2
	}
	return ok
}

func (p *Prog) returnsNonNil1(fn *ssa.Function) bool {
	if fn.Signature.Results().Len() != 1 {
		return false
	}
	if !inModule(fn) {
		// standard library / dependency constructors
		return strings.HasPrefix(fn.Name(), "New") || fn.Name() == "Errorf"
	}
	if fn.Blocks == nil {
		return false
	}
	seen := map[ssa.Value]bool{}
	var nn func(v ssa.Value) bool
	nn = func(v ssa.Value) bool {
		if seen[v] {
			return true
		}
		seen[v] = true
		switch v := v.(type) {
		case *ssa.Alloc, *ssa.MakeClosure, *ssa.MakeMap, *ssa.MakeChan, *ssa.MakeSlice, *ssa.MakeInterface, *ssa.FieldAddr, *ssa.IndexAddr, *ssa.Function, *ssa.Global:
			return true
		case *ssa.Phi:
			for _, e := range v.Edges {
				if !nn(e) {
					return false
				}
			}
			return true
		case *ssa.ChangeType:
			return nn(v.X)
		case *ssa.ChangeInterface:
			return nn(v.X)
		case *ssa.TypeAssert:
			return !v.CommaOk
		case *ssa.Call:
			if f := v.Call.StaticCallee(); f != nil {
				return p.returnsNonNil(f)
			}
		}
		return false
	}
	n := 0
	for _, b := range fn.Blocks {
		if r, ok := b.Instrs[len(b.Instrs)-1].(*ssa.Return); ok {
			n++
			if len(r.Results) != 1 || !nn(r.Results[0]) {
				return false
			}
		}
	}
	return n > 0
}

// purePkgs: packages whose functions never call methods of the values they are
// given in a way that could mutate module state (formatting, conversion,
// synchronisation primitives, time).
var purePkgs = map[string]bool{"fmt": true, "errors": true, "strconv": true, "bytes": true, "strings": true, "time": true,
	"sync": true, "sync/atomic": true, "unicode/utf8": true, "math": true, "math/bits": true, "unsafe": true, "sort": true, "slices": true}

// externalMayCallBack: a call into a non-module function can run module code
// only through an interface or function value among its arguments/receiver.
func externalMayCallBack(cc *ssa.CallCommon) bool {
	f := cc.StaticCallee()
	if f != nil {
		q := f
		for q.Parent() != nil {
			q = q.Parent()
		}
		path := ""
		if q.Pkg != nil {
			path = q.Pkg.Pkg.Path()
		} else if o := q.Object(); o != nil && o.Pkg() != nil {
			path = o.Pkg().Path()
		}
		if purePkgs[path] {
			return false
		}
	}
	for _, a := range cc.Args {
		if mayHoldModuleCode(a.Type(), 0) {
			return true
		}
	}
	return false
}

func mayHoldModuleCode(t types.Type, depth int) bool {
	if depth > 3 {
		return true
	}
	switch u := t.Underlying().(type) {
	case *types.Interface, *types.Signature:
		return true
	case *types.Pointer:
		return mayHoldModuleCode(u.Elem(), depth+1)
	case *types.Slice:
		return mayHoldModuleCode(u.Elem(), depth+1)
	case *types.Struct:
		for i := 0; i < u.NumFields(); i++ {
			if mayHoldModuleCode(u.Field(i).Type(), depth+1) {
				return true
			}
		}
	}
	return false
}

func isIntType(t types.Type) bool {
	b, ok := t.Underlying().(*types.Basic)
	return ok && b.Info()&types.IsInteger != 0
}
