package main

import (
	"bufio"
	"encoding/json"
	"fmt"
	"os"
	"path/filepath"
	"sort"
	"strings"
	"time"
)

// Obligation is one rule instance evaluated on one construct of /repo.
type Obligation struct {
	Rule      string   `json:"rule"`      // e.g. "C12.R1"
	Construct string   `json:"construct"` // stable key (role based, no line numbers)
	Status    string   `json:"status"`    // discharged | violated | known | undecided
	Pos       string   `json:"pos,omitempty"`
	Detail    string   `json:"detail,omitempty"`
	Witness   []string `json:"witness,omitempty"`
	Arch      string   `json:"arch,omitempty"`
}

type knownEntry struct {
	prop, rule, construct, what string
	used                        bool
}

// Report collects the obligations of one property run.
type Report struct {
	Prop   string
	Tier   string
	Seed   int
	Start  time.Time
	Obs    []*Obligation
	Notes  []string // what was analysed (functions, call sites...)
	Counts map[string]int
	Known  []*knownEntry
	Assume []string
	Explan string
	arch   string
}

func newReport(prop, tier string, seed int) *Report {
	return &Report{Prop: prop, Tier: tier, Seed: seed, Start: time.Now(), Counts: map[string]int{}}
}

func (r *Report) add(rule, construct, status, pos, detail string, witness ...string) *Obligation {
	o := &Obligation{Rule: r.Prop + "." + rule, Construct: construct, Status: status, Pos: pos, Detail: detail, Witness: witness, Arch: r.arch}
	r.Obs = append(r.Obs, o)
	return o
}

// Check records a decided obligation.
func (r *Report) Check(rule, construct string, ok bool, pos, detail string, witness ...string) bool {
	st := "discharged"
	if !ok {
		st = "violated"
	}
	r.add(rule, construct, st, pos, detail, witness...)
	return ok
}

// Undecided records that the rule could not be evaluated (missing anchor,
// unsupported shape). It makes the run fail with exit 3, never a pass.
func (r *Report) Undecided(rule, construct, why string) {
	r.add(rule, construct, "undecided", "", why)
}

// Floor asserts that a rule matched at least the number of instances that was
// confirmed by reading the code; fewer means the rule went blind.
func (r *Report) Floor(rule, what string, got, want int) {
	r.Counts[rule+" "+what] = got
	if got < want {
		r.Undecided(rule, "floor "+what, fmt.Sprintf("matched %d instances, at least %d were confirmed by hand: the rule lost its anchors", got, want))
	}
}

func (r *Report) Note(format string, a ...any) { r.Notes = append(r.Notes, fmt.Sprintf(format, a...)) }

func loadKnown(path, prop string) []*knownEntry {
	f, err := os.Open(path)
	if err != nil {
		return nil
	}
	defer f.Close()
	var out []*knownEntry
	sc := bufio.NewScanner(f)
	sc.Buffer(make([]byte, 1<<20), 1<<20)
	for sc.Scan() {
		line := strings.TrimSpace(sc.Text())
		if !strings.HasPrefix(line, "known:") {
			continue
		}
		rest := strings.TrimSpace(strings.TrimPrefix(line, "known:"))
		what := ""
		if i := strings.Index(rest, "::"); i >= 0 {
			what = strings.TrimSpace(rest[i+2:])
			rest = strings.TrimSpace(rest[:i])
		}
		e := &knownEntry{what: what}
		// property=<id> rule=<rule> construct=<free text to end>
		if i := strings.Index(rest, "construct="); i >= 0 {
			e.construct = strings.TrimSpace(rest[i+len("construct="):])
			rest = rest[:i]
		}
		for _, tok := range strings.Fields(rest) {
			if v, ok := strings.CutPrefix(tok, "property="); ok {
				e.prop = v
			}
			if v, ok := strings.CutPrefix(tok, "rule="); ok {
				e.rule = v
			}
		}
		if e.prop == prop {
			out = append(out, e)
		}
	}
	return out
}

// Finish prints the verdict, writes evidence and returns the exit code.
func (r *Report) Finish(verifDir string) int {
	r.Known = loadKnown(filepath.Join(verifDir, "known_findings.txt"), r.Prop)
	var viol, undec, known, disch []*Obligation
	for _, o := range r.Obs {
		switch o.Status {
		case "violated":
			matched := false
			for _, k := range r.Known {
				if k.rule == o.Rule && k.construct == o.Construct {
					k.used = true
					matched = true
					o.Status = "known"
					if k.what != "" {
						o.Detail = k.what + " [" + o.Detail + "]"
					}
				}
			}
			if matched {
				known = append(known, o)
			} else {
				viol = append(viol, o)
			}
		case "undecided":
			undec = append(undec, o)
		default:
			disch = append(disch, o)
		}
	}
	total := len(r.Obs)
	fmt.Printf("property %s tier=%s: %d obligations: %d discharged, %d violated, %d known, %d undecided (%.1fs)\n",
		r.Prop, r.Tier, total, len(disch), len(viol), len(known), len(undec), time.Since(r.Start).Seconds())
	keys := make([]string, 0, len(r.Counts))
	for k := range r.Counts {
		keys = append(keys, k)
	}
	sort.Strings(keys)
	for _, k := range keys {
		fmt.Printf("  analysed: %s = %d\n", k, r.Counts[k])
	}
	for _, n := range r.Notes {
		fmt.Printf("  note: %s\n", n)
	}
	seenKnown := map[string]bool{}
	for _, o := range known {
		key := o.Rule + "|" + o.Construct
		if seenKnown[key] {
			continue
		}
		seenKnown[key] = true
		fmt.Printf("KNOWN-FINDING: property=%s %s rule=%s construct=%s at %s\n", r.Prop, o.Detail, o.Rule, o.Construct, o.Pos)
	}
	for _, o := range undec {
		fmt.Printf("UNDECIDED property=%s rule=%s construct=%q: %s\n", r.Prop, o.Rule, o.Construct, o.Detail)
	}
	replay := ""
	if len(viol) > 0 {
		replay = filepath.Join(verifDir, "evidence", "replay", r.Prop+".json")
		_ = os.MkdirAll(filepath.Dir(replay), 0o755)
		b, _ := json.MarshalIndent(viol, "", " ")
		_ = os.WriteFile(replay, b, 0o644)
		for _, o := range viol {
			fmt.Printf("  violated: rule=%s construct=%q at %s [%s]: %s\n", o.Rule, o.Construct, o.Pos, o.Arch, o.Detail)
			w := o.Witness
			if len(w) > 14 {
				fmt.Printf("      (witness path of %d blocks; last 14 shown, full path in the replay file)\n", len(w))
				w = w[len(w)-14:]
			}
			for _, l := range w {
				fmt.Printf("      %s\n", l)
			}
		}
	}
	r.writeEvidence(verifDir, len(viol), len(undec), len(known))
	if len(undec) > 0 && len(viol) == 0 {
		fmt.Printf("BROKEN-CHECK property=%s: %d obligations undecided; this is neither a pass nor a violation\n", r.Prop, len(undec))
		return 3
	}
	if len(viol) > 0 {
		fmt.Printf("VIOLATION property=%s replay=%s\n", r.Prop, replay)
		return 1
	}
	return 0
}

func (r *Report) writeEvidence(verifDir string, nviol, nundec, nknown int) {
	distinct := map[string]bool{}
	nd := 0
	var samples []any
	for _, o := range r.Obs {
		key := o.Rule + "|" + o.Construct
		if !distinct[key] {
			distinct[key] = true
		}
		if o.Status == "discharged" || o.Status == "known" {
			nd++
		}
	}
	// samples: first obligations of each rule (at most 3 per rule, 40 overall)
	perRule := map[string]int{}
	for _, o := range r.Obs {
		if perRule[o.Rule] >= 3 || len(samples) >= 40 {
			continue
		}
		perRule[o.Rule]++
		samples = append(samples, o)
	}
	if len(samples) == 0 {
		samples = append(samples, "no obligations were generated")
	}
	cov := map[string]any{
		"explanation":         r.Explan,
		"obligations":         len(r.Obs),
		"discharged":          nd,
		"evaluations":         len(r.Obs),
		"distinct_nontrivial": len(distinct),
		"rule":                "one obligation per (rule, construct) found in /repo's current source; distinct = distinct (rule, construct) keys; every obligation names a concrete construct, so all are non-trivial",
		"samples":             samples,
		"analysed":            r.Counts,
		"notes":               r.Notes,
		"known_findings":      nknown,
		"undecided":           nundec,
		"checker_cmd":         "bin/check " + r.Prop + " " + r.Tier,
		"trusted_base":        []string{"go/types + golang.org/x/tools v0.50.0 go/ssa (go1.26.8)", "the rule tables in checker/rules_*.go, each entry with its reason"},
		"exhaustive":          false,
	}
	ev := map[string]any{
		"property_id": r.Prop,
		"tier":        r.Tier,
		"seed":        r.Seed,
		"level":       "other",
		"coverage":    cov,
		"assumptions": r.Assume,
		"wall_s":      time.Since(r.Start).Seconds(),
		"violations":  nviol,
	}
	b, _ := json.MarshalIndent(ev, "", " ")
	dir := filepath.Join(verifDir, "evidence")
	_ = os.MkdirAll(dir, 0o755)
	_ = os.WriteFile(filepath.Join(dir, r.Prop+".json"), b, 0o644)
}
