package main

// C33 - in-memory pipes and listener. The property quantifies over
// interleavings and byte sequences; what is decided here are the structural
// hand-over rules every interleaving relies on: a connection end or a data
// buffer changes hands exactly once or is disposed of, success is reported
// exactly on the hand-over paths, nothing unread is dropped, end-of-stream is
// only reported after a last look at the queue, and the close signals fire once.

import (
	"fmt"
	"go/token"
	"go/types"
	"strings"

	"golang.org/x/tools/go/ssa"
)

func init() {
	register(&propDef{
		id:      "C33",
		explain: "Structural necessary conditions of 'in-memory pipes and the in-memory listener behave like reliable byte streams / a listener', on every path of the functions named (no interleaving is explored): (L1) InmemoryListener.DialWithLocalAddr returns a connection with a nil error only on paths on which the server end was handed to the accept queue, and on every error return both ends of the freshly made pipe were closed; (L2) InmemoryListener.Accept, once it has taken a connection from the queue, either signals the dialer and returns that connection with a nil error, or closes it and returns an error without having signalled the dialer (the signal is what makes the dial succeed) - it never drops it; (L3) Close of the listener closes the done channel only under a false 'closed' flag, raises the flag after, both under the listener's lock; (P1) pipeConn.Write reports success exactly on the paths on which the data buffer was handed to the peer's queue; (P2) the reader moves on to the next buffer, and gives the current one back to its pool, only when the current one is exhausted - decided in the zone domain from the guarding comparison of len(bb) (so nothing unread is dropped or overwritten); (P3) the reader reports end-of-stream or a timeout only after a non-blocking look at the queue, made after the blocking wait was ended by the stop or deadline signal, found it empty (bytes written before Close stay readable); (P4) PipeConns.Close closes the stop channel at most once, under its lock, and (E8) the deadline channel and the closed flag are only accessed under their locks. Not decided: ordering and content of the bytes under interleavings, deadlines, blocking behaviour, fairness between Dial and Close.",
		run:     runC33,
	})
}

func runC33(p *Prog, r *Report) {
	pkg := "fasthttputil."
	fieldLoadNamed := func(v ssa.Value, name string) bool {
		_, fv := loadedField(v)
		return fv != nil && fv.Name() == name
	}
	// which select state (by index) sends to / receives from a channel loaded from the named field
	stateOn := func(sel *ssa.Select, field string, dir types.ChanDir) int {
		for i, st := range sel.States {
			if st.Dir == dir && fieldLoadNamed(st.Chan, field) {
				return i
			}
		}
		return -1
	}
	isConnClose := func(in ssa.Instruction) bool {
		c, ok := in.(ssa.CallInstruction)
		return ok && c.Common().IsInvoke() && c.Common().Method.Name() == "Close" && typeIsNetConn(c.Common().Value.Type())
	}
	errIsNil := func(x *Explorer, st *State, v ssa.Value) Abs {
		if isNilConst(v) {
			return True
		}
		if globalOf(v) != "" {
			return False
		}
		a := x.Eval(st, v)
		if a == Unknown {
			return Unknown
		}
		return a.not() // Eval: True = non-nil
	}

	// ---- L1: DialWithLocalAddr ----
	if fn := p.Func(pkg + "(*InmemoryListener).DialWithLocalAddr"); fn != nil {
		const (
			bSent uint64 = 1 << iota
		)
		bad, nret := 0, 0
		var wit []string
		detail := ""
		x := NewExplorer(p, fn, Hooks{
			Instr: func(x *Explorer, st *State, in ssa.Instruction) {
				if isConnClose(in) {
					st.N[0]++
				}
			},
			Branch: func(x *Explorer, st *State, cond ssa.Value, taken bool, from *ssa.BasicBlock) {
				if sel, k, ok := selectCase(cond, taken); ok && k == stateOn(sel, "conns", types.SendOnly) {
					st.Set(bSent)
				}
			},
			Exit: func(x *Explorer, st *State, ret *ssa.Return, pan *ssa.Panic) {
				if ret == nil {
					return
				}
				rr := returnResults(ret)
				if len(rr) != 2 {
					return
				}
				nret++
				ok := true
				why := ""
				switch errIsNil(x, st, rr[1]) {
				case True:
					if !st.Has(bSent) || st.N[0] != 0 {
						ok, why = false, fmt.Sprintf("success is returned on a path where the server end was not queued (sent=%v) or an end was closed (%d Close calls)", st.Has(bSent), st.N[0])
					}
				case False:
					if st.N[0] < 2 {
						ok, why = false, fmt.Sprintf("an error is returned after only %d of the 2 pipe ends were closed", st.N[0])
					}
				}
				if !ok {
					bad++
					if wit == nil {
						wit = x.Path(st)
						detail = why
					}
				}
			},
		})
		x.TrackAll = true
		x.Filter = noIntFilter
		x.Run(nil)
		if x.Aborted {
			r.Undecided("L1", "DialWithLocalAddr", "state budget exhausted")
		} else {
			r.Check("L1", "DialWithLocalAddr: success exactly when the server end was queued; both ends closed on every failure", bad == 0 && nret >= 3, p.Pos(fn.Pos()),
				fmt.Sprintf("%s (%d of %d explored returns): a dial that 'succeeds' without a queued peer is never accepted, an unqueued pair that is not closed leaves its reader blocked forever", detail, bad, nret), wit...)
		}
	} else {
		r.Undecided("L1", "(*InmemoryListener).DialWithLocalAddr", "not found")
	}

	// ---- L2: Accept ----
	if fn := p.Func(pkg + "(*InmemoryListener).Accept"); fn != nil {
		const (
			bRecv uint64 = 1 << iota
			bSignalled
			bClosed
		)
		bad, nret := 0, 0
		var wit []string
		detail := ""
		x := NewExplorer(p, fn, Hooks{
			Instr: func(x *Explorer, st *State, in ssa.Instruction) {
				if isConnClose(in) {
					st.Set(bClosed)
				}
				if c, ok := in.(*ssa.Call); ok {
					if bi, ok := c.Call.Value.(*ssa.Builtin); ok && bi.Name() == "close" && st.Has(bRecv) {
						st.Set(bSignalled)
					}
				}
			},
			Branch: func(x *Explorer, st *State, cond ssa.Value, taken bool, from *ssa.BasicBlock) {
				if sel, k, ok := selectCase(cond, taken); ok && k == stateOn(sel, "conns", types.RecvOnly) {
					st.Set(bRecv)
				}
			},
			Exit: func(x *Explorer, st *State, ret *ssa.Return, pan *ssa.Panic) {
				if ret == nil || !st.Has(bRecv) {
					return
				}
				rr := returnResults(ret)
				if len(rr) != 2 {
					return
				}
				nret++
				ok := true
				switch errIsNil(x, st, rr[1]) {
				case True:
					ok = st.Has(bSignalled) && !st.Has(bClosed)
				case False:
					// the 'accepted' signal is what makes the dial succeed: it must not be given on a path that
					// then closes the connection and reports an error
					ok = st.Has(bClosed) && !st.Has(bSignalled)
				}
				if !ok {
					bad++
					if wit == nil {
						wit = x.Path(st)
						detail = fmt.Sprintf("signalled=%v closed=%v", st.Has(bSignalled), st.Has(bClosed))
					}
				}
			},
		})
		x.TrackAll = true
		x.Filter = noIntFilter
		x.Run(nil)
		r.Check("L2", "Accept: a connection taken from the queue is returned (after signalling the dialer) or closed, never dropped", bad == 0 && nret >= 2, p.Pos(fn.Pos()),
			fmt.Sprintf("%s (%d of %d explored returns after a connection was taken): the dialer waits for a signal that never comes, or gets a connection nobody serves", detail, bad, nret), wit...)
	} else {
		r.Undecided("L2", "(*InmemoryListener).Accept", "not found")
	}

	// ---- L3 / P4: close-once of the signal channels ----
	closeOnce := func(rule, spec, chanField, flagField, lock string) {
		fn := p.Func(pkg + spec)
		if fn == nil {
			r.Undecided(rule, spec, "not found")
			return
		}
		held := heldAt(fn, heldSet{}, nil)
		n := 0
		for _, b := range fn.Blocks {
			for _, in := range b.Instrs {
				c, ok := in.(*ssa.Call)
				if !ok {
					continue
				}
				bi, ok := c.Call.Value.(*ssa.Builtin)
				if !ok || bi.Name() != "close" || !fieldLoadNamed(c.Call.Args[0], chanField) {
					continue
				}
				n++
				guarded := false
				for _, g := range guardsOf(b) {
					if flagField != "" && strings.Contains(g.Atom, flagField) && !g.Pol {
						guarded = true
					}
					// or: the default branch of a non-blocking receive on the very channel (it is not closed yet)
					if bo, ok := g.Cond.(*ssa.BinOp); ok {
						if ex, ok := bo.X.(*ssa.Extract); ok {
							if sel, ok := ex.Tuple.(*ssa.Select); ok && !sel.Blocking && stateOn(sel, chanField, types.RecvOnly) >= 0 {
								if k, isK := constInt(bo.Y); isK && ((bo.Op == token.EQL) == g.Pol) == (int(k) != stateOn(sel, chanField, types.RecvOnly)) {
									guarded = true
								}
							}
						}
					}
				}
				r.Check(rule, fmt.Sprintf("%s: close(%s) happens only when the channel is known not to be closed yet", spec, chanField), guarded, p.Pos(c.Pos()),
					"a second Close would close a closed channel and panic")
				r.Check(rule, fmt.Sprintf("%s: close(%s) happens with %s held", spec, chanField, lock), held[in].holds(lock, true), p.Pos(c.Pos()),
					"two concurrent Close calls can both find the channel open and both close it")
				if flagField != "" {
					hit, path := reachAvoiding(fn, in, func(i ssa.Instruction) bool {
						cc, ok := i.(ssa.CallInstruction)
						if ok {
							if _, op, _ := lockOp(cc); op < 0 {
								return true
							}
						}
						return isReturn(i)
					}, func(i ssa.Instruction) bool {
						st, ok := i.(*ssa.Store)
						if !ok {
							return false
						}
						_, fv := fieldOfAddr(st.Addr)
						cst, isC := st.Val.(*ssa.Const)
						return fv != nil && fv.Name() == flagField && isC && cst.Value != nil && cst.Value.ExactString() == "true"
					}, nil)
					r.Check(rule, fmt.Sprintf("%s: the %s flag is raised in the critical section that closes %s", spec, flagField, chanField), hit == nil, p.Pos(c.Pos()),
						"the lock is released (or the function returns) after close() without the flag being set", blocksString(p, path)...)
				}
			}
		}
		r.Floor(rule, "close("+chanField+") sites in "+spec, n, 1)
	}
	closeOnce("L3", "(*InmemoryListener).Close", "done", "closed", "InmemoryListener.lock")
	closeOnce("P4", "(*PipeConns).Close", "stopCh", "", "PipeConns.stopChLock")

	// ---- P1: Write ----
	if fn := p.Func(pkg + "(*pipeConn).Write"); fn != nil {
		const bSent uint64 = 1
		bad, nret := 0, 0
		var wit []string
		detail := ""
		x := NewExplorer(p, fn, Hooks{
			Branch: func(x *Explorer, st *State, cond ssa.Value, taken bool, from *ssa.BasicBlock) {
				if sel, k, ok := selectCase(cond, taken); ok && k == stateOn(sel, "wCh", types.SendOnly) {
					if st.Has(bSent) {
						st.N[0]++ // sent twice
					}
					st.Set(bSent)
				}
			},
			Exit: func(x *Explorer, st *State, ret *ssa.Return, pan *ssa.Panic) {
				if ret == nil {
					return
				}
				rr := returnResults(ret)
				if len(rr) != 2 {
					return
				}
				nret++
				ok := st.N[0] == 0
				switch errIsNil(x, st, rr[1]) {
				case True:
					ok = ok && st.Has(bSent)
				case False:
					ok = ok && !st.Has(bSent)
				}
				if !ok {
					bad++
					if wit == nil {
						wit = x.Path(st)
						detail = fmt.Sprintf("sent=%v duplicate sends=%d", st.Has(bSent), st.N[0])
					}
				}
			},
		})
		x.TrackAll = true
		x.Filter = noIntFilter
		x.Run(nil)
		r.Check("P1", "pipeConn.Write: success is reported exactly when the data buffer was handed to the peer's queue, and it is handed over once", bad == 0 && nret >= 3, p.Pos(fn.Pos()),
			fmt.Sprintf("%s (%d of %d explored returns): bytes reported written are lost, or bytes of a failed write reach the peer", detail, bad, nret), wit...)
	} else {
		r.Undecided("P1", "(*pipeConn).Write", "not found")
	}

	// ---- P2: the next buffer is fetched only when the current one is exhausted ----
	if next := p.Func(pkg + "(*pipeConn).readNextByteBuffer"); next != nil {
		n := 0
		for _, fn := range p.funcsIn("fasthttputil") {
			allCalls(fn, func(b *ssa.BasicBlock, c ssa.CallInstruction) {
				if !isCallTo(c, next) {
					return
				}
				n++
				ok := false
				for _, g := range guardsOf(b) {
					bo, isBo := g.Cond.(*ssa.BinOp)
					if !isBo {
						continue
					}
					z := newZone()
					for _, o := range []ssa.Value{bo.X, bo.Y} {
						if lc, isCall := o.(*ssa.Call); isCall {
							if bi, isBi := lc.Call.Value.(*ssa.Builtin); isBi && bi.Name() == "len" && fieldLoadNamed(lc.Call.Args[0], "bb") {
								nd := z.node(lc)
								z.add(0, 0, nd, 0, 0)
								z.assumeCmp(bo.Op, bo.X, bo.Y, g.Pol)
								if !z.infeasible() && z.entails(nd, 0, 0, 0, 0) { // len(bb) <= 0
									ok = true
								}
							}
						}
					}
				}
				r.Check("P2", funcName(fn)+": the next buffer is fetched only when the current one is exhausted", ok, p.Pos(c.Pos()),
					"readNextByteBuffer releases the current buffer; called while unread bytes remain in it, those bytes are lost")
			})
		}
		r.Floor("P2", "call sites of readNextByteBuffer", n, 1)
		// P2b: the same for every place that gives the current buffer back to its pool. The read cursor (bb) is a
		// slice of the buffer (b): releasing b while bb is not empty hands the unread bytes to the next Write of any
		// pipe in the process, which overwrites them. A release is made in the routine that fetches the next buffer
		// (whose call sites P2 checks) or under a test that found the cursor empty.
		nrel := 0
		for _, fn := range p.funcsIn("fasthttputil") {
			allCalls(fn, func(b *ssa.BasicBlock, c ssa.CallInstruction) {
				f := c.Common().StaticCallee()
				if f == nil || f.Name() != "releaseByteBuffer" || len(c.Common().Args) != 1 || !fieldLoadNamed(c.Common().Args[0], "b") {
					return
				}
				if recvTypeName(fn) != "pipeConn" {
					return
				}
				nrel++
				ok := fn == next
				for _, g := range guardsOf(b) {
					bo, isBo := g.Cond.(*ssa.BinOp)
					if !isBo || ok {
						continue
					}
					for _, o := range []ssa.Value{bo.X, bo.Y} {
						if lc, isCall := o.(*ssa.Call); isCall {
							if bi, isBi := lc.Call.Value.(*ssa.Builtin); isBi && bi.Name() == "len" && fieldLoadNamed(lc.Call.Args[0], "bb") {
								z := newZone()
								nd := z.node(lc)
								z.add(0, 0, nd, 0, 0)
								z.assumeCmp(bo.Op, bo.X, bo.Y, g.Pol)
								if !z.infeasible() && z.entails(nd, 0, 0, 0, 0) {
									ok = true
								}
							}
						}
					}
				}
				r.Check("P2", funcName(fn)+": the current buffer goes back to its pool only when the read cursor is exhausted", ok, p.Pos(c.Pos()),
					"releaseByteBuffer(c.b) outside the next-buffer routine and not under a test that found len(c.bb) == 0: the cursor still points into the released buffer, the next Write of any pipe reuses and overwrites it, and the reader gets those bytes instead of the ones written to it")
			})
		}
		r.Floor("P2", "releases of the reader's current buffer", nrel, 1)
		// ---- P3: EOF / timeout only after a non-blocking look at the queue ----
		n3 := 0
		for _, b := range next.Blocks {
			rt, ok := b.Instrs[len(b.Instrs)-1].(*ssa.Return)
			if !ok {
				continue
			}
			rr := returnResults(rt)
			if len(rr) != 1 {
				continue
			}
			g := globalOf(rr[0])
			if g != "EOF" && g != "ErrTimeout" {
				continue
			}
			n3++
			looked := false
			for _, gd := range guardsOf(b) {
				if bo, ok := gd.Cond.(*ssa.BinOp); ok {
					if ex, ok := bo.X.(*ssa.Extract); ok {
						if sel, ok := ex.Tuple.(*ssa.Select); ok && !sel.Blocking && stateOn(sel, "rCh", types.RecvOnly) >= 0 {
							// the look has to come after the wait that was ended by the stop / deadline signal:
							// the first look, before blocking, says nothing about what arrived meanwhile
							for _, bb := range next.Blocks {
								for _, i2 := range bb.Instrs {
									if s1, ok := i2.(*ssa.Select); ok && s1.Blocking && dominatesInstr(s1, sel) {
										looked = true
									}
								}
							}
						}
					}
				}
			}
			r.Check("P3", "readNextByteBuffer: "+g+" is reported only after a non-blocking receive found the queue empty", looked, p.Pos(rt.Pos()),
				"end of stream (or a timeout) is reported without a last look at the queue: bytes written before Close / before the deadline are never read")
		}
		r.Floor("P3", "EOF / timeout returns of readNextByteBuffer", n3, 2)
	} else {
		r.Undecided("P2", "(*pipeConn).readNextByteBuffer", "not found")
	}

	// ---- E8 ----
	checkLockset(p, r, "E8", &lockTable{
		guards: map[string]string{
			"InmemoryListener.closed":       "InmemoryListener.lock",
			"InmemoryListener.listenerAddr": "InmemoryListener.addrLock",
			"pipeConn.readDeadlineCh":       "pipeConn.readDeadlineChLock",
			"pipeConn.localAddr":            "pipeConn.addrLock",
			"pipeConn.remoteAddr":           "pipeConn.addrLock",
		},
		heldOnEntry: map[string][]string{},
		exempt:      map[string]string{},
	}, func(fn *ssa.Function) bool {
		return fn.Pkg != nil && strings.HasSuffix(fn.Pkg.Pkg.Path(), "fasthttputil")
	})
}
