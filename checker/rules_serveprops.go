package main

import (
	"fmt"
	"go/constant"
	"go/token"
	"go/types"
	"sort"
	"strconv"
	"strings"

	"golang.org/x/tools/go/ssa"
)

var serveExplain = map[string]string{
	"C02": "Structural necessary conditions in the server's per-connection loop, decided for every path of the loop by exhaustive exploration of a finite abstraction (booleans, nil-ness, rule event bits): (R1) a request with 'Expect: 100-continue' whose body was not read (ExpectHandler / ContinueHandler rejection) is answered with Connection: close and never followed by another iteration; (R2) on every path from the handler to the next iteration the code has established, on the request that was actually served (not on a ctx swapped in by the timeout path), that there is no connection-backed body stream or that requestStream.fullyRead() is true - otherwise the close decision is true; the stream object is only released after that. (R3) a length-limited reader over the connection that is handed to a parser which may stop early (multipart pre-parse) is drained before success is reported; (R4) the flag behind fullyRead() for chunked bodies is raised only after the trailer section was read and its error examined, in every function that sets it; (R-pool) the pooled stream object starts clean: each of its fields (chunk remainder, byte count, end-of-body flag, declared length ...) is assigned on every path of its release or of its acquire function, so a body is never decoded with the leftovers of another connection's body. (R-uar) after a call that gives the request stream held in a field back to its pool (releaseRequestStream, or a routine that passes the value on to it) no path reaches a use of a stream taken from that field before the field is assigned again - 'was the body read to its end' must be asked before the release. (R5) the serve loop gives the connection reader back between requests only on paths that found StreamRequestBody false or an error - a body stream reads the rest of the body through that reader. (R6) no method of the request stream asks the live header for the body length - the length recorded at creation frames the body; (R4c) the end-of-body flag is not reachable from the branch that found the trailer reader's error non-nil (io.EOF included); (R-own) a request stream met outside its Request (a response body that echoes it, the compressing wrapper) is released only under a test that found it not request-owned; (R7) the branch 'handler timed out while it owned the streamed body' leaves the reader variable nil, so the reader is not recycled while the abandoned handler reads through it; (R8) a routine that moves its Request parameter's body into a private copy records bodyStreamUnread on that parameter. Not decided: the exact byte offset at which the next request starts for all inputs.",
	"C10": "Structural necessary conditions of the keep-alive decision in the serve loop: (R1) the condition guarding SetConnectionClose depends (through phis, && / ||, and helper functions) on each documented source: DisableKeepalive, request and response Connection: close, MaxRequestsPerConn, CloseOnShutdown+stop, Expect/Continue rejection, unread streamed body; (R2) on every path: decision true => Connection: close is set on the response object that is written and no further iteration follows; decision false on a non-HTTP/1.1 request => Connection: keep-alive is set; (R2d) the loop is left after a written response, on the server's own decision, only when that response carried Connection: close; (R3) the decision does not read per-request bookkeeping from a ctx that was swapped in after the handler (timeout path); (R4) every comparison of a header value with the 'close' token - in the request and response head parsers and in the header setters - is made by a case-insensitive, list-aware matcher, never by an exact byte comparison, so 'Connection: Close' and 'keep-alive, close' count as close on both the server and the client side, and while a head is parsed a store to the close flag can only raise it (several Connection lines form one list); (R5) in the client transport the decision to pool a connection whose body is handed out as a stream is taken from a value computed when the response arrived - the boolean captured by the stream-close callback depends on the response's Connection: close - and not only from the caller-owned response header as it looks when the stream is closed. (R6) every routine the list scanner uses to trim a list member compares bytes with both optional-whitespace characters, SP and HTAB. (R7) the close flag is assigned false only where, on every path to the return, the stored Connection entries are removed too (delAllArgs on the Connection name, or the reset of the whole list) - a setter of some other header cannot take back a close decision. Not decided: what the matcher accepts as token separators, client side reuse beyond the parsed flag.",
	"C11": "Structural necessary conditions of 'no state leaks between requests': (E7) every leaf field of Request, Response, RequestHeader, ResponseHeader, URI, Args, Cookie and RequestCtx is assigned (or known nil, or reset through its pointee) on every path of the type's reset method including callees, or is in a table of reasoned exemptions (scratch buffers, configuration, self pointers) - a newly added field is a violation until reset or exempted; (R-loop) every variable of the serve loop that survives an iteration is re-assigned before it is read in a later iteration on every path, or the loop provably ends; (R-reset) every path from the handler to the next iteration passes Request.Reset and Response.Reset; (R-ctx) every field of RequestCtx that a handler can set through an exported method and that the serve loop reads (hijack handler, no-response switch, timeout response) is cleared, found zero, or left behind with a replaced ctx on every path to the next request - neither Request.Reset nor Response.Reset touches them; (R-loop-owned, R-pool, R-scratch) the reasons given for exemptions are checked too: a field the serve loop owns is assigned by it before every handler dispatch, every field of a pooled helper object is assigned by its release or its acquire function, and no function uses the old content or length of a scratch buffer. (R-slot) a recycled entry of a key/value array (query args, cookies - the arrays are only truncated by Reset) has its key and value stored before it is kept, directly or by a scanner whose producing returns store them on every path. Not decided: that getters return exactly what the current request sent.",
	"C14": "The sequence of ConnState values the serve loop reports, decided on every path of the loop as an automaton: StateActive only follows New/Idle, StateIdle only follows Active, the handler and the response write happen in Active, an iteration that continues ends in Idle, and StateActive is only reported on a path on which a read of at least one byte succeeded; (R3) every function that runs the serve loop itself and reports states (ServeConn) reports StateNew before serving and, on every path to its return after StateNew was reported (served or turned away), exactly one terminal state - StateHijacked exactly when the loop returned errHijacked, StateClosed otherwise. (R4) at every call of the ConnState hook the connection argument is the enclosing function's own parameter, or a value taken out of it only through embedded fields that are assigned solely while their owner is private (so it is one stable value for the connection's life): all reports for one connection carry one value. (R5) a pooled per-IP connection wrapper is returned to its pool only by a routine that is not one of its own methods, and every call of that routine is dominated by a report of StateClosed for the same value - the hook knows a connection by its value, which must not be reused before its previous life was reported closed. Not decided: the reports made by the worker pool (C13.R2 decides its terminal action) and cross-goroutine ordering.",
	"C15": "Structural necessary conditions of graceful shutdown inside the serve loop, on every path: the per-connection idle marker is zero while the handler runs (so Shutdown's idle closer cannot close a busy connection), it is set non-zero after the response before the connection waits for the next request, the stop flag is tested after every response, and (R5) a response that was written into the connection writer is flushed before the writer is dropped whenever the serve function ends with a nil result (shutdown, client stopped sending) - so no answered request loses its response on a graceful end; (R6) in the shutdown code the Done channel is closed only under a false 'already closed' flag and the flag is raised after it, and wherever the channel reference is dropped the flag is lowered again on every path - otherwise the next Serve/Shutdown cycle of the same Server never closes its requests' Done channels; (E1) the open-connection counter Shutdown waits on is exact: ServeConn, serveConnCounted, serveConnCleanup and Serve each have the net effect on it that their contract states, on every path - a connection that is counted down twice lets Shutdown return nil while a handler is still running. (R7) ShutdownWithContext takes Server.mu before any of its returns (the listener list and the Done bookkeeping are touched under it). (R8) the idle marker is set only on paths on which the connection writer holds no unflushed response (a connection with a buffered response has its next pipelined request waiting and is not idle; R4 accepts the skipped marker on exactly those paths). (R9) every path of ShutdownWithContext to a return that is not the context's error - from its entry, not only from the drain loop - tested the Server.open counter itself against zero: not a view of it corrected by the number of running Serve calls, which is zero while Serve still accepts, and not 'there are no listeners', which says nothing about connections handed to ServeConn. Not decided: the rest of Shutdown's poll loop and listener handling, liveness, interleavings.",
	"C16": "Structural necessary conditions for timed-out handlers, on every path of the serve loop's timeoutResponse != nil branch: the response is written from a freshly acquired ctx into which the stored response was copied (R1); the timed-out ctx is never released to the pool by the loop (R2); no per-request field the loop stored on the old ctx is read from the fresh one (R3); (R6) the concurrency slot a timeout wrapper takes from Server.concurrencyCh is taken without blocking (429 otherwise), and it is given back only by code that has run the wrapped handler to its end - in the goroutine that calls it, after the call - exactly once; never by the wrapper's own frame, which returns when the timeout fires while the handler still runs; the semaphore field is read only by code that creates the channel when it is missing (a nil channel would turn every call into a 429); (R7) every bookkeeping field the serve function keeps on the ctx (connection id, connection time, request number, request time) is assigned on every path from each point where the ctx object is acquired or replaced to the handler dispatch, so requests served after a timed-out one see them. (R8) no exported RequestCtx method writes to the connection (acquireWriter, or Write on the ctx's conn, through module callees) unless it does so under the ctx's timeout lock after having found timeoutResponse nil, and the timeout response is installed under that same lock - a timed-out handler keeps using its ctx, and after the timeout only the serve loop may write; (R10) on the serve loop's 'handler timed out' branch the connection's per-IP wrapper is marked as abandoned, and every Put of such a wrapper into its pool is under a test that found the mark false - the late handler's ctx still refers to the wrapper; (R9) initTimer, which re-arms the pooled timer of the timeout wrappers on every request, contains no explicit panic (Reset may report a just-stopped timer as active). Not decided: what the late handler does with the old ctx, scheduling.",
	"C17": "Structural necessary conditions of connection hijacking, on every path: the response is written and flushed before the hand-off unless HijackSetNoResponse is in effect (R1); after 'go hijackConnHandler' the serve function performs no I/O on the connection and releases neither ctx nor the handed-over reader (R3); it returns errHijacked exactly on hand-off paths (R4); hijackConnHandler closes the connection after the user's handler unless KeepHijackedConns and releases the ctx (R5); hijack state a handler put on the ctx without hijacking does not survive into a later request of the connection (R6); every method of the connection wrapper handed to the hijack handler takes data off the connection only through the buffered reader that still holds what the client sent with the hijacking request, never from the raw connection (R7); hijackConnHandler does not recycle the ctx while a connection the handler kept (KeepHijackedConns) still reads through it, which is the case under ReduceMemoryUsage, where the buffered reader reads through a field of the ctx (R8). (R9) every path into the hijack hand-off passes an unconditional SetDeadline(zero) on the connection after any deadline the serve function armed - per-request timeouts make every configuration test of 'is a deadline pending' wrong. (R10) from a report of StateHijacked for a connection value no path leads, before that variable receives its next connection, to a routine that returns a connection wrapper to its pool with the same value (ServeConn, the worker loop). Not decided: byte-exact hand-over of buffered data, callers' reaction to errHijacked.",
}

func init() {
	for _, id := range []string{"C02", "C10", "C11", "C14", "C15", "C16", "C17"} {
		id := id
		register(&propDef{id: id, explain: serveExplain[id], run: func(p *Prog, r *Report) {
			p.serveLoop(id).report(r, id)
			if id == "C17" {
				hijackHandlerRule(p, r)
				hijackReadPathRule(p, r)
				hijackDeadlinesCleared(p, r)
				wrapperNotRecycledAfterHandOff(p, r)
			}
			if id == "C11" {
				resetCoverageRule(p, r)
				loopOwnedFieldsRule(p, r)
				pooledHelperRule(p, r, "")
				scratchPremiseRule(p, r, "R-scratch")
				requestDeadlineNotInherited(p, r)
				// recycled entries of the args / cookie arrays are completely overwritten before they are kept
				runSlotFill(p, r, "C28")
				runSlotFill(p, r, "C29")
			}
			if id == "C11" || id == "C17" {
				r.Floor("R-ctx", "handler-settable ctx fields read by the serve loop", p.serveLoop(id).counts["R-ctx handler-settable ctx fields read by the serve loop"], 3)
			}
			if id == "C16" {
				timeoutProducerRule(p, r, "C16")
				timeoutSemaphoreRule(p, r)
				handlerCannotWriteConn(p, r)
				timerReuseCannotPanic(p, r, "R9")
				abandonedWrapperNotPooled(p, r)
			}
			if id == "C14" {
				connStateCallersRule(p, r)
				hookSeesTrackedConn(p, r)
				wrapperRecycledAfterReport(p, r)
			}
			if id == "C10" {
				closeTokenRule(p, r)
				closeFlagLoweredWithEntry(p, r)
				listMemberTrimRule(p, r)
				clientCloseCaptureRule(p, r)
			}
			if id == "C15" {
				doneChannelRule(p, r)
				shutdownSerialised(p, r)
				shutdownWaitsOnOpenCounter(p, r)
				// Shutdown returns nil when Server.open reaches zero: the counter has to be exact (same obligations as C12's)
				runC12x(p, r, true)
			}
			if id == "C02" {
				limitedReaderDrainRule(p, r)
				streamConsumedRule(p, r)
				pooledHelperRule(p, r, "requestStream")
				streamNotUsedAfterRelease(p, r)
				readerReleaseRule(p, r, "C02")
				streamFramedBySnapshot(p, r)
				trailerErrorEndsTheBody(p, r)
				streamReleasedByItsOwner(p, r)
				orphanedReaderNotRecycled(p, r)
				movedStreamMarkedUnread(p, r)
			}
		}})
	}
}

// C17.R5: after the user's hijack handler returns, the connection is closed on
// every path unless KeepHijackedConns is set (path-sensitive: the option is
// tested more than once in the function).
func hijackHandlerRule(p *Prog, r *Report) {
	fn := p.Func("hijackConnHandler")
	if fn == nil {
		r.Undecided("R5", "anchor hijackConnHandler", "function not found")
		return
	}
	var connParam *ssa.Parameter
	for _, prm := range fn.Params {
		if typeIsNetConn(prm.Type()) {
			connParam = prm
		}
	}
	var userCall *ssa.Call // the dynamic call of the HijackHandler parameter
	allCalls(fn, func(b *ssa.BasicBlock, c ssa.CallInstruction) {
		if cv, ok := c.(*ssa.Call); ok && cv.Call.StaticCallee() == nil && !cv.Call.IsInvoke() {
			if _, isParam := cv.Call.Value.(*ssa.Parameter); isParam {
				userCall = cv
			}
		}
	})
	if connParam == nil || userCall == nil {
		r.Undecided("R5", "hijackConnHandler shape", "no net.Conn parameter or no call of the handler parameter found")
		return
	}
	fRelCtx := p.Func("(*Server).releaseCtx")
	const (
		bUser uint64 = 1 << iota
		bClosed
		bCtxReleased
	)
	var keepLoads []ssa.Value
	for _, b := range fn.Blocks {
		for _, in := range b.Instrs {
			if u, ok := in.(*ssa.UnOp); ok {
				if _, fv := loadedField(u); fv != nil && fv.Name() == "KeepHijackedConns" {
					keepLoads = append(keepLoads, u)
				}
			}
		}
	}
	var rmuLoads []ssa.Value
	for _, b := range fn.Blocks {
		for _, in := range b.Instrs {
			if u, ok := in.(*ssa.UnOp); ok {
				if _, fv := loadedField(u); fv != nil && fv.Name() == "ReduceMemoryUsage" {
					rmuLoads = append(rmuLoads, u)
				}
			}
		}
	}
	// premise of the ctx rule below: under ReduceMemoryUsage the connection's buffered reader reads through a field of
	// the ctx (acquireByteReader resets it onto &ctx.fbr), so a kept connection keeps the ctx in use
	readsThroughCtx := false
	if abr := p.Func("acquireByteReader"); abr != nil {
		allCalls(abr, func(b *ssa.BasicBlock, c ssa.CallInstruction) {
			if f := c.Common().StaticCallee(); f != nil && f.Name() == "Reset" && recvTypeName(f) == "Reader" {
				for _, a := range c.Common().Args {
					if mi, ok := a.(*ssa.MakeInterface); ok {
						a = mi.X
					}
					if fa, ok := a.(*ssa.FieldAddr); ok && typeNameOf(fa.X) == "RequestCtx" {
						readsThroughCtx = true
					}
				}
			}
		})
	}
	nret, bad := 0, 0
	badCtx, badKept := 0, 0
	var wit, witCtx []string
	var pos string
	x := NewExplorer(p, fn, Hooks{
		Instr: func(x *Explorer, st *State, in ssa.Instruction) {
			c, ok := in.(ssa.CallInstruction)
			if !ok {
				return
			}
			switch {
			case in == ssa.Instruction(userCall):
				st.Set(bUser)
			case isInvoke(c, "Close") && c.Common().Value == ssa.Value(connParam):
				if st.Has(bUser) {
					st.Set(bClosed)
				} else {
					r.Check("R5", "connection is not closed before the hijack handler ran", false, p.Pos(in.Pos()), "c.Close() precedes the user's hijack handler")
				}
			case isCallTo(c, fRelCtx):
				st.Set(bCtxReleased)
			}
		},
		Exit: func(x *Explorer, st *State, ret *ssa.Return, pan *ssa.Panic) {
			if ret == nil {
				return
			}
			nret++
			keep := Unknown
			for _, k := range keepLoads {
				if a := x.Eval(st, k); a != Unknown {
					keep = a
				}
			}
			if !st.Has(bClosed) && keep != True {
				bad++
				if wit == nil {
					wit = x.Path(st)
					pos = p.Pos(ret.Pos())
				}
			}
			rmu := Unknown
			for _, k := range rmuLoads {
				if a := x.Eval(st, k); a != Unknown {
					rmu = a
				}
			}
			// the ctx: recycled, unless a kept connection still reads through it
			keptThroughCtx := readsThroughCtx && keep == True && rmu == True
			if !st.Has(bCtxReleased) && !keptThroughCtx {
				badCtx++
				if witCtx == nil {
					witCtx = x.Path(st)
				}
			}
			if st.Has(bCtxReleased) && readsThroughCtx && keep == True && rmu != False {
				badKept++
				if witCtx == nil {
					witCtx = x.Path(st)
				}
			}
		},
	})
	for _, k := range keepLoads {
		x.Track(k)
	}
	for _, k := range rmuLoads {
		x.Track(k)
	}
	x.Run(nil)
	r.Counts["R5 hijackConnHandler return arrivals"] = nret
	r.Floor("R5", "KeepHijackedConns tests in hijackConnHandler", len(keepLoads), 1)
	r.Check("R5", "hijackConnHandler closes the connection after the handler unless KeepHijackedConns", bad == 0 && nret > 0, pos,
		fmt.Sprintf("%d of %d explored return arrivals leave the connection open although KeepHijackedConns is not known to be true (hijackConn.Close is a no-op in that mode, so nobody else closes it)", bad, nret), wit...)
	// the ctx handed to the goroutine is released exactly there - except while a kept connection still reads through it
	r.Check("R5", "hijackConnHandler releases the ctx it was handed, unless a kept connection still reads through it", badCtx == 0 && nret > 0, p.Pos(fn.Pos()),
		fmt.Sprintf("%d of %d explored return arrivals leave without releaseCtx although no kept connection uses the ctx: the ctx taken over from the serve loop is never recycled", badCtx, nret), witCtx...)
	r.Check("R8", "hijackConnHandler does not recycle a ctx that a kept hijacked connection still reads through", badKept == 0 && nret > 0, p.Pos(fn.Pos()),
		fmt.Sprintf("%d of %d explored return arrivals release the ctx with KeepHijackedConns set and ReduceMemoryUsage not known to be off (the buffered reader reads through a field of the ctx: %v): the connection the handler kept then reads through a recycled ctx - a nil dereference, or another connection's bytes", badKept, nret, readsThroughCtx), witCtx...)
}

// C11.E7: every field of every per-request object is cleared by its reset
// method on every path, or is in the reasoned exemption table.
type resetPair struct {
	typ, method string
	floor       int
}

var resetPairs = []resetPair{
	{"Request", "Reset", 20}, {"Response", "Reset", 20}, {"RequestHeader", "Reset", 15}, {"ResponseHeader", "Reset", 15},
	{"URI", "Reset", 10}, {"Args", "Reset", 1}, {"Cookie", "Reset", 8}, {"RequestCtx", "reset", 10},
}

// resetExempt: field path suffix -> reason. Keyed by "Type.path".
var resetExempt = map[string]string{}

func resetCoverageRule(p *Prog, r *Report) {
	for _, rp := range resetPairs {
		fn := p.Func("(*" + rp.typ + ")." + rp.method)
		nt := p.NamedType(rp.typ)
		if fn == nil || nt == nil {
			r.Undecided("E7", rp.typ+"."+rp.method, "type or method not found")
			continue
		}
		written := fieldsWritten(p, fn, 0, 5)
		var all []string
		collectFieldPaths(nt, "", &all, 0)
		n := 0
		for _, fp := range all {
			if reason := resetExemptReason(rp.typ, fp); reason != "" {
				r.Note("E7 exempt %s.%s: %s", rp.typ, fp, reason)
				continue
			}
			if ft := fieldTypeByPath(nt, fp); ft != nil && strings.HasPrefix(ft.String(), "sync.") {
				r.Note("E7 exempt %s.%s: a %s carries no request data (and must not be overwritten while it may be held)", rp.typ, fp, ft.String())
				continue
			}
			n++
			r.Check("E7", fmt.Sprintf("%s.%s clears %s on every path", rp.typ, rp.method, fp), coveredBy(written, fp), p.Pos(fn.Pos()),
				"the field is not assigned on some path through the reset method (and its callees): a recycled object can carry this field from the previous request into the next one")
		}
		r.Floor("E7", rp.typ+"."+rp.method+" fields", n, rp.floor)
	}
}

func resetExemptReason(typ, fp string) string {
	if r := resetExempt[typ+"."+fp]; r != "" {
		return r
	}
	base := fp
	if i := strings.LastIndex(fp, "."); i >= 0 {
		base = fp[i+1:]
	}
	switch base {
	case "noCopy":
		return "zero-size vet marker"
	case "bufK", "bufV", "mulHeader":
		return "scratch buffer: written before it is read within every call that uses it"
	case "secureErrorLogMessage":
		return "logging option imposed by the owner before every use (the serve loop stores it on every iteration; checked by R-config), not request data"
	case "keepBodyBuffer":
		return "allocation policy set when the object is acquired (acquireCtx / AcquireRequest), not request data"
	}
	switch {
	case strings.HasSuffix(fp, "w.r"):
		return "self pointer of the BodyWriter adapter (points back at the owning Request/Response)"
	case strings.HasSuffix(fp, "Args.buf") || strings.HasSuffix(fp, "postArgs.buf") || strings.HasSuffix(fp, "queryArgs.buf") || (typ == "Args" && fp == "buf"):
		return "scratch buffer of Args getters: overwritten from [:0] by every call that reads it"
	case strings.HasSuffix(fp, "uri.fullURI") || strings.HasSuffix(fp, "uri.requestURI") || (typ == "URI" && (fp == "fullURI" || fp == "requestURI")):
		return "derived caches: FullURI()/RequestURI() rebuild them from [:0] on every call before returning them"
	case typ == "RequestCtx" && (fp == "logger.ctx" || fp == "logger.logger"):
		return "ctxLogger self pointer and the server's logger (configuration)"
	case typ == "RequestCtx" && fp == "s":
		return "server pointer: documented as deliberately kept (one pool per server; context.Done/Err of a late handler read only ctx.s)"
	case typ == "RequestCtx" && (fp == "timeoutCh" || fp == "timeoutTimer"):
		return "reused synchronisation objects (semaphore channel, stopped timer): carry no request data"
	case fp == "bodyStreamUnread" || strings.HasSuffix(fp, "Request.bodyStreamUnread"):
		return "owned by the serve loop: it has to survive a Reset the handler performs (that is its purpose: remembering that an unread connection-backed stream was dropped); the loop stores false before every handler dispatch (checked by C11.R-loop-owned) and reads it afterwards"
	case typ == "RequestCtx" && fp == "formValueFunc":
		return "configuration copied from Server.FormValueFunc when the ctx is acquired"
	}
	return ""
}

// timeoutProducerRule: the functions that install RequestCtx.timeoutResponse.
//
//	C16.R4: the installed response is a freshly allocated object filled by CopyTo (a private copy,
//	        not the caller's pointer, which the caller may go on mutating);
//	C03.R4b: it gets SkipBody = true under IsHead() of the timed-out request, because the serve loop
//	        writes it from a fresh ctx that no longer knows the request method.
func timeoutProducerRule(p *Prog, r *Report, prop string) {
	fCopyTo := p.Func("(*Response).CopyTo")
	fIsHead := p.Func("(*RequestCtx).IsHead")
	n := 0
	for _, fn := range p.funcsIn("") {
		for _, b := range fn.Blocks {
			for _, in := range b.Instrs {
				st, ok := in.(*ssa.Store)
				if !ok {
					continue
				}
				_, fv := fieldOfAddr(st.Addr)
				if fv == nil || fv.Name() != "timeoutResponse" || isNilConst(st.Val) {
					continue
				}
				if c, isC := st.Val.(*ssa.Const); isC && c.Value == nil {
					continue
				}
				n++
				name := funcName(fn)
				al, fresh := st.Val.(*ssa.Alloc)
				switch prop {
				case "C16":
					copied := false
					if fresh {
						allCalls(fn, func(bb *ssa.BasicBlock, c ssa.CallInstruction) {
							if isCallTo(c, fCopyTo) && len(c.Common().Args) == 2 && c.Common().Args[1] == ssa.Value(al) && dominatesInstr(c.(ssa.Instruction), st) {
								copied = true
							}
						})
					}
					r.Check("R4", name+": the installed timeout response is a fresh object filled by CopyTo before it is published", fresh && copied, p.Pos(st.Pos()),
						"ctx.timeoutResponse is set to a value that is not a freshly allocated Response into which the caller's response was copied: the serve loop would write an object the caller can still mutate")
				case "C03":
					skip := false
					for _, bb := range fn.Blocks {
						for _, i2 := range bb.Instrs {
							s2, ok := i2.(*ssa.Store)
							if !ok {
								continue
							}
							base, f2 := fieldOfAddr(s2.Addr)
							if f2 == nil || f2.Name() != "SkipBody" || !fresh || base != ssa.Value(al) {
								continue
							}
							if c, isC := s2.Val.(*ssa.Const); !isC || c.Value == nil || c.Value.ExactString() != "true" {
								continue
							}
							for _, g := range guardsOf(bb) {
								if cv, isCall := g.Cond.(*ssa.Call); isCall && isCallTo(cv, fIsHead) && g.Pol && (bb == st.Block() || blockReaches(bb, st.Block(), nil)) {
									skip = true
								}
							}
						}
					}
					r.Check("R4b", name+": the timeout response of a HEAD request is installed with SkipBody", skip, p.Pos(st.Pos()),
						"the response stored in ctx.timeoutResponse does not get SkipBody = true under ctx.IsHead(); the serve loop writes it from a fresh ctx that cannot tell the request was HEAD, so a body would follow the headers of a HEAD response")
				}
			}
		}
	}
	rule := "R4"
	if prop == "C03" {
		rule = "R4b"
	}
	r.Floor(rule, "functions installing ctx.timeoutResponse", n, 1)
}

// C02.R3: a length-limited reader placed over a caller-supplied reader on the
// request-body path, and handed to a parser that may stop early, is drained to
// exhaustion before the function reports success; otherwise the rest of the
// framed body stays on the connection and is parsed as the next request.
func limitedReaderDrainRule(p *Prog, r *Report) {
	roots := []*ssa.Function{p.Func("(*Request).ContinueReadBody"), p.Func("(*Request).readLimitBody"), p.Func("(*Request).ReadBody")}
	reach := p.reachableFuncs(roots, 6)
	isDrain := func(f *ssa.Function) bool {
		if f == nil {
			return false
		}
		if !inModule(f) {
			path := ""
			if f.Pkg != nil {
				path = f.Pkg.Pkg.Path()
			}
			return (path == "io" || path == "io/ioutil") && (f.Name() == "Copy" || f.Name() == "CopyBuffer" || f.Name() == "CopyN" || f.Name() == "ReadAll")
		}
		switch f.Name() {
		case "copyZeroAlloc", "copyBuffer", "copyBodyStream":
			return true
		}
		return false
	}
	n := 0
	for fn := range reach {
		if !inModule(fn) || fn.Blocks == nil {
			continue
		}
		allCalls(fn, func(b *ssa.BasicBlock, c ssa.CallInstruction) {
			cv, ok := c.(*ssa.Call)
			if !ok || !stdCall(cv, "io", "LimitReader") {
				return
			}
			if _, isParam := cv.Call.Args[0].(*ssa.Parameter); !isParam {
				return
			}
			// consumers of the limited reader
			parser := ""
			for _, ref := range *cv.Referrers() {
				if cc, ok := ref.(ssa.CallInstruction); ok {
					if f := cc.Common().StaticCallee(); !isDrain(f) {
						parser = calleeName(cc)
					}
				}
			}
			if parser == "" {
				return
			}
			n++
			drain := func(in ssa.Instruction) bool {
				cc, ok := in.(ssa.CallInstruction)
				if !ok || !isDrain(cc.Common().StaticCallee()) {
					return false
				}
				for _, a := range cc.Common().Args {
					if a == ssa.Value(cv) {
						return true
					}
				}
				return false
			}
			success := func(in ssa.Instruction) bool {
				rt, ok := in.(*ssa.Return)
				if !ok {
					return false
				}
				rr := returnResults(rt)
				return len(rr) > 0 && isNilConst(rr[len(rr)-1])
			}
			hit, path := reachAvoiding(fn, cv, success, drain, nil)
			r.Check("R3", funcName(fn)+": the length-limited reader handed to "+parser+" is drained before success is reported", hit == nil, p.Pos(cv.Pos()),
				"a nil-error return is reachable from io.LimitReader without copying the rest of the limited reader away: bytes between the end of what the parser consumed and the declared length stay on the connection and are parsed as the next request", blocksString(p, path)...)
		})
	}
	r.Floor("R3", "length-limited readers over a caller's reader handed to a parser on the request-body path", n, 1)
}

// C02.R4: the serve loop keeps a connection after a streamed chunked body only
// when requestStream.fullyRead() says so, and for chunked bodies fullyRead()
// is a flag. The flag may therefore only be raised once the whole framed body -
// including the trailer section that follows the last chunk - has been taken
// off the connection: every store of true to a bool field that fullyRead
// consults is preceded, on every path, by the trailer reader, and the
// trailer reader's error is examined between the call and the store.
func streamConsumedRule(p *Prog, r *Report) {
	fr := p.Func("(*requestStream).fullyRead")
	if fr == nil {
		r.Undecided("R4", "(*requestStream).fullyRead", "not found")
		return
	}
	flags := map[*types.Var]bool{}
	for _, b := range fr.Blocks {
		for _, in := range b.Instrs {
			if u, ok := in.(*ssa.UnOp); ok && u.Op == token.MUL {
				if base, fv := fieldOfAddr(u.X); fv != nil && typeNameOf(base) == "requestStream" && isBool(fv.Type()) {
					flags[fv] = true
				}
			}
		}
	}
	r.Floor("R4", "bool fields of requestStream that fullyRead consults", len(flags), 1)
	isTrailerRead := func(i ssa.Instruction) bool {
		c, ok := i.(ssa.CallInstruction)
		if !ok {
			return false
		}
		if c.Common().IsInvoke() {
			return c.Common().Method.Name() == "ReadTrailer"
		}
		f := c.Common().StaticCallee()
		return f != nil && f.Name() == "ReadTrailer"
	}
	n := 0
	for _, fn := range p.SrcFuncs() {
		for _, b := range fn.Blocks {
			for _, in := range b.Instrs {
				st, ok := in.(*ssa.Store)
				if !ok {
					continue
				}
				base, fv := fieldOfAddr(st.Addr)
				if fv == nil || !flags[fv] || typeNameOf(base) != "requestStream" {
					continue
				}
				if c, isC := st.Val.(*ssa.Const); !isC || c.Value == nil || c.Value.ExactString() != "true" {
					continue
				}
				n++
				isStore := func(i ssa.Instruction) bool { return i == ssa.Instruction(st) }
				hit, path := reachAvoiding(fn, nil, isStore, isTrailerRead, nil)
				r.Check("R4", fmt.Sprintf("%s: %s is raised only after the trailer section was read", funcName(fn), fv.Name()), hit == nil, p.Pos(st.Pos()),
					"the flag fullyRead() reports is set on a path that has not called ReadTrailer yet: if the trailer section then fails to parse, the stream counts as consumed, the connection is kept and the unread trailer bytes are parsed as the next request", blocksString(p, path)...)
				// the error of the trailer reader is looked at before the flag is raised
				tested := true
				for _, bb := range fn.Blocks {
					for _, i2 := range bb.Instrs {
						if !isTrailerRead(i2) {
							continue
						}
						cv, isV := i2.(ssa.Value)
						if !isV {
							continue
						}
						examines := func(i ssa.Instruction) bool {
							iff, ok := i.(*ssa.If)
							if !ok {
								return false
							}
							dep := false
							var walk func(v ssa.Value, d int)
							walk = func(v ssa.Value, d int) {
								if d > 6 || dep {
									return
								}
								if v == cv {
									dep = true
									return
								}
								switch w := v.(type) {
								case *ssa.BinOp:
									walk(w.X, d+1)
									walk(w.Y, d+1)
								case *ssa.UnOp:
									walk(w.X, d+1)
								case *ssa.Phi:
									for _, e := range w.Edges {
										walk(e, d+1)
									}
								case *ssa.Extract:
									walk(w.Tuple, d+1)
								}
							}
							walk(iff.Cond, 0)
							return dep
						}
						if h2, _ := reachAvoiding(fn, i2, isStore, examines, nil); h2 != nil {
							tested = false
						}
					}
				}
				r.Check("R4", fmt.Sprintf("%s: the trailer reader's error is examined before %s is raised", funcName(fn), fv.Name()), tested, p.Pos(st.Pos()),
					"a path from ReadTrailer to the store does not branch on its error")
			}
		}
	}
	r.Floor("R4", "stores raising a consumption flag of requestStream", n, 1)
}

// C14.R3: callers of the serve loop that report connection states themselves.
func connStateCallersRule(p *Prog, r *Report) {
	loop, _, _, why := findServeLoop(p)
	if loop == nil {
		r.Undecided("R3", "serve loop", why)
		return
	}
	setState := p.Func("(*Server).setState")
	if setState == nil {
		r.Undecided("R3", "(*Server).setState", "not found")
		return
	}
	consts := map[string]int64{}
	for _, name := range []string{"StateNew", "StateHijacked", "StateClosed"} {
		if v, ok := constOfObj(p.byPath[rootPkg].Types, name); ok {
			if k, ok := constant.Int64Val(v); ok {
				consts[name] = k
			}
		}
	}
	if len(consts) != 3 {
		r.Undecided("R3", "ConnState constants", "not found")
		return
	}
	n := 0
	for _, fn := range p.funcsIn("") {
		if fn == loop {
			continue
		}
		var serve *ssa.Call
		reports := false
		allCalls(fn, func(b *ssa.BasicBlock, c ssa.CallInstruction) {
			if cv, ok := c.(*ssa.Call); ok && isCallTo(c, loop) {
				serve = cv
			}
			if isCallTo(c, setState) {
				reports = true
			}
		})
		if serve == nil || !reports {
			continue
		}
		n++
		const (
			bNew uint64 = 1 << iota
			bServed
			bHij
			bClosed
		)
		bad, nret := 0, 0
		var wit []string
		detail := ""
		fail := func(x *Explorer, st *State, what string) {
			bad++
			if wit == nil {
				wit = x.Path(st)
				detail = what
			}
		}
		x := NewExplorer(p, fn, Hooks{
			Instr: func(x *Explorer, st *State, in ssa.Instruction) {
				c, ok := in.(ssa.CallInstruction)
				if !ok {
					return
				}
				switch {
				case in == ssa.Instruction(serve):
					if !st.Has(bNew) {
						fail(x, st, "the serve loop runs before StateNew was reported")
					}
					st.Set(bServed)
				case isCallTo(c, setState) && len(c.Common().Args) == 3:
					k, okk := constInt(c.Common().Args[2])
					if !okk {
						return
					}
					switch k {
					case consts["StateNew"]:
						st.Set(bNew)
					case consts["StateHijacked"], consts["StateClosed"]:
						if st.Has(bHij) || st.Has(bClosed) {
							fail(x, st, "a second terminal state is reported")
						}
						if k == consts["StateHijacked"] {
							st.Set(bHij)
						} else {
							st.Set(bClosed)
						}
					}
				}
			},
			Exit: func(x *Explorer, st *State, ret *ssa.Return, pan *ssa.Panic) {
				if ret == nil {
					return
				}
				if !st.Has(bServed) {
					// a connection that was announced with StateNew and then turned away still ends in a terminal state
					if st.Has(bNew) {
						nret++
						if !st.Has(bHij) && !st.Has(bClosed) {
							fail(x, st, "StateNew was reported, the connection was not served, and the function returns without reporting StateClosed")
						}
					}
					return
				}
				nret++
				hij := x.resolvesErrHijacked(st, serve)
				switch {
				case !st.Has(bHij) && !st.Has(bClosed):
					fail(x, st, "returns after serving without reporting StateClosed or StateHijacked")
				case st.Has(bHij) && hij == False:
					fail(x, st, "StateHijacked reported although the loop did not return errHijacked")
				case st.Has(bClosed) && hij == True:
					fail(x, st, "StateClosed reported for a hijacked connection")
				}
			},
		})
		x.TrackAll = true
		x.Filter = noIntFilter
		for _, b := range fn.Blocks {
			for _, in := range b.Instrs {
				if bo, ok := in.(*ssa.BinOp); ok && (bo.Op == token.EQL || bo.Op == token.NEQ) && (globalOf(bo.X) == "errHijacked" || globalOf(bo.Y) == "errHijacked") {
					x.Track(bo)
				}
			}
		}
		x.Run(nil)
		if x.Aborted {
			r.Undecided("R3", funcName(fn), "state budget exhausted")
			continue
		}
		r.Check("R3", fmt.Sprintf("%s: StateNew before serving and exactly one terminal state (Hijacked iff errHijacked) on every path after it", funcName(fn)), bad == 0 && nret > 0, p.Pos(serve.Pos()),
			fmt.Sprintf("%s (%d of %d explored returns): a ConnState hook that tracks connections never learns that this one is gone", detail, bad, nret), wit...)
	}
	r.Floor("R3", "functions that run the serve loop and report states", n, 1)
}

// C16.R6: the handler-concurrency semaphore of the timeout wrappers.
func timeoutSemaphoreRule(p *Prog, r *Report) {
	// does v denote the channel stored in Server.concurrencyCh ?
	var isSem func(v ssa.Value, fn *ssa.Function, d int) bool
	isSem = func(v ssa.Value, fn *ssa.Function, d int) bool {
		if d > 6 || v == nil {
			return false
		}
		switch w := v.(type) {
		case *ssa.UnOp:
			if w.Op != token.MUL {
				return false
			}
			if _, fv := fieldOfAddr(w.X); fv != nil {
				return fv.Name() == "concurrencyCh"
			}
			switch a := w.X.(type) {
			case *ssa.Alloc:
				for _, ref := range *a.Referrers() {
					if st, ok := ref.(*ssa.Store); ok && st.Addr == ssa.Value(a) && isSem(st.Val, fn, d+1) {
						return true
					}
				}
			case *ssa.FreeVar:
				par := fn.Parent()
				if par == nil {
					return false
				}
				idx := -1
				for i, fv := range fn.FreeVars {
					if fv == a {
						idx = i
					}
				}
				for _, b := range par.Blocks {
					for _, in := range b.Instrs {
						if mc, ok := in.(*ssa.MakeClosure); ok && mc.Fn == ssa.Value(fn) && idx >= 0 && idx < len(mc.Bindings) {
							// the binding is the address of the captured variable
							if al, ok := mc.Bindings[idx].(*ssa.Alloc); ok {
								for _, ref := range *al.Referrers() {
									if st, ok := ref.(*ssa.Store); ok && st.Addr == ssa.Value(al) && isSem(st.Val, par, d+1) {
										return true
									}
								}
							}
							if fv2, ok := mc.Bindings[idx].(*ssa.FreeVar); ok {
								return isSem(&ssa.UnOp{Op: token.MUL, X: fv2}, par, d+1)
							}
						}
					}
				}
			}
		case *ssa.Phi:
			for _, e := range w.Edges {
				if isSem(e, fn, d+1) {
					return true
				}
			}
		case *ssa.Call:
			// an accessor returning the field
			if g := w.Call.StaticCallee(); g != nil && inModule(g) {
				for _, b := range g.Blocks {
					if rt, ok := b.Instrs[len(b.Instrs)-1].(*ssa.Return); ok {
						for _, rv := range returnResults(rt) {
							if isSem(rv, g, d+1) {
								return true
							}
						}
					}
				}
			}
		}
		return false
	}
	// R6b: the field is nil until something creates the channel, and a send on a nil channel never proceeds
	// (every call would be answered 429). So it is read only by code that creates it when it is missing.
	{
		storesIt := func(f *ssa.Function) bool {
			found := false
			var visit func(g *ssa.Function)
			visit = func(g *ssa.Function) {
				for _, b := range g.Blocks {
					for _, in := range b.Instrs {
						if st, ok := in.(*ssa.Store); ok {
							if base, fv := fieldOfAddr(st.Addr); fv != nil && fv.Name() == "concurrencyCh" && typeNameOf(base) == "Server" {
								found = true
							}
						}
					}
				}
				for _, an := range g.AnonFuncs {
					visit(an)
				}
			}
			visit(f)
			return found
		}
		nread := 0
		for _, fn := range p.funcsIn("") {
			for _, b := range fn.Blocks {
				for _, in := range b.Instrs {
					u, ok := in.(*ssa.UnOp)
					if !ok || u.Op != token.MUL {
						continue
					}
					base, fv := fieldOfAddr(u.X)
					if fv == nil || fv.Name() != "concurrencyCh" || typeNameOf(base) != "Server" {
						continue
					}
					nread++
					top := fn
					for top.Parent() != nil {
						top = top.Parent()
					}
					r.Check("R6", fmt.Sprintf("%s reads Server.concurrencyCh only where the channel is created when missing", funcName(fn)), storesIt(top), p.Pos(u.Pos()),
						"the handler-concurrency semaphore is read straight from the field, which only some entry points initialise: on a server that never ran them the channel is nil, the non-blocking send never succeeds and every wrapped call is answered 429 although nothing is running")
				}
			}
		}
		r.Floor("R6", "reads of Server.concurrencyCh", nread, 1)
	}
	isHandlerCall := func(i ssa.Instruction) bool {
		c, ok := i.(*ssa.Call)
		if !ok || c.Call.StaticCallee() != nil || c.Call.IsInvoke() {
			return false
		}
		// a dynamic call of a captured RequestHandler value
		return strings.HasSuffix(c.Call.Value.Type().String(), "RequestHandler")
	}
	nacq, nrel := 0, 0
	for _, fn := range p.funcsIn("") {
		for _, b := range fn.Blocks {
			for _, in := range b.Instrs {
				switch w := in.(type) {
				case *ssa.Select:
					for _, st := range w.States {
						if st.Dir == types.SendOnly && isSem(st.Chan, fn, 0) {
							nacq++
							r.Check("R6", fmt.Sprintf("%s: the handler slot is taken without blocking", funcName(fn)), !w.Blocking, p.Pos(w.Pos()),
								"the wrapper waits for a slot instead of answering 429: excess calls queue up behind running handlers")
							// on the acquired path a goroutine is started before the wrapper returns
							hit, path := reachAvoiding(fn, in, isReturn, func(i ssa.Instruction) bool {
								if _, ok := i.(*ssa.Go); ok {
									return true
								}
								// the branch that did not get the slot answers and returns: recognised by the 429 reply
								if c, ok := i.(ssa.CallInstruction); ok {
									for _, a := range c.Common().Args {
										if k, ok := constInt(a); ok && k == 429 {
											return true
										}
									}
								}
								return false
							}, nil)
							r.Check("R6", fmt.Sprintf("%s: after taking a slot the wrapper starts the goroutine that will give it back (or answered 429 without one)", funcName(fn)), hit == nil, p.Pos(w.Pos()),
								"a return of the wrapper is reachable with the slot taken and no goroutine started: the slot is never given back", blocksString(p, path)...)
						}
					}
				case *ssa.UnOp:
					if w.Op != token.ARROW || !isSem(w.X, fn, 0) {
						continue
					}
					nrel++
					// the release sits in code that has run the wrapped handler first
					hit, path := reachAvoiding(fn, nil, func(i ssa.Instruction) bool { return i == ssa.Instruction(w) }, isHandlerCall, nil)
					// a release inside a closure that its parent defers runs when the parent ends: it is fine when that
					// parent is the function that runs the wrapped handler (and not the wrapper that took the slot)
					if hit != nil && fn.Parent() != nil {
						par := fn.Parent()
						deferred, callsHandler, acquires := false, false, false
						for _, pb := range par.Blocks {
							for _, pi := range pb.Instrs {
								if d, ok := pi.(*ssa.Defer); ok {
									if mc, ok := d.Call.Value.(*ssa.MakeClosure); ok && mc.Fn == ssa.Value(fn) {
										deferred = true
									}
								}
								if isHandlerCall(pi) {
									callsHandler = true
								}
								if sel, ok := pi.(*ssa.Select); ok {
									for _, st := range sel.States {
										if st.Dir == types.SendOnly && isSem(st.Chan, par, 0) {
											acquires = true
										}
									}
								}
							}
						}
						if deferred && callsHandler && !acquires {
							hit, path = nil, nil
						}
					}
					r.Check("R6", fmt.Sprintf("%s: the handler slot is given back only after the wrapped handler returned", funcName(fn)), hit == nil, p.Pos(w.Pos()),
						"the receive that frees the slot is reachable without the wrapped handler having been called in this function: the slot is freed while the handler may still run (a timed-out handler is no longer counted, so more than Concurrency of them run and excess calls are not answered 429)", blocksString(p, path)...)
					// and exactly once: no second release on any path after it
					h2, _ := reachAvoiding(fn, w, func(i ssa.Instruction) bool {
						u, ok := i.(*ssa.UnOp)
						return ok && u.Op == token.ARROW && isSem(u.X, fn, 0)
					}, nil, nil)
					r.Check("R6", fmt.Sprintf("%s: the handler slot is given back at most once", funcName(fn)), h2 == nil, p.Pos(w.Pos()), "a second receive from the semaphore follows the first")
					// every path of the releasing function reaches the release
					h3, p3 := reachAvoiding(fn, nil, isReturn, func(i ssa.Instruction) bool {
						u, ok := i.(*ssa.UnOp)
						return ok && u.Op == token.ARROW && isSem(u.X, fn, 0)
					}, nil)
					r.Check("R6", fmt.Sprintf("%s: every path of the goroutine gives the slot back", funcName(fn)), h3 == nil, p.Pos(w.Pos()), "a return is reachable without the release", blocksString(p, p3)...)
				}
			}
		}
	}
	r.Floor("R6", "non-blocking acquisitions of Server.concurrencyCh", nacq, 1)
	r.Floor("R6", "releases of Server.concurrencyCh", nrel, 1)
}

// C10.R4: 'close' is a case-insensitive token that may be one element of a list.
func closeTokenRule(p *Prog, r *Report) {
	n := 0
	for _, fn := range p.funcsIn("") {
		allCalls(fn, func(b *ssa.BasicBlock, c ssa.CallInstruction) {
			f := c.Common().StaticCallee()
			if f == nil {
				return
			}
			uses := false
			for _, a := range c.Common().Args {
				if globalOf(a) == "strClose" {
					uses = true
				}
			}
			res := f.Signature.Results()
			if !uses || res.Len() != 1 || !isBool(res.At(0).Type()) {
				return
			}
			n++
			exact := f.Pkg != nil && f.Pkg.Pkg.Path() == "bytes" && f.Name() == "Equal"
			tolerant := inModule(f) && (f.Name() == "caseInsensitiveCompare" || f.Name() == "hasHeaderValue") ||
				(f.Pkg != nil && f.Pkg.Pkg.Path() == "bytes" && f.Name() == "EqualFold")
			r.Check("R4", fmt.Sprintf("%s: the value is matched against the 'close' token case-insensitively (%s)", funcName(fn), shortType(calleeName(c))), !exact && tolerant, p.Pos(c.Pos()),
				"an exact byte comparison with 'close': 'Connection: Close' (or a token list containing close) is not recognised, so the connection is kept although the peer announced it will close it, or asked for it to be closed")
		})
	}
	r.Floor("R4", "comparisons of header values with the 'close' token", n, 4)
	// R4b: while a head is parsed the close flag is only ever raised. Connection may come in several lines
	// that form one list, and framing errors raise the flag too: an assignment that can lower it lets a later
	// line take back an earlier 'close'. (A store that is only reached while the flag is false cannot lower it.)
	np := 0
	for _, fn := range p.funcsIn("") {
		usesScanner := false
		for _, b := range fn.Blocks {
			for _, in := range b.Instrs {
				if al, ok := in.(*ssa.Alloc); ok && strings.HasSuffix(al.Type().String(), "headerScanner") {
					usesScanner = true
				}
			}
		}
		if !usesScanner {
			continue
		}
		for _, b := range fn.Blocks {
			for _, in := range b.Instrs {
				st, ok := in.(*ssa.Store)
				if !ok {
					continue
				}
				if _, fv := fieldOfAddr(st.Addr); fv == nil || fv.Name() != "connectionClose" {
					continue
				}
				np++
				raises := false
				if c, isC := st.Val.(*ssa.Const); isC && c.Value != nil && c.Value.ExactString() == "true" {
					raises = true
				}
				if !raises {
					for _, g := range guardsOf(b) {
						if strings.Contains(g.Atom, "connectionClose") && !g.Pol {
							raises = true // only reached while the flag is false
						}
					}
				}
				// 'flag = flag || x': a merge of the constant true with a value computed only while the flag was false
				if ph, ok := st.Val.(*ssa.Phi); ok && !raises {
					all := true
					for i, e := range ph.Edges {
						if c, isC := e.(*ssa.Const); isC && c.Value != nil && c.Value.ExactString() == "true" {
							continue
						}
						okEdge := false
						pr := ph.Block().Preds[i]
						for _, g := range guardsOf(pr) {
							if strings.Contains(g.Atom, "connectionClose") && !g.Pol {
								okEdge = true
							}
						}
						if iff, isIf := pr.Instrs[len(pr.Instrs)-1].(*ssa.If); isIf && hasAtomContaining(condAtoms(iff.Cond), "connectionClose") {
							okEdge = true
						}
						if !okEdge {
							all = false
						}
					}
					raises = all
				}
				r.Check("R4", fmt.Sprintf("%s: a store to the close flag while the head is parsed can only raise it", funcName(fn)), raises, p.Pos(st.Pos()),
					"the flag is assigned a value that may be false although an earlier header line (Connection: close, or a framing rule) may already have raised it: 'Connection: close' followed by 'Connection: foo' keeps the connection alive")
			}
		}
	}
	r.Floor("R4", "stores to the close flag in the head parsers", np, 8)
}

// C15.R6: the Done channel and its 'closed' flag move together.
func doneChannelRule(p *Prog, r *Report) {
	isFlagStore := func(i ssa.Instruction, val string) bool {
		st, ok := i.(*ssa.Store)
		if !ok {
			return false
		}
		base, fv := fieldOfAddr(st.Addr)
		if fv == nil || fv.Name() != "doneClosed" || typeNameOf(base) != "Server" {
			return false
		}
		c, isC := st.Val.(*ssa.Const)
		return isC && c.Value != nil && c.Value.ExactString() == val
	}
	dropRule := func(fn *ssa.Function, in ssa.Instruction, pos token.Pos) {
		hit, path := reachAvoiding(fn, in, isReturn, func(i ssa.Instruction) bool { return isFlagStore(i, "false") }, nil)
		if hit != nil {
			// the two stores may come in either order: a lowering of the flag that dominates the drop,
			// with no raising of it in between, is as good
			for _, bb := range fn.Blocks {
				for _, i0 := range bb.Instrs {
					if isFlagStore(i0, "false") && dominatesInstr(i0, in) {
						if h2, _ := reachAvoiding(fn, i0, func(i ssa.Instruction) bool { return i == in }, func(i ssa.Instruction) bool { return isFlagStore(i, "true") }, nil); h2 != nil {
							if h3, _ := reachAvoiding(fn, i0, func(i ssa.Instruction) bool { return isFlagStore(i, "true") }, func(i ssa.Instruction) bool { return i == in }, nil); h3 == nil {
								hit, path = nil, nil
							}
						}
					}
				}
			}
		}
		r.Check("R6", funcName(fn)+": dropping the Done channel lowers the 'already closed' flag on every path", hit == nil, p.Pos(pos),
			"s.done is set to nil and a return is reachable without s.doneClosed = false: after the next Serve the flag still says 'closed', so the next Shutdown never closes the new channel and RequestCtx.Done() of in-flight requests stays open", blocksString(p, path)...)
	}
	nclose, ndrop := 0, 0
	for _, fn := range p.funcsIn("") {
		for _, b := range fn.Blocks {
			for _, in := range b.Instrs {
				switch w := in.(type) {
				case *ssa.Call:
					// the atomic form of the drop: s.done.Store(nil)
					if f := w.Call.StaticCallee(); f != nil && f.Name() == "Store" && len(w.Call.Args) == 2 && isNilConst(w.Call.Args[1]) {
						if fa, ok := w.Call.Args[0].(*ssa.FieldAddr); ok && typeNameOf(fa.X) == "Server" && fieldName(fa.X.Type(), fa.Field) == "done" {
							ndrop++
							dropRule(fn, in, w.Pos())
							continue
						}
					}
					bi, ok := w.Call.Value.(*ssa.Builtin)
					if !ok || bi.Name() != "close" || len(w.Call.Args) != 1 {
						continue
					}
					if !isServerDoneValue(w.Call.Args[0]) {
						continue
					}
					nclose++
					guarded := false
					for _, g := range guardsOf(b) {
						if strings.Contains(g.Atom, "Server.doneClosed") && !g.Pol {
							guarded = true
						}
					}
					r.Check("R6", funcName(fn)+": the Done channel is closed only when the 'already closed' flag is false", guarded, p.Pos(w.Pos()),
						"close(s.done) is not control-dependent on !s.doneClosed: a second Shutdown would close a closed channel and panic")
					hit, path := reachAvoiding(fn, in, isReturn, func(i ssa.Instruction) bool { return isFlagStore(i, "true") }, nil)
					r.Check("R6", funcName(fn)+": the flag is raised after the Done channel was closed", hit == nil, p.Pos(w.Pos()),
						"a return is reachable after close(s.done) without s.doneClosed = true", blocksString(p, path)...)
				case *ssa.Store:
					base, fv := fieldOfAddr(w.Addr)
					if fv == nil || fv.Name() != "done" || typeNameOf(base) != "Server" || !isNilConst(w.Val) {
						continue
					}
					if _, fresh := base.(*ssa.Alloc); fresh {
						continue
					}
					ndrop++
					dropRule(fn, in, w.Pos())
				}
			}
		}
	}
	r.Floor("R6", "close(Server.done) sites", nclose, 1)
	r.Floor("R6", "sites that drop Server.done", ndrop, 1)
}

// loopOwnedFieldsRule (C11.R-loop-owned): a per-request field that is exempt from the reset coverage because the
// serve loop owns it is assigned by the loop on every path from the start of an iteration to the handler dispatch.
func loopOwnedFieldsRule(p *Prog, r *Report) {
	fn, hcall, header, why := findServeLoop(p)
	if fn == nil {
		r.Undecided("R-loop-owned", "serve loop", why)
		return
	}
	n := 0
	for _, name := range []string{"bodyStreamUnread"} {
		stores := func(i ssa.Instruction) bool {
			st, ok := i.(*ssa.Store)
			if !ok {
				return false
			}
			_, fv := fieldOfAddr(st.Addr)
			return fv != nil && fv.Name() == name
		}
		var first ssa.Instruction
		for _, in := range header.Instrs {
			if _, isPhi := in.(*ssa.Phi); !isPhi {
				first = in
				break
			}
		}
		if first == nil {
			r.Undecided("R-loop-owned", name, "loop header has no instruction")
			continue
		}
		n++
		hit, path := reachAvoiding(fn, first, func(i ssa.Instruction) bool { return i == ssa.Instruction(hcall) }, stores, nil)
		r.Check("R-loop-owned", "the serve loop assigns Request."+name+" on every path of an iteration before the handler is dispatched", hit == nil, p.Pos(hcall.Pos()),
			"the field is exempt from Reset because the loop owns it, but a path reaches the handler without the loop having assigned it: a value left by an earlier request decides how this one is treated", blocksString(p, path)...)
	}
	r.Floor("R-loop-owned", "loop-owned request fields", n, 1)
}

// pooledHelperRule (C11.R-pool): small per-request helper objects (body streams, client connections, pipeline
// work items, hijack wrappers ...) are recycled through acquireX / releaseX pairs. Every field of such an object
// is assigned on every path of its release function or on every path of its acquire function - otherwise the
// next request that is handed the object starts with what the previous one left in it (a half-read chunk
// counter, a deadline, a connection). Fields whose type carries no request data (locks, reusable channels and
// timers) are exempt by type; anything else needs a reason in the table below.
func pooledHelperRule(p *Prog, r *Report, only string) {
	exempt := map[string]string{
		"pipelineWork.respCopy": "embedded Response: covered by Response.Reset (E7), which release calls",
		"pipelineWork.reqCopy":  "embedded Request: covered by Request.Reset (E7), which release calls",
		"pipelineWork.done":     "reusable signalling channel; drained by its single receiver before the item is released",
		"pipelineWork.t":        "reusable timer: stopped on release, re-armed on acquire when a deadline is set",
		"hijackConn.s":          "the pool is a field of the Server this field points to: every object of the pool has the same value",
	}
	byType := map[string][2]*ssa.Function{} // type name -> {acquire, release}
	for _, fn := range p.funcsIn("") {
		n := fn.Name()
		isAcq, isRel := strings.HasPrefix(n, "acquire"), strings.HasPrefix(n, "release")
		if !isAcq && !isRel {
			continue
		}
		var t types.Type
		if isRel {
			for _, prm := range fn.Params {
				if pt, ok := prm.Type().Underlying().(*types.Pointer); ok {
					if _, isSt := pt.Elem().Underlying().(*types.Struct); isSt && strings.Contains(pt.Elem().String(), rootPkg) && strings.EqualFold(shortType(pt.Elem().String()), strings.TrimPrefix(n, "release")) {
						t = pt.Elem()
					}
				}
			}
		} else if res := fn.Signature.Results(); res.Len() >= 1 {
			if pt, ok := res.At(0).Type().Underlying().(*types.Pointer); ok {
				if _, isSt := pt.Elem().Underlying().(*types.Struct); isSt && strings.Contains(pt.Elem().String(), rootPkg) && strings.EqualFold(shortType(pt.Elem().String()), strings.TrimPrefix(n, "acquire")) {
					t = pt.Elem()
				}
			}
		}
		if t == nil {
			continue
		}
		k := shortType(t.String())
		e := byType[k]
		if isAcq {
			e[0] = fn
		} else {
			e[1] = fn
		}
		byType[k] = e
	}
	var names []string
	for k := range byType {
		names = append(names, k)
	}
	sort.Strings(names)
	npairs := 0
	for _, k := range names {
		acq, rel := byType[k][0], byType[k][1]
		if acq == nil || rel == nil || (only != "" && k != only) {
			continue
		}
		npairs++
		// release: must-written fields of the object parameter
		written := map[string]bool{}
		var obj types.Type
		for i, prm := range rel.Params {
			if pt, ok := prm.Type().Underlying().(*types.Pointer); ok && shortType(pt.Elem().String()) == k {
				obj = pt.Elem()
				for f := range fieldsWritten(p, rel, i, 3) {
					written[f] = true
				}
			}
		}
		// only objects that really go back to a pool are recycled (a release that merely drops a reference count is not)
		puts := false
		allCalls(rel, func(b *ssa.BasicBlock, c ssa.CallInstruction) {
			if f := c.Common().StaticCallee(); f != nil && f.Name() == "Put" && recvTypeName(f) == "Pool" {
				puts = true
			}
		})
		if !puts {
			npairs--
			continue
		}
		// acquire: fields stored (through any object of the type) on every path to a return; a freshly
		// allocated object counts as fully written on its path
		for f := range mustStoredFields(acq, k) {
			written[f] = true
		}
		if obj == nil {
			continue
		}
		st := obj.Underlying().(*types.Struct)
		for i := 0; i < st.NumFields(); i++ {
			f := st.Field(i)
			ts := f.Type().String()
			if strings.HasPrefix(ts, "sync.") || ts == "github.com/valyala/fasthttp.noCopy" {
				continue
			}
			key := k + "." + f.Name()
			if why := exempt[key]; why != "" {
				r.Note("R-pool exempt %s: %s", key, why)
				continue
			}
			r.Check("R-pool", fmt.Sprintf("%s is assigned on every path of %s or of %s", key, funcName(rel), funcName(acq)), coveredBy(written, f.Name()), p.Pos(rel.Pos()),
				"a recycled "+k+" hands this field's previous content to its next user")
		}
	}
	want := 4
	if only != "" {
		want = 1
	}
	r.Floor("R-pool", "acquire/release pairs of pooled helper objects", npairs, want)
}

// mustStoredFields: names of the fields of struct type typ (by short name) that fn assigns on every path from
// its entry to a return; allocating a fresh object of the type counts as assigning all of its fields ("*").
func mustStoredFields(fn *ssa.Function, typ string) map[string]bool {
	return mustStoredFieldsAt(fn, typ, nil)
}

// mustStoredFieldsAt: as mustStoredFields, but only the returns accepted by keep count (nil: all).
func mustStoredFieldsAt(fn *ssa.Function, typ string, keep func(*ssa.Return) bool) map[string]bool {
	n := len(fn.Blocks)
	out := make([]map[string]bool, n)
	gen := func(b *ssa.BasicBlock, in map[string]bool) map[string]bool {
		res := map[string]bool{}
		for k := range in {
			res[k] = true
		}
		for _, i := range b.Instrs {
			switch w := i.(type) {
			case *ssa.Alloc:
				if shortType(strings.TrimPrefix(w.Type().String(), "*")) == typ {
					res["*"] = true
				}
			case *ssa.Store:
				if base, fv := fieldOfAddr(w.Addr); fv != nil && shortType(strings.TrimPrefix(base.Type().String(), "*")) == typ {
					res[fv.Name()] = true
				}
			}
		}
		return res
	}
	work := []*ssa.BasicBlock{fn.Blocks[0]}
	for len(work) > 0 {
		b := work[0]
		work = work[1:]
		var in map[string]bool
		if b.Index == 0 {
			in = map[string]bool{}
		} else {
			first := true
			for _, pr := range b.Preds {
				if out[pr.Index] == nil {
					continue
				}
				if first {
					in = map[string]bool{}
					for k := range out[pr.Index] {
						in[k] = true
					}
					first = false
				} else {
					for k := range in {
						if !out[pr.Index][k] && !out[pr.Index]["*"] {
							if !in["*"] {
								delete(in, k)
							}
						}
					}
					if in["*"] && !out[pr.Index]["*"] {
						// the fresh-object path meets a recycled-object path: keep what the recycled path stored
						nin := map[string]bool{}
						for k := range out[pr.Index] {
							nin[k] = true
						}
						in = nin
					}
				}
			}
			if first {
				continue
			}
		}
		o := gen(b, in)
		same := out[b.Index] != nil && len(out[b.Index]) == len(o)
		if same {
			for k := range o {
				if !out[b.Index][k] {
					same = false
				}
			}
		}
		if !same {
			out[b.Index] = o
			work = append(work, b.Succs...)
		}
	}
	res := map[string]bool{}
	first := true
	for _, b := range fn.Blocks {
		rt, ok := b.Instrs[len(b.Instrs)-1].(*ssa.Return)
		if !ok || out[b.Index] == nil || (keep != nil && !keep(rt)) {
			continue
		}
		if out[b.Index]["*"] {
			continue // a fresh object: nothing left over
		}
		if first {
			for k := range out[b.Index] {
				res[k] = true
			}
			first = false
		} else {
			for k := range res {
				if !out[b.Index][k] {
					delete(res, k)
				}
			}
		}
	}
	return res
}

// clientCloseCaptureRule (C10.R5): see the explanation text.
func clientCloseCaptureRule(p *Prog, r *Report) {
	rt := p.Func("(*transport).RoundTrip")
	relC := p.Func("(*HostClient).ReleaseConn")
	if rt == nil || relC == nil {
		r.Undecided("R5", "(*transport).RoundTrip / (*HostClient).ReleaseConn", "not found")
		return
	}
	n := 0
	for _, an := range rt.AnonFuncs {
		pools := false
		allCalls(an, func(b *ssa.BasicBlock, c ssa.CallInstruction) {
			if isCallTo(c, relC) {
				pools = true
			}
		})
		if !pools {
			continue
		}
		n++
		captured := false
		for _, b := range rt.Blocks {
			for _, in := range b.Instrs {
				mc, ok := in.(*ssa.MakeClosure)
				if !ok || mc.Fn != ssa.Value(an) {
					continue
				}
				for _, bind := range mc.Bindings {
					vals := []ssa.Value{bind}
					if al, ok := bind.(*ssa.Alloc); ok {
						for _, ref := range *al.Referrers() {
							if st, ok := ref.(*ssa.Store); ok && st.Addr == ssa.Value(al) {
								vals = append(vals, st.Val)
							}
						}
					}
					for _, v := range vals {
						if !isBool(v.Type()) {
							continue
						}
						for a := range condAtoms(v) {
							if strings.Contains(a, "ConnectionClose") && strings.Contains(a, "Response") {
								captured = true
							}
						}
					}
				}
			}
		}
		r.Check("R5", "transport: the close decision captured by the stream-close callback includes the response's Connection: close as received", captured, p.Pos(an.Pos()),
			"the callback decides from the response header as it looks when the stream is closed; the header belongs to the caller (a proxy strips hop-by-hop headers before it copies the body), so a connection the server announced it will close goes back to the pool")
	}
	r.Floor("R5", "stream-close callbacks that can pool the connection", n, 1)
}

// scratchPremiseRule: the reset coverage exempts scratch buffers (bufK, bufV, mulHeader, Args.buf) with the reason
// "written before it is read within every call that uses it". That reason is checked here: in every function of the
// module, a use of what such a field holds - its bytes or its length - is preceded on every path inside that
// function by an assignment to the field; the only thing a function may do with the old value is truncate it to
// zero length to reuse the capacity. A function that looks at the old content turns the buffer into state that
// outlives the call (a cache), which no Reset clears.
func scratchPremiseRule(p *Prog, r *Report, rule string) {
	isScratch := func(fv *types.Var, owner string) bool {
		switch fv.Name() {
		case "bufK", "bufV", "mulHeader":
			return true
		case "buf":
			return owner == "Args"
		}
		return false
	}
	type site struct {
		fn  *ssa.Function
		pos string
		ok  bool
	}
	byField := map[string][]site{}
	for _, fn := range p.SrcFuncs() {
		for _, b := range fn.Blocks {
			for _, in := range b.Instrs {
				ld, ok := in.(*ssa.UnOp)
				if !ok || ld.Op != token.MUL {
					continue
				}
				fa, ok := ld.X.(*ssa.FieldAddr)
				if !ok {
					continue
				}
				fv := fieldVar(fa.X.Type(), fa.Field)
				owner := typeNameOf(fa.X)
				if fv == nil || !isScratch(fv, owner) {
					continue
				}
				key := owner + "." + fv.Name()
				// (a) an assignment to the field dominates this load
				written := false
				for _, bb := range fn.Blocks {
					for _, i2 := range bb.Instrs {
						if st, ok := i2.(*ssa.Store); ok {
							if fa2, ok := st.Addr.(*ssa.FieldAddr); ok && fa2.Field == fa.Field && typeNameOf(fa2.X) == owner && dominatesInstr(i2, in) {
								written = true
							}
						}
					}
				}
				// a closure runs inside the call that made it: an assignment in the enclosing function before the closure
				// was created counts
				if !written && fn.Parent() != nil {
					par := fn.Parent()
					for _, pb := range par.Blocks {
						for _, pi := range pb.Instrs {
							mc, ok := pi.(*ssa.MakeClosure)
							if !ok || mc.Fn != ssa.Value(fn) {
								continue
							}
							for _, bb := range par.Blocks {
								for _, i2 := range bb.Instrs {
									if st, ok := i2.(*ssa.Store); ok {
										if fa2, ok := st.Addr.(*ssa.FieldAddr); ok && fa2.Field == fa.Field && typeNameOf(fa2.X) == owner && dominatesInstr(i2, pi) {
											written = true
										}
									}
								}
							}
						}
					}
				}
				// (b) or every use of the loaded value only truncates it to length zero (directly, or inside the helper it
				// is handed to as the destination buffer)
				onlyTruncated := true
				if !written {
					onlyTruncated = truncatingUses(ld, 0)
				}
				byField[key] = append(byField[key], site{fn, p.Pos(ld.Pos()), written || onlyTruncated})
			}
		}
	}
	var keys []string
	for k := range byField {
		keys = append(keys, k)
	}
	sort.Strings(keys)
	n := 0
	for _, k := range keys {
		bad := map[string]bool{}
		pos := "-"
		for _, s := range byField[k] {
			n++
			if !s.ok {
				bad[funcName(s.fn)] = true
				if pos == "-" {
					pos = s.pos
				}
			}
		}
		r.Check(rule, k+" is a scratch buffer: no function looks at what an earlier call left in it", len(bad) == 0, pos,
			"the field is exempt from Reset as 'written before it is read within every call', but these functions use its old content or length: "+joinSorted(bad)+" - the buffer has become a cache that survives Reset, CopyTo and pooling")
	}
	r.Floor(rule, "reads of scratch buffer fields", n, 20)
}

// truncatingUses: every use of v cuts it to length zero before anything else is done with it - a Slice v[:0], or
// passing v to a module function whose corresponding parameter is itself only used that way (the "dst" of an
// init/append helper). Such a use reuses the capacity and never looks at the old bytes or the old length.
func truncatingUses(v ssa.Value, depth int) bool {
	if depth > 3 || v.Referrers() == nil {
		return false
	}
	for _, ref := range *v.Referrers() {
		switch u := ref.(type) {
		case *ssa.DebugRef:
		case *ssa.Slice:
			k, isK := constInt(u.High)
			if u.X != v || u.High == nil || !isK || k != 0 {
				return false
			}
		case *ssa.Call:
			if bi, ok := u.Call.Value.(*ssa.Builtin); ok && bi.Name() == "cap" {
				continue // the capacity says nothing about what an earlier call stored
			}
			g := u.Call.StaticCallee()
			if g == nil || !inModule(g) || len(g.Blocks) == 0 {
				return false
			}
			for i, a := range u.Call.Args {
				if a == v {
					if i >= len(g.Params) || !truncatingUses(g.Params[i], depth+1) {
						return false
					}
				}
			}
		default:
			return false
		}
	}
	return true
}

// hijackReadPathRule (C17.R7): see the explanation text.
func hijackReadPathRule(p *Prog, r *Report) {
	n := 0
	fromRawConn := func(v ssa.Value) bool {
		for i := 0; i < 5; i++ {
			switch w := v.(type) {
			case *ssa.Extract:
				v = w.Tuple
			case *ssa.TypeAssert:
				v = w.X
			case *ssa.MakeInterface:
				v = w.X
			case *ssa.ChangeInterface:
				v = w.X
			default:
				_, fv := loadedField(v)
				return fv != nil && fv.Name() == "Conn"
			}
		}
		return false
	}
	for _, fn := range p.funcsIn("") {
		if recvTypeName(fn) != "hijackConn" {
			continue
		}
		n++
		bad := ""
		pos := p.Pos(fn.Pos())
		allCalls(fn, func(b *ssa.BasicBlock, c ssa.CallInstruction) {
			cc := c.Common()
			if cc.IsInvoke() && (cc.Method.Name() == "Read" || cc.Method.Name() == "WriteTo") && fromRawConn(cc.Value) {
				bad = cc.Method.Name() + " on the wrapped connection"
				pos = p.Pos(c.Pos())
			}
			if f := cc.StaticCallee(); f != nil && f.Pkg != nil && f.Pkg.Pkg.Path() == "io" && strings.HasPrefix(f.Name(), "Copy") && len(cc.Args) >= 2 && fromRawConn(cc.Args[1]) {
				bad = "io." + f.Name() + " with the wrapped connection as its source"
				pos = p.Pos(c.Pos())
			}
		})
		r.Check("R7", fmt.Sprintf("%s takes data off the connection only through the buffered reader", funcName(fn)), bad == "", pos,
			bad+": the bytes the client sent together with the hijacking request sit in the buffered reader the wrapper holds; a read that goes to the raw connection skips them (they are lost, or arrive after later bytes)")
	}
	r.Floor("R7", "methods of the hijacked-connection wrapper", n, 2)
}

// isServerDoneValue: v is the channel kept in Server.done - loaded from the field directly, or through the pointer
// an atomic.Pointer field hands out (*s.done.Load()).
func isServerDoneValue(v ssa.Value) bool {
	if base, fv := loadedField(v); fv != nil && fv.Name() == "done" && typeNameOf(base) == "Server" {
		return true
	}
	u, ok := v.(*ssa.UnOp)
	if !ok || u.Op != token.MUL {
		return false
	}
	c, ok := u.X.(*ssa.Call)
	if !ok {
		return false
	}
	f := c.Call.StaticCallee()
	if f == nil || f.Name() != "Load" || len(c.Call.Args) != 1 {
		return false
	}
	fa, ok := c.Call.Args[0].(*ssa.FieldAddr)
	return ok && typeNameOf(fa.X) == "Server" && fieldName(fa.X.Type(), fa.Field) == "done"
}

// streamNotUsedAfterRelease (C02.R-uar): a requestStream given back to its
// pool has its position fields zeroed (and may already serve another body).
// Whether a body was read to its end therefore has to be asked before the
// stream is released: after a call that releases the stream held in a field -
// releaseRequestStream itself, or a routine that passes the value on to it -
// no path reaches a use (method call, field access) of a *requestStream taken
// from that same field, unless the field was assigned in between.
func streamNotUsedAfterRelease(p *Prog, r *Report) {
	rel := p.Func("releaseRequestStream")
	if rel == nil {
		r.Undecided("R-uar", "releaseRequestStream", "not found")
		return
	}
	// routines that release (a value derived from) one of their parameters
	releasers := map[*ssa.Function]int{rel: 0}
	for round := 0; round < 3; round++ {
		for _, fn := range p.funcsIn("") {
			if _, done := releasers[fn]; done || fn.Blocks == nil {
				continue
			}
			allCalls(fn, func(b *ssa.BasicBlock, c ssa.CallInstruction) {
				idx, ok := releasers[c.Common().StaticCallee()]
				if !ok || idx >= len(c.Common().Args) {
					return
				}
				for i, prm := range fn.Params {
					if derivesFromValue(c.Common().Args[idx], prm) {
						releasers[fn] = i
					}
				}
			})
		}
	}
	fieldOf := func(v ssa.Value) *types.Var {
		seen := map[ssa.Value]bool{}
		var walk func(v ssa.Value) *types.Var
		walk = func(v ssa.Value) *types.Var {
			if v == nil || seen[v] {
				return nil
			}
			seen[v] = true
			switch w := v.(type) {
			case *ssa.TypeAssert:
				return walk(w.X)
			case *ssa.Extract:
				return walk(w.Tuple)
			case *ssa.ChangeInterface:
				return walk(w.X)
			case *ssa.MakeInterface:
				return walk(w.X)
			case *ssa.Phi:
				for _, e := range w.Edges {
					if f := walk(e); f != nil {
						return f
					}
				}
			case *ssa.UnOp:
				if _, fv := loadedField(w); fv != nil {
					return fv
				}
			}
			return nil
		}
		return walk(v)
	}
	isStream := func(v ssa.Value) bool { return typeNameOf(v) == "requestStream" }
	n := 0
	for _, fn := range p.funcsIn("") {
		for _, b := range fn.Blocks {
			for _, in := range b.Instrs {
				c, ok := in.(ssa.CallInstruction)
				if !ok {
					continue
				}
				idx, ok := releasers[c.Common().StaticCallee()]
				if !ok || idx >= len(c.Common().Args) {
					continue
				}
				fv := fieldOf(c.Common().Args[idx])
				if fv == nil {
					continue // a local or a parameter: the caller that stored it in a field is judged
				}
				n++
				use := func(i ssa.Instruction) bool {
					if i == in {
						return false
					}
					var ops []ssa.Value
					switch w := i.(type) {
					case ssa.CallInstruction:
						if len(w.Common().Args) > 0 {
							ops = append(ops, w.Common().Args[0])
						}
						if w.Common().IsInvoke() {
							ops = append(ops, w.Common().Value)
						}
					case *ssa.FieldAddr:
						ops = append(ops, w.X)
					}
					for _, o := range ops {
						if isStream(o) && fieldOf(o) == fv {
							return true
						}
					}
					return false
				}
				reassigned := func(i ssa.Instruction) bool {
					st, ok := i.(*ssa.Store)
					if !ok {
						return false
					}
					_, f2 := fieldOfAddr(st.Addr)
					return f2 == fv
				}
				hit, path := reachAvoiding(fn, in, use, reassigned, nil)
				pos := in.Pos()
				detail := ""
				if hit != nil {
					detail = "after " + calleeName(c) + " gave the stream held in " + fv.Name() + " back to its pool, " + p.Pos(hit.Pos()) + " still uses it: the released stream's position is zeroed, so 'was the body read to its end' is answered yes for a body that is still on the connection, the connection is kept, and the unread body bytes are parsed as the next request"
				}
				r.Check("R-uar", fmt.Sprintf("%s: the stream in %s is not used after %s released it", funcName(fn), fv.Name(), calleeName(c)), hit == nil, p.Pos(pos), detail, blocksString(p, path)...)
			}
		}
	}
	r.Floor("R-uar", "calls that release a stream held in a field", n, 3)
}

// hijackDeadlinesCleared (C17.R9): the hijack handler must be able to read what
// the client sends later. Deadlines may have been armed on the connection from
// the server-wide timeouts or per request (HeaderReceived), so no configuration
// test can tell whether one is pending: every path to the start of the hijack
// goroutine passes an unconditional SetDeadline call on the connection after
// the last read or write deadline the serve function may have set.
func hijackDeadlinesCleared(p *Prog, r *Report) {
	fn := p.Func("(*Server).serveConnCounted")
	hj := p.Func("hijackConnHandler")
	if fn == nil || hj == nil {
		r.Undecided("R9", "serveConnCounted / hijackConnHandler", "not found")
		return
	}
	isClear := func(i ssa.Instruction) bool {
		c, ok := i.(ssa.CallInstruction)
		if !ok || !c.Common().IsInvoke() || c.Common().Method.Name() != "SetDeadline" || !typeIsNetConn(c.Common().Value.Type()) {
			return false
		}
		// the zero time: a load of the package-level zero value, or a zero composite
		a := c.Common().Args[0]
		return globalOf(a) != "" || isZeroTimeValue(a)
	}
	isArm := func(i ssa.Instruction) bool {
		c, ok := i.(ssa.CallInstruction)
		if !ok || !c.Common().IsInvoke() || !typeIsNetConn(c.Common().Value.Type()) {
			return false
		}
		nm := c.Common().Method.Name()
		return (nm == "SetReadDeadline" || nm == "SetWriteDeadline" || nm == "SetDeadline") && !isClear(i)
	}
	n := 0
	for _, b := range fn.Blocks {
		for _, in := range b.Instrs {
			g, ok := in.(*ssa.Go)
			if !ok || g.Common().StaticCallee() != hj {
				continue
			}
			n++
			// from every arming call (and from the function entry) the go statement is not reachable without a clear
			var bad []string
			starts := []ssa.Instruction{nil}
			for _, b2 := range fn.Blocks {
				for _, i2 := range b2.Instrs {
					if isArm(i2) {
						starts = append(starts, i2)
					}
				}
			}
			var witness []*ssa.BasicBlock
			for _, s := range starts {
				if hit, path := reachAvoiding(fn, s, func(i ssa.Instruction) bool { return i == in }, isClear, nil); hit != nil {
					where := "the function entry"
					if s != nil {
						where = "the deadline armed at " + p.Pos(s.Pos())
					}
					bad = append(bad, where)
					if witness == nil {
						witness = path
					}
				}
			}
			sort.Strings(bad)
			r.Check("R9", "serve loop: the connection's deadlines are cleared unconditionally on every path into the hijack hand-off", len(bad) == 0, p.Pos(in.Pos()),
				"'go hijackConnHandler' is reachable without SetDeadline(zero) from "+strings.Join(bad, ", ")+": a deadline armed for the request (server timeouts, or HeaderReceived's per-request ones) stays on the hijacked connection, the hijack handler's reads fail with a timeout instead of delivering what the client sends later", blocksString(p, witness)...)
		}
	}
	r.Floor("R9", "hijack hand-offs", n, 1)
}

func isZeroTimeValue(v ssa.Value) bool {
	if c, ok := v.(*ssa.Const); ok && c.Value == nil {
		return true // the zero value of an aggregate
	}
	if u, ok := v.(*ssa.UnOp); ok && u.Op == token.MUL {
		if a, ok := u.X.(*ssa.Alloc); ok {
			// a local time.Time that is never written is the zero time
			for _, ref := range *a.Referrers() {
				if _, isStore := ref.(*ssa.Store); isStore {
					return false
				}
			}
			return true
		}
	}
	return false
}

// perIPWrapperRule (C12.R-wrap): the per-IP accounting wrappers (struct types that carry a *perIPConnCounter) are
// recycled through the counter's pools. Close gives the count back for the address stored in the wrapper, so a
// recycled wrapper must be told the address of the connection it now wraps: every field of such a type is assigned
// on every path of the acquiring function that returns an object of the type (a fresh object counts as assigned),
// unless a reason says the field cannot differ between the objects of one pool.
func perIPWrapperRule(p *Prog, r *Report) {
	exempt := map[string]string{
		"perIPConnCounter": "the pool is a field of the counter this field points to: all objects of one pool share the value",
	}
	var typs []*types.Named
	root := p.byPath[rootPkg].Types
	for _, nm := range root.Scope().Names() {
		tn, ok := root.Scope().Lookup(nm).(*types.TypeName)
		if !ok {
			continue
		}
		named, ok := tn.Type().(*types.Named)
		if !ok {
			continue
		}
		st, ok := named.Underlying().(*types.Struct)
		if !ok {
			continue
		}
		for i := 0; i < st.NumFields(); i++ {
			if strings.HasSuffix(st.Field(i).Type().String(), "*"+rootPkg+".perIPConnCounter") {
				typs = append(typs, named)
			}
		}
	}
	n := 0
	for _, named := range typs {
		k := named.Obj().Name()
		// acquirers: functions that assert a pool's Get result to *T
		for _, fn := range p.funcsIn("") {
			asserts := false
			for _, b := range fn.Blocks {
				for _, in := range b.Instrs {
					if ta, ok := in.(*ssa.TypeAssert); ok && shortType(strings.TrimPrefix(ta.AssertedType.String(), "*")) == k {
						var fromGet func(v ssa.Value, d int) bool
						fromGet = func(v ssa.Value, d int) bool {
							if d > 4 {
								return false
							}
							switch w := v.(type) {
							case *ssa.Call:
								return w.Call.StaticCallee() != nil && w.Call.StaticCallee().Name() == "Get"
							case *ssa.Phi:
								for _, e := range w.Edges {
									if fromGet(e, d+1) {
										return true
									}
								}
							}
							return false
						}
						if fromGet(ta.X, 0) {
							asserts = true
						}
					}
				}
			}
			if !asserts {
				continue
			}
			written := mustStoredFieldsAt(fn, k, func(rt *ssa.Return) bool {
				for _, rv := range rt.Results {
					v := rv
					if mi, ok := v.(*ssa.MakeInterface); ok {
						v = mi.X
					}
					if shortType(strings.TrimPrefix(v.Type().String(), "*")) == k {
						return true
					}
				}
				return false
			})
			st := named.Underlying().(*types.Struct)
			for i := 0; i < st.NumFields(); i++ {
				f := st.Field(i)
				if strings.HasPrefix(f.Type().String(), "sync.") {
					continue
				}
				if why := exempt[f.Name()]; why != "" {
					r.Note("R-wrap exempt %s.%s: %s", k, f.Name(), why)
					continue
				}
				n++
				r.Check("R-wrap", fmt.Sprintf("%s: a recycled %s has its field %s assigned before it is handed out", funcName(fn), k, f.Name()), written[f.Name()] || written["*"], p.Pos(fn.Pos()),
					"the wrapper taken from the pool keeps this field from the connection it wrapped before: Close then gives the count back for the wrong address - the real client's count never returns to zero (it is refused from then on) and the stale address is under-counted")
			}
		}
	}
	r.Floor("R-wrap", "fields of pooled per-IP wrappers", n, 4)
}

// shutdownSerialised (C15.R7): Shutdown answers "nothing to shut down" (nil at once) when the listener list is
// empty. While one Shutdown drains, the list is already empty; a second, overlapping Shutdown must therefore wait
// for the first - which it does because the first keeps Server.mu from its entry to its return. In
// ShutdownWithContext the mutex is taken once and given back only by a deferred Unlock: no explicit Unlock of
// Server.mu is reachable before a return, so no other Shutdown can look at the listener list during the drain.
func shutdownSerialised(p *Prog, r *Report) {
	fn := p.Func("(*Server).ShutdownWithContext")
	if fn == nil {
		r.Undecided("R7", "(*Server).ShutdownWithContext", "not found")
		return
	}
	isMu := func(c ssa.CallInstruction, name string) bool {
		f := c.Common().StaticCallee()
		if f == nil || f.Name() != name || recvTypeName(f) != "Mutex" || len(c.Common().Args) == 0 {
			return false
		}
		fa, ok := c.Common().Args[0].(*ssa.FieldAddr)
		return ok && typeNameOf(fa.X) == "Server" && fieldName(fa.X.Type(), fa.Field) == "mu"
	}
	locks, deferred, tail := 0, 0, 0
	var explicit []string
	for _, b := range fn.Blocks {
		for _, in := range b.Instrs {
			c, ok := in.(ssa.CallInstruction)
			if !ok {
				continue
			}
			switch {
			case isMu(c, "Lock"):
				locks++
			case isMu(c, "Unlock"):
				if _, isDefer := in.(*ssa.Defer); isDefer {
					deferred++
				} else if unlockThenReturn(in) {
					tail++
				} else {
					explicit = append(explicit, p.Pos(in.Pos()))
				}
			}
		}
	}
	sort.Strings(explicit)
	// Until fix 5ec4338 an overlapping second Shutdown that found the listener list emptied returned nil at once, so
	// the mutex had to be kept across the whole drain. That early return is gone (R9 rejects it): a second call now
	// drains like the first, and the span of the lock no longer matters for the property. What is still required:
	// the listener list and the Done bookkeeping are only touched with the mutex held, i.e. it is taken before
	// anything else happens.
	r.Counts["R7 Lock / deferred Unlock / tail Unlock / other Unlock calls of Server.mu in ShutdownWithContext"] = locks*1000 + deferred*100 + tail*10 + len(explicit)
	// the early "nothing to do" return is decided under the lock
	first := true
	hit, path := reachAvoiding(fn, nil, isReturn, func(i ssa.Instruction) bool {
		c, ok := i.(ssa.CallInstruction)
		return ok && isMu(c, "Lock")
	}, nil)
	_ = first
	r.Check("R7", "ShutdownWithContext takes Server.mu before any of its returns", hit == nil, p.Pos(fn.Pos()), "a return is reachable without the lock", blocksString(p, path)...)
}

// hookSeesTrackedConn (C14.R4): the state sequence is kept per connection value. Whatever the server reports to the
// ConnState hook must be the very value it was given to serve - the one the other reports for the same connection
// carry. At every call of the hook (a call through the Server.ConnState field) the connection argument is the
// enclosing function's own parameter, not something taken out of it (an embedded connection, a type-asserted
// inner value): an accounting wrapper's inner connection is nil once the wrapper was closed, so the terminal state
// would be reported for nil and never for the connection that got StateNew.
func hookSeesTrackedConn(p *Prog, r *Report) {
	n := 0
	for _, fn := range p.funcsIn("") {
		for _, b := range fn.Blocks {
			for _, in := range b.Instrs {
				c, ok := in.(ssa.CallInstruction)
				if !ok || c.Common().StaticCallee() != nil || c.Common().IsInvoke() {
					continue
				}
				// callee value: a load of Server.ConnState (possibly through a phi / local copy)
				isHook := false
				var chk func(v ssa.Value, d int)
				chk = func(v ssa.Value, d int) {
					if d > 4 || v == nil {
						return
					}
					if _, fv := loadedField(v); fv != nil && fv.Name() == "ConnState" {
						isHook = true
					}
					if ph, ok := v.(*ssa.Phi); ok {
						for _, e := range ph.Edges {
							chk(e, d+1)
						}
					}
				}
				chk(c.Common().Value, 0)
				if !isHook || len(c.Common().Args) < 1 {
					continue
				}
				n++
				arg := c.Common().Args[0]
				pure := true
				var why string
				var walk func(v ssa.Value, d int)
				seen := map[ssa.Value]bool{}
				walk = func(v ssa.Value, d int) {
					if seen[v] || d > 6 {
						return
					}
					seen[v] = true
					switch w := v.(type) {
					case *ssa.Parameter, *ssa.FreeVar:
					case *ssa.Phi:
						for _, e := range w.Edges {
							walk(e, d+1)
						}
					case *ssa.MakeInterface:
						walk(w.X, d+1)
					case *ssa.ChangeInterface:
						walk(w.X, d+1)
					case *ssa.TypeAssert:
						walk(w.X, d+1)
					case *ssa.Extract:
						walk(w.Tuple, d+1)
					case *ssa.UnOp:
						// the embedded connection of a wrapper, provided that field is only assigned while the
						// wrapper is private (then it is one stable value for the connection's whole life)
						if fa, ok := w.X.(*ssa.FieldAddr); ok && w.Op == token.MUL {
							if fv := fieldVar(fa.X.Type(), fa.Field); fv != nil && fv.Embedded() && embeddedConnStable(p, fv) {
								walk(fa.X, d+1)
								return
							}
						}
						pure = false
						why = fmt.Sprintf("a load at %s of a field that is also assigned while its owner is shared", p.Pos(firstPos(fn, v.Pos())))
					default:
						pure = false
						why = fmt.Sprintf("%s at %s", strings.TrimPrefix(fmt.Sprintf("%T", v), "*ssa."), p.Pos(firstPos(fn, v.Pos())))
					}
				}
				walk(arg, 0)
				r.Check("R4", fmt.Sprintf("%s: the ConnState hook is called with the connection value the function was given", funcName(fn)), pure, p.Pos(in.Pos()),
					"the connection passed to the hook is computed from the parameter ("+why+") instead of being the parameter: reports for one connection no longer carry one value - after Close an accounting wrapper's inner connection is nil, so StateClosed is reported for nil and the connection that got StateNew never gets a terminal state")
			}
		}
	}
	r.Floor("R4", "calls of the ConnState hook", n, 1)
}

// listMemberTrimRule (C10.R6): the 'close' member of a Connection list is found by trimming optional whitespace
// from each member and comparing what is left. Optional whitespace is SP or HTAB: every trimming routine the list
// scanner applies to a member (a []byte -> []byte helper called from headerValueScanner.next) compares bytes with
// both characters, so "foo,\tclose" asks for close like "foo, close" does.
func listMemberTrimRule(p *Prog, r *Report) {
	next := p.Func("(*headerValueScanner).next")
	if next == nil {
		r.Undecided("R6", "(*headerValueScanner).next", "not found")
		return
	}
	n := 0
	seen := map[*ssa.Function]bool{}
	allCalls(next, func(b *ssa.BasicBlock, c ssa.CallInstruction) {
		f := c.Common().StaticCallee()
		if f == nil || !inModule(f) || f.Blocks == nil || seen[f] {
			return
		}
		sig := f.Signature
		if sig.Params().Len() != 1 || sig.Results().Len() != 1 || sig.Params().At(0).Type().String() != "[]byte" || sig.Results().At(0).Type().String() != "[]byte" {
			return
		}
		seen[f] = true
		n++
		consts := map[int64]bool{}
		for _, fb := range f.Blocks {
			for _, in := range fb.Instrs {
				bo, ok := in.(*ssa.BinOp)
				if !ok || (bo.Op != token.EQL && bo.Op != token.NEQ) {
					continue
				}
				if bt, isB := bo.X.Type().Underlying().(*types.Basic); !isB || bt.Kind() != types.Uint8 {
					continue
				}
				if k, isK := constInt(bo.Y); isK {
					consts[k] = true
				}
			}
		}
		// trimming through bytes.Trim / TrimLeft / TrimRight / TrimSpace with a constant cut set
		for _, fb := range f.Blocks {
			for _, in := range fb.Instrs {
				cv, ok := in.(*ssa.Call)
				if !ok || cv.Call.StaticCallee() == nil || cv.Call.StaticCallee().Pkg == nil || cv.Call.StaticCallee().Pkg.Pkg.Path() != "bytes" {
					continue
				}
				switch cv.Call.StaticCallee().Name() {
				case "TrimSpace":
					consts[' '], consts['\t'] = true, true
				case "Trim", "TrimLeft", "TrimRight":
					if cut, ok := stringConst(cv.Call.Args[1]); ok {
						for _, ch := range []byte(cut) {
							consts[int64(ch)] = true
						}
					}
				}
			}
		}
		// a table lookup counts when the routine has no byte constants at all (not decidable here)
		if len(consts) == 0 {
			r.Undecided("R6", funcName(f)+": trims list members", "the routine compares no byte with a constant: its whitespace class cannot be read off")
			return
		}
		var have []string
		for k := range consts {
			have = append(have, fmt.Sprintf("0x%02x", k))
		}
		sort.Strings(have)
		r.Check("R6", funcName(f)+": the whitespace trimmed around a list member is SP and HTAB", consts[' '] && consts['\t'], p.Pos(f.Pos()),
			"bytes compared: "+strings.Join(have, ", ")+" - a member preceded or followed by the other optional-whitespace character keeps it and no longer equals 'close': the request asked for close and the connection stays open (and a client reuses a connection whose response said close)")
	})
	r.Floor("R6", "member-trimming routines of the list scanner", n, 1)
}

// timeoutFenced: the instruction is only reached with the ctx's timeout lock held (a Lock call on a mutex field of
// the RequestCtx dominates it and no explicit Unlock lies between) and after ctx.timeoutResponse was found nil
// under that lock; the installation of the timeout response takes the same lock (checked by the caller).
func timeoutFenced(f *ssa.Function, at ssa.Instruction) bool {
	var lock ssa.Instruction
	for _, b := range f.Blocks {
		for _, in := range b.Instrs {
			c, ok := in.(*ssa.Call)
			if !ok || c.Call.StaticCallee() == nil || c.Call.StaticCallee().Name() != "Lock" || recvTypeName(c.Call.StaticCallee()) != "Mutex" || len(c.Call.Args) == 0 {
				continue
			}
			if fa, ok := c.Call.Args[0].(*ssa.FieldAddr); ok && typeNameOf(fa.X) == "RequestCtx" && dominatesInstr(in, at) {
				lock = in
			}
		}
	}
	if lock == nil {
		return false
	}
	// no explicit Unlock between the Lock and the write
	unl := func(i ssa.Instruction) bool {
		c, ok := i.(*ssa.Call)
		return ok && c.Call.StaticCallee() != nil && c.Call.StaticCallee().Name() == "Unlock" && recvTypeName(c.Call.StaticCallee()) == "Mutex"
	}
	if hit, _ := reachAvoiding(f, lock, unl, func(i ssa.Instruction) bool { return i == at }, nil); hit != nil {
		// an Unlock is reachable before the write on some path: require that it cannot precede the write
		if h2, _ := reachAvoiding(f, hit, func(i ssa.Instruction) bool { return i == at }, nil, nil); h2 != nil {
			return false
		}
	}
	// the write is control-dependent on timeoutResponse == nil, tested after the Lock
	for _, g := range guardsOfDepth(at.Block(), 0) {
		if !strings.Contains(g.Atom, "timeoutResponse") {
			continue
		}
		if bo, ok := g.Cond.(*ssa.BinOp); ok && (bo.Op == token.NEQ && !g.Pol || bo.Op == token.EQL && g.Pol) {
			if ci, ok := g.Cond.(ssa.Instruction); ok && dominatesInstr(lock, ci) {
				return true
			}
		}
	}
	return false
}

// handlerCannotWriteConn (C16.R8): after a timeout the handler goroutine keeps its RequestCtx and goes on using it;
// that is harmless only because nothing it can do through the ctx reaches the connection - the response it builds
// is dropped with the ctx. Every exported RequestCtx method is therefore checked: none may (through module callees)
// write to the connection - take a connection writer with acquireWriter, or call Write on the ctx's net.Conn. One
// that does puts bytes on the wire after, or in the middle of, the timeout response.
func handlerCannotWriteConn(p *Prog, r *Report) {
	acqW := p.Func("acquireWriter")
	if acqW == nil {
		r.Undecided("R8", "acquireWriter", "not found")
		return
	}
	writes := map[*ssa.Function]string{}
	var reach func(f *ssa.Function, depth int, seen map[*ssa.Function]bool) string
	reach = func(f *ssa.Function, depth int, seen map[*ssa.Function]bool) string {
		if f == nil || f.Blocks == nil || seen[f] || depth < 0 {
			return ""
		}
		seen[f] = true
		if w, ok := writes[f]; ok {
			return w
		}
		res := ""
		allCalls(f, func(b *ssa.BasicBlock, c ssa.CallInstruction) {
			if res != "" {
				return
			}
			if _, isGo := c.(*ssa.Go); isGo {
				return
			}
			callee := c.Common().StaticCallee()
			switch {
			case callee == acqW && timeoutFenced(f, c):
				// taken under the timeout fence: allowed
			case callee == acqW:
				res = "acquireWriter at " + p.Pos(c.Pos())
			case c.Common().IsInvoke() && c.Common().Method.Name() == "Write" && typeIsNetConn(c.Common().Value.Type()):
				if _, fv := loadedField(c.Common().Value); fv != nil && fv.Name() == "c" {
					res = "conn.Write at " + p.Pos(c.Pos())
				}
			case callee != nil && inModule(callee) && recvTypeName(callee) == "RequestCtx":
				if w := reach(callee, depth-1, seen); w != "" {
					res = "through " + callee.Name() + ": " + w
				}
			}
		})
		writes[f] = res
		return res
	}
	n := 0
	for _, fn := range p.funcsIn("") {
		if recvTypeName(fn) != "RequestCtx" || fn.Object() == nil || !fn.Object().Exported() {
			continue
		}
		n++
		w := reach(fn, 3, map[*ssa.Function]bool{})
		if w == "" {
			continue // counted, nothing to report
		}
		r.Check("R8", "RequestCtx."+fn.Name()+" does not write to the connection", false, p.Pos(fn.Pos()),
			"the method, which a handler goroutine can still call after its request timed out, writes to the connection ("+w+"): the bytes arrive after (or inside) the timeout response and are taken for the next response")
	}
	r.Check("R8", "exported RequestCtx methods were examined for writes to the connection", n >= 50, "server.go", fmt.Sprintf("%d methods examined", n))
	// the other side of the fence: a timeout response is installed with the same lock held
	ninst := 0
	for _, fn := range p.funcsIn("") {
		if recvTypeName(fn) != "RequestCtx" {
			continue
		}
		for _, b := range fn.Blocks {
			for _, in := range b.Instrs {
				st, ok := in.(*ssa.Store)
				if !ok || isNilConst(st.Val) {
					continue
				}
				if _, fv := fieldOfAddr(st.Addr); fv == nil || fv.Name() != "timeoutResponse" {
					continue
				}
				ninst++
				held := false
				for _, b2 := range fn.Blocks {
					for _, i2 := range b2.Instrs {
						c, ok := i2.(*ssa.Call)
						if !ok || c.Call.StaticCallee() == nil || c.Call.StaticCallee().Name() != "Lock" || len(c.Call.Args) == 0 {
							continue
						}
						if fa, ok := c.Call.Args[0].(*ssa.FieldAddr); ok && typeNameOf(fa.X) == "RequestCtx" && dominatesInstr(i2, in) {
							if hit, _ := reachAvoiding(fn, i2, func(i ssa.Instruction) bool { return i == in }, func(i ssa.Instruction) bool {
								cc, ok := i.(*ssa.Call)
								return ok && cc.Call.StaticCallee() != nil && cc.Call.StaticCallee().Name() == "Unlock"
							}, nil); hit != nil {
								held = true
							}
						}
					}
				}
				r.Check("R8", funcName(fn)+": the timeout response is installed under the ctx's timeout lock", held, p.Pos(st.Pos()),
					"ctx.timeoutResponse is assigned without the lock the handler-side connection writes take: a write that has already passed its 'not timed out' test can run concurrently with the serve loop writing the timeout response")
			}
		}
	}
	r.Floor("R8", "places that install a timeout response", ninst, 1)
}

// fieldTypeByPath resolves "a.b.c" through nested struct fields of a named type.
func fieldTypeByPath(t types.Type, path string) types.Type {
	cur := t
	for _, name := range strings.Split(path, ".") {
		st, ok := cur.Underlying().(*types.Struct)
		if !ok {
			return nil
		}
		found := false
		for i := 0; i < st.NumFields(); i++ {
			if st.Field(i).Name() == name {
				cur = st.Field(i).Type()
				found = true
				break
			}
		}
		if !found {
			return nil
		}
	}
	return cur
}

// wrapperRecycledAfterReport (C14.R5): the per-IP accounting wrappers are pooled, and the ConnState hook knows a
// connection by its value. A wrapper that goes back to its pool before the terminal state of its connection was
// reported can be handed to the next connection - StateNew is then reported for a value that has not been reported
// closed yet, and the late StateClosed lands on the new connection. Every Put of such a wrapper happens in a
// routine that is not one of the wrapper's own methods (Close runs before the report), and every call of that
// routine is dominated by a report of StateClosed for the same connection value.
func wrapperRecycledAfterReport(p *Prog, r *Report) {
	isWrapper := func(t types.Type) bool {
		if pt, ok := t.Underlying().(*types.Pointer); ok {
			t = pt.Elem()
		}
		st, ok := t.Underlying().(*types.Struct)
		if !ok {
			return false
		}
		for i := 0; i < st.NumFields(); i++ {
			if strings.HasSuffix(st.Field(i).Type().String(), "*"+rootPkg+".perIPConnCounter") {
				return true
			}
		}
		return false
	}
	closedConst := int64(-1)
	if c, ok := constOfObj(p.byPath[rootPkg].Types, "StateClosed"); ok {
		if v, err := strconv.ParseInt(c.ExactString(), 10, 64); err == nil {
			closedConst = v
		}
	}
	nput := 0
	for _, fn := range p.funcsIn("") {
		for _, b := range fn.Blocks {
			for _, in := range b.Instrs {
				c, ok := in.(ssa.CallInstruction)
				if !ok || c.Common().StaticCallee() == nil || c.Common().StaticCallee().Name() != "Put" || recvTypeName(c.Common().StaticCallee()) != "Pool" || len(c.Common().Args) < 2 {
					continue
				}
				v := c.Common().Args[1]
				if mi, ok := v.(*ssa.MakeInterface); ok {
					v = mi.X
				}
				if !isWrapper(v.Type()) {
					continue
				}
				nput++
				own := fn.Signature.Recv() != nil && isWrapper(fn.Signature.Recv().Type())
				r.Check("R5", funcName(fn)+": a connection wrapper is not returned to its pool by one of its own methods", !own, p.Pos(in.Pos()),
					"the wrapper is pooled inside its own method (Close), which the server calls before it reports StateClosed: the value can be reused for the next connection before its previous life was reported closed")
				if own {
					continue
				}
				// every call of fn follows the terminal report for the same value
				ncall := 0
				for _, caller := range p.funcsIn("") {
					for _, cb := range caller.Blocks {
						for _, ci := range cb.Instrs {
							cc, ok := ci.(ssa.CallInstruction)
							if !ok || cc.Common().StaticCallee() != fn || len(cc.Common().Args) == 0 {
								continue
							}
							ncall++
							arg := cc.Common().Args[0]
							reported := false
							for _, rb := range caller.Blocks {
								for _, ri := range rb.Instrs {
									rc, ok := ri.(ssa.CallInstruction)
									if !ok || !dominatesInstr(ri, ci) {
										continue
									}
									args := rc.Common().Args
									// (*Server).setState(c, state) or a call through a ConnState-typed function value
									var connArg, stateArg ssa.Value
									switch {
									case rc.Common().StaticCallee() != nil && rc.Common().StaticCallee().Name() == "setState" && len(args) == 3:
										connArg, stateArg = args[1], args[2]
									case rc.Common().StaticCallee() == nil && !rc.Common().IsInvoke() && len(args) == 2:
										connArg, stateArg = args[0], args[1]
									default:
										continue
									}
									if k, isK := constInt(stateArg); isK && k == closedConst && connArg == arg {
										reported = true
									}
								}
							}
							r.Check("R5", fmt.Sprintf("%s: %s is called only after StateClosed was reported for the same connection", funcName(caller), fn.Name()), reported, p.Pos(ci.Pos()),
								"the wrapper goes back to its pool before this connection's terminal state was reported for it")
						}
					}
				}
				r.Floor("R5", "calls of "+fn.Name(), ncall, 1)
			}
		}
	}
	r.Floor("R5", "places that return a connection wrapper to its pool", nput, 2)
}

// unlockThenReturn: the Unlock is followed, in its block, only by non-call instructions and a return.
func unlockThenReturn(in ssa.Instruction) bool {
	b := in.Block()
	after := false
	for _, i := range b.Instrs {
		if i == in {
			after = true
			continue
		}
		if !after {
			continue
		}
		switch i.(type) {
		case *ssa.Return:
			return true
		case ssa.CallInstruction:
			if _, isRD := i.(*ssa.RunDefers); !isRD {
				return false
			}
		}
	}
	return false
}

// embeddedConnStable: every store into the field happens in a function that has just taken the owner from a pool
// or allocated it (the premise C37.R-embed checks for the per-IP wrappers).
func embeddedConnStable(p *Prog, fv *types.Var) bool {
	for _, fn := range p.funcsIn("") {
		takes := false
		allCalls(fn, func(b *ssa.BasicBlock, c ssa.CallInstruction) {
			if f := c.Common().StaticCallee(); f != nil && f.Name() == "Get" && recvTypeName(f) == "Pool" {
				takes = true
			}
		})
		for _, b := range fn.Blocks {
			for _, in := range b.Instrs {
				st, ok := in.(*ssa.Store)
				if !ok {
					continue
				}
				fa, ok := st.Addr.(*ssa.FieldAddr)
				if !ok || fieldVar(fa.X.Type(), fa.Field) != fv {
					continue
				}
				if _, fresh := fa.X.(*ssa.Alloc); !fresh && !takes {
					return false
				}
			}
		}
	}
	return true
}

// readerReleaseRule (C01.R7 / C02.R5): between two requests the serve loop may give the connection's buffered reader
// back to its pool (ReduceMemoryUsage). That is only harmless when nothing is lost and nobody still reads through
// it: on every path to a release inside the loop an error was found (the connection ends), or the reader was found
// empty (br.Buffered() == 0) - bytes of the next pipelined request would be dropped with it and parsing would resume
// in the middle of a message (C01) - and request bodies are not streamed (StreamRequestBody found false) - a body
// stream handed to the handler reads the rest of the body through that very reader (C02).
func readerReleaseRule(p *Prog, r *Report, prop string) {
	fn, hcall, header, why := findServeLoop(p)
	rel := p.Func("releaseReader")
	if fn == nil || rel == nil {
		r.Undecided("R-reader", "serve loop / releaseReader", why)
		return
	}
	_ = hcall
	const (
		bErr uint64 = 1 << iota
		bEmpty
		bNotStream
	)
	type tal struct {
		n, bad int
		wit    []string
		pos    token.Pos
	}
	emptyT, streamT := &tal{}, &tal{}
	x := NewExplorer(p, fn, Hooks{
		Instr: func(x *Explorer, st *State, in ssa.Instruction) {
			c, ok := in.(ssa.CallInstruction)
			if !ok {
				return
			}
			if c.Common().StaticCallee() == rel && inLoop(header, in.Block()) {
				for _, t := range []struct {
					t   *tal
					bit uint64
				}{{emptyT, bEmpty}, {streamT, bNotStream}} {
					t.t.n++
					if !st.Has(bErr) && !st.Has(t.bit) {
						t.t.bad++
						if t.t.wit == nil {
							t.t.wit = x.Path(st)
							t.t.pos = in.Pos()
						}
					}
				}
				return
			}
			// anything that reads through the reader invalidates what was learnt about it
			for _, a := range c.Common().Args {
				if strings.HasSuffix(a.Type().String(), "bufio.Reader") {
					if f := c.Common().StaticCallee(); f == nil || f.Name() != "Buffered" {
						st.Clear(bEmpty | bErr)
					}
				}
			}
		},
		Branch: func(x *Explorer, st *State, cond ssa.Value, taken bool, from *ssa.BasicBlock) {
			pol, v := stripNot(cond)
			truth := taken == pol
			if _, fv := loadedField(v); fv != nil && fv.Name() == "StreamRequestBody" {
				if !truth {
					st.Set(bNotStream)
				} else {
					st.Clear(bNotStream)
				}
				return
			}
			bo, ok := v.(*ssa.BinOp)
			if !ok {
				return
			}
			if cv, isCall := bo.X.(*ssa.Call); isCall && cv.Call.StaticCallee() != nil && cv.Call.StaticCallee().Name() == "Buffered" && recvTypeName(cv.Call.StaticCallee()) == "Reader" {
				if k, isK := constInt(bo.Y); isK && k == 0 {
					empty := (bo.Op == token.EQL) == truth
					if bo.Op == token.GTR {
						empty = !truth
					}
					if empty {
						st.Set(bEmpty)
					} else {
						st.Clear(bEmpty)
					}
				}
				return
			}
			if (bo.Op == token.NEQ || bo.Op == token.EQL) && (isNilConst(bo.Y) || isNilConst(bo.X)) {
				o := bo.X
				if isNilConst(bo.X) {
					o = bo.Y
				}
				if strings.HasSuffix(o.Type().String(), "error") {
					if (bo.Op == token.NEQ) == truth {
						st.Set(bErr)
					} else {
						st.Clear(bErr)
					}
				}
			}
		},
	})
	x.Filter = func(key string) bool {
		return strings.Contains(key, "StreamRequestBody") || strings.Contains(key, "ReduceMemoryUsage")
	}
	x.MaxStates = 2000000
	x.Run(nil)
	if x.Aborted || emptyT.n == 0 {
		r.Undecided("R-reader", "serve loop: releases of the connection reader between requests", "exploration gave no verdict")
		return
	}
	if prop == "C01" {
		r.Check("R7", "serve loop: the connection reader is released between requests only when it buffers nothing (or the connection ends with an error)", emptyT.bad == 0, p.Pos(emptyT.pos),
			fmt.Sprintf("%d of %d explored arrivals at releaseReader have neither found br.Buffered() == 0 nor an error: bytes of the next pipelined request that were read ahead are dropped with the reader, and the next read resumes in the middle of a message - body bytes are parsed as a request line", emptyT.bad, emptyT.n), emptyT.wit...)
	} else {
		rule := "R5"
		if prop != "C02" {
			rule = "R-reader"
		}
		r.Check(rule, "serve loop: the connection reader is released between requests only when request bodies are not streamed (or the connection ends with an error)", streamT.bad == 0, p.Pos(streamT.pos),
			fmt.Sprintf("%d of %d explored arrivals at releaseReader have not found StreamRequestBody false: the body stream handed to the handler still reads through the released reader, over-reads into the next request, and those bytes are lost when the loop takes a fresh reader", streamT.bad, streamT.n), streamT.wit...)
	}
}

// C10.R7: the close flag is the summary of the Connection header. It is lowered (assigned the constant false) only
// where the stored Connection entries go away too: every path from such a store to a return passes the removal of the
// Connection name from the generic list (a delAllArgs* call on the name "Connection", or on the routine's key when
// the store sits under a comparison of that key with "Connection"), or the truncation of the whole list (reset).
// A setter of another header that lowers the flag takes back a close decision made by the handler or the parser.
func closeFlagLoweredWithEntry(p *Prog, r *Report) {
	isConnConst := func(v ssa.Value) bool {
		for range 4 {
			switch x := v.(type) {
			case *ssa.Const:
				return x.Value != nil && x.Value.Kind() == constant.String && strings.EqualFold(constant.StringVal(x.Value), "Connection")
			case *ssa.Convert:
				v = x.X
				continue
			case *ssa.ChangeType:
				v = x.X
				continue
			case *ssa.Call:
				if f := x.Call.StaticCallee(); f != nil && f.Name() == "b2s" && len(x.Call.Args) == 1 {
					v = x.Call.Args[0]
					continue
				}
			case *ssa.UnOp:
				if g, ok := x.X.(*ssa.Global); ok && x.Op == token.MUL {
					return g.Name() == "strConnection"
				}
			}
			return false
		}
		return false
	}
	n := 0
	for _, fn := range p.funcsIn("") {
		for _, b := range fn.Blocks {
			for _, in := range b.Instrs {
				st, ok := in.(*ssa.Store)
				if !ok {
					continue
				}
				if _, fv := fieldOfAddr(st.Addr); fv == nil || fv.Name() != "connectionClose" {
					continue
				}
				c, isC := st.Val.(*ssa.Const)
				if !isC || c.Value == nil || c.Value.ExactString() != "false" {
					continue
				}
				n++
				underConnCase := false
				for _, g := range guardsOf(b) {
					if g.Pol && strings.Contains(strings.ToLower(g.Atom), "\"connection\"") {
						underConnCase = true
					}
				}
				if !underConnCase {
					// a switch on the key compiles to a chain of == tests: look at the If that enters this block
					for _, pr := range b.Preds {
						if iff, isIf := pr.Instrs[len(pr.Instrs)-1].(*ssa.If); isIf && pr.Succs[0] == b {
							if bo, isB := iff.Cond.(*ssa.BinOp); isB && bo.Op == token.EQL && (isConnConst(bo.X) || isConnConst(bo.Y)) {
								underConnCase = true
							}
						}
					}
				}
				removal := func(i ssa.Instruction) bool {
					switch x := i.(type) {
					case ssa.CallInstruction:
						f := x.Common().StaticCallee()
						if f == nil || !inModule(f) || !strings.HasPrefix(f.Name(), "delAllArgs") || len(x.Common().Args) < 2 {
							return false
						}
						k := x.Common().Args[1]
						if isConnConst(k) {
							return true
						}
						if underConnCase {
							for _, prm := range fn.Params {
								if derivesFromValue(k, prm) {
									return true
								}
							}
						}
					case *ssa.Store:
						if _, fv := fieldOfAddr(x.Addr); fv != nil && fv.Name() == "h" {
							if sl, ok := x.Val.(*ssa.Slice); ok && sl.Low == nil {
								if hc, ok := sl.High.(*ssa.Const); ok && hc.Value != nil && hc.Value.ExactString() == "0" {
									return true
								}
							}
						}
					}
					return false
				}
				hit, path := reachAvoiding(fn, st, isReturn, removal, nil)
				if hit != nil {
					// the other order is as good: the entries were removed before the flag is lowered
					for _, b2 := range fn.Blocks {
						for _, i2 := range b2.Instrs {
							if removal(i2) && dominatesInstr(i2, st) {
								hit, path = nil, nil
							}
						}
					}
				}
				r.Check("R7", fmt.Sprintf("%s: the close flag is lowered only together with the removal of the stored Connection entries", funcName(fn)), hit == nil, p.Pos(st.Pos()),
					"connectionClose = false, and a return is reachable without the Connection name being removed from the header's list or the list being reset: a routine that is not about the Connection header takes back a close decision (the handler's SetConnectionClose, or the parser's) - the peer is not told the connection closes, or a closing connection is pooled", blocksString(p, path)...)
			}
		}
	}
	r.Floor("R7", "stores lowering the close flag", n, 4)
}

// C15.R9: what ends Shutdown's drain loop with success is the open counter itself. s.open counts every connection
// being served and one unit per running Serve call (the accept loop), so open == 0 means: no handler runs and Serve
// has returned. Any corrected view of it (open minus the running Serve calls, as the monitoring getter reports)
// reaches zero while Serve is still inside Accept and may still hand a connection to a worker.
func shutdownWaitsOnOpenCounter(p *Prog, r *Report) {
	fn := p.Func("(*Server).ShutdownWithContext")
	if fn == nil {
		r.Undecided("R9", "(*Server).ShutdownWithContext", "not found")
		return
	}
	var isOpenLoad func(v ssa.Value, depth int) bool
	isOpenLoad = func(v ssa.Value, depth int) bool {
		c, ok := v.(*ssa.Call)
		if !ok || depth > 2 {
			return false
		}
		f := c.Call.StaticCallee()
		if f == nil {
			return false
		}
		if f.Name() == "Load" && len(c.Call.Args) == 1 {
			fa, ok := c.Call.Args[0].(*ssa.FieldAddr)
			return ok && typeNameOf(fa.X) == "Server" && fieldName(fa.X.Type(), fa.Field) == "open"
		}
		if !inModule(f) || f.Blocks == nil {
			return false
		}
		nret := 0
		for _, b := range f.Blocks {
			for _, in := range b.Instrs {
				if ret, ok := in.(*ssa.Return); ok {
					nret++
					if len(ret.Results) != 1 || !isOpenLoad(ret.Results[0], depth+1) {
						return false
					}
				}
			}
		}
		return nret > 0
	}
	isZero := func(v ssa.Value) bool {
		c, ok := v.(*ssa.Const)
		return ok && c.Value != nil && c.Value.ExactString() == "0"
	}
	drained := map[*ssa.BasicBlock]bool{}
	for _, b := range fn.Blocks {
		iff, ok := b.Instrs[len(b.Instrs)-1].(*ssa.If)
		if !ok {
			continue
		}
		bo, ok := iff.Cond.(*ssa.BinOp)
		if !ok {
			continue
		}
		good := (isOpenLoad(bo.X, 0) && isZero(bo.Y)) || (isOpenLoad(bo.Y, 0) && isZero(bo.X))
		if !good {
			continue
		}
		switch bo.Op {
		case token.EQL, token.LEQ:
			if len(b.Succs[0].Preds) == 1 {
				drained[b.Succs[0]] = true
			}
		case token.NEQ, token.GTR:
			if len(b.Succs[1].Preds) == 1 {
				drained[b.Succs[1]] = true
			}
		}
	}
	n := 0
	for _, b := range fn.Blocks {
		for _, in := range b.Instrs {
			c, ok := in.(*ssa.Call)
			if !ok || c.Call.StaticCallee() == nil || c.Call.StaticCallee().Name() != "closeIdleConns" {
				continue
			}
			n++
			notSuccess := func(i ssa.Instruction) bool {
				if _, isSel := i.(*ssa.Select); isSel {
					return true // the caller's context ended the wait: not a success
				}
				if c, ok := i.(ssa.CallInstruction); ok && c.Common().IsInvoke() && c.Common().Method.Name() == "Err" {
					return true // the context's error is what is returned
				}
				return drained[i.Block()] && i == i.Block().Instrs[0]
			}
			hit, path := reachAvoiding(fn, in, isReturn, notSuccess, nil)
			if hit == nil {
				// and no return before the loop either: a server without listeners may still be serving connections
				// handed to ServeConn, which the same counter counts
				hit, path = reachAvoiding(fn, nil, isReturn, notSuccess, nil)
			}
			r.Check("R9", "ShutdownWithContext leaves its drain loop with success only after it found Server.open itself at zero", hit == nil, p.Pos(in.Pos()),
				"a return is reachable from the drain loop without a test 'open counter == 0' on the counter itself: a value corrected by the number of running Serve calls is zero while Serve is still accepting, so Shutdown returns nil before Serve has returned and a connection accepted in that window is served after shutdown 'completed'; a return taken before the loop (no listeners) skips the connections that were handed to ServeConn and whose handlers are still running", blocksString(p, path)...)
		}
	}
	r.Floor("R9", "drain loop anchors (closeIdleConns calls) in ShutdownWithContext", n, 1)
	r.Floor("R9", "tests of the open counter against zero in ShutdownWithContext", len(drained), 1)
}

// C17.R10: a hijacked connection belongs to the hijack handler, wrapper included. Where the server reports
// StateHijacked for a connection value, no path leads on - before the variable is given the next connection - to a
// routine that returns a connection wrapper to its pool with that same value: the wrapper (per-IP counter, closed
// flag, embedded Conn) would be reset and reused for another client while the hijack handler still reads through it.
func wrapperNotRecycledAfterHandOff(p *Prog, r *Report) {
	isWrapper := func(t types.Type) bool {
		if pt, ok := t.Underlying().(*types.Pointer); ok {
			t = pt.Elem()
		}
		st, ok := t.Underlying().(*types.Struct)
		if !ok {
			return false
		}
		for i := 0; i < st.NumFields(); i++ {
			if strings.HasSuffix(st.Field(i).Type().String(), "*"+rootPkg+".perIPConnCounter") {
				return true
			}
		}
		return false
	}
	hijackedConst := int64(-1)
	if c, ok := constOfObj(p.byPath[rootPkg].Types, "StateHijacked"); ok {
		if v, err := strconv.ParseInt(c.ExactString(), 10, 64); err == nil {
			hijackedConst = v
		}
	}
	recyclers := map[*ssa.Function]bool{}
	for _, fn := range p.funcsIn("") {
		allCalls(fn, func(b *ssa.BasicBlock, c ssa.CallInstruction) {
			f := c.Common().StaticCallee()
			if f == nil || f.Name() != "Put" || recvTypeName(f) != "Pool" || len(c.Common().Args) < 2 {
				return
			}
			v := c.Common().Args[1]
			if mi, ok := v.(*ssa.MakeInterface); ok {
				v = mi.X
			}
			if isWrapper(v.Type()) {
				recyclers[fn] = true
			}
		})
	}
	r.Floor("R10", "routines that return a connection wrapper to its pool", len(recyclers), 1)
	nrep := 0
	for _, fn := range p.funcsIn("") {
		for _, b := range fn.Blocks {
			for _, in := range b.Instrs {
				rc, ok := in.(ssa.CallInstruction)
				if !ok {
					continue
				}
				args := rc.Common().Args
				var connArg, stateArg ssa.Value
				switch {
				case rc.Common().StaticCallee() != nil && rc.Common().StaticCallee().Name() == "setState" && len(args) == 3:
					connArg, stateArg = args[1], args[2]
				case rc.Common().StaticCallee() != nil && rc.Common().StaticCallee().Name() == "connState" && len(args) == 3:
					connArg, stateArg = args[1], args[2]
				case rc.Common().StaticCallee() == nil && !rc.Common().IsInvoke() && len(args) == 2:
					connArg, stateArg = args[0], args[1]
				default:
					continue
				}
				if k, isK := constInt(stateArg); !isK || k != hijackedConst {
					continue
				}
				nrep++
				// the search ends where the variable is given its next value (the next iteration's receive)
				redef := map[ssa.Instruction]bool{}
				if di, ok := connArg.(ssa.Instruction); ok {
					redef[di] = true
					if ex, ok := connArg.(*ssa.Extract); ok {
						if ti, ok := ex.Tuple.(ssa.Instruction); ok {
							redef[ti] = true
						}
					}
				}
				hit, path := reachAvoiding(fn, in, func(i ssa.Instruction) bool {
					c, ok := i.(ssa.CallInstruction)
					if !ok || c.Common().StaticCallee() == nil || !recyclers[c.Common().StaticCallee()] {
						return false
					}
					for _, a := range c.Common().Args {
						if a == connArg {
							return true
						}
					}
					return false
				}, func(i ssa.Instruction) bool { return redef[i] }, nil)
				r.Check("R10", funcName(fn)+": the connection reported hijacked is not handed to a routine that recycles its wrapper", hit == nil, p.Pos(in.Pos()),
					"after StateHijacked was reported for this connection value a call that returns its wrapper to the pool is reachable with the same value: the hijack handler still owns the connection, and the recycled wrapper is reset and reused for the next accepted connection while the handler reads and writes through it", blocksString(p, path)...)
			}
		}
	}
	r.Floor("R10", "reports of StateHijacked", nrep, 2)
}

// C11.R-deadline: a read deadline armed for one request only (RequestConfig.ReadTimeout, returned by HeaderReceived
// for that request) is part of that request's treatment. Every path of the serve loop from such an arming call to
// the read of the next request's head passes another SetReadDeadline / SetDeadline on the connection (the server's
// own timeout, the idle timeout, or the clearing of the deadline): otherwise the next request - for which the
// callback may have asked for no timeout at all - is cut off by its predecessor's deadline. Decided by exploration
// of the loop (boolean locals such as a 'deadline armed' flag are followed; the branch 'first request of the
// connection' is not taken after a back edge, the request counter being a loop counter that starts at zero).
func requestDeadlineNotInherited(p *Prog, r *Report) {
	fn, _, header, why := findServeLoop(p)
	if fn == nil {
		r.Undecided("R-deadline", "serve loop", why)
		return
	}
	var hr ssa.Instruction
	for _, b := range fn.Blocks {
		for _, in := range b.Instrs {
			c, ok := in.(*ssa.Call)
			if !ok || c.Call.StaticCallee() != nil || c.Call.IsInvoke() {
				continue
			}
			if _, fv := loadedField(c.Call.Value); fv != nil && fv.Name() == "HeaderReceived" {
				hr = in
			}
		}
	}
	if hr == nil {
		r.Undecided("R-deadline", "serve loop: call of Server.HeaderReceived", "not found")
		return
	}
	isReadDeadline := func(i ssa.Instruction) bool {
		c, ok := i.(ssa.CallInstruction)
		if !ok || !c.Common().IsInvoke() || !typeIsNetConn(c.Common().Value.Type()) {
			return false
		}
		nm := c.Common().Method.Name()
		return nm == "SetReadDeadline" || nm == "SetDeadline"
	}
	perReq := map[ssa.Instruction]bool{}
	for _, b := range fn.Blocks {
		for _, in := range b.Instrs {
			if isReadDeadline(in) && inLoop(header, b) && dominatesInstr(hr, in) {
				perReq[in] = true
			}
		}
	}
	r.Floor("R-deadline", "read deadlines armed from the per-request configuration", len(perReq), 1)
	// the request counter: a header phi that starts at a constant and is only incremented
	isFirstRequestTest := func(bo *ssa.BinOp) bool {
		if bo.Op != token.EQL {
			return false
		}
		k, ok := constInt(bo.Y)
		if !ok {
			return false
		}
		add, ok := bo.X.(*ssa.BinOp)
		if !ok || add.Op != token.ADD {
			return false
		}
		ph, ok := add.X.(*ssa.Phi)
		step, ok2 := constInt(add.Y)
		if !ok || !ok2 || step <= 0 || ph.Block() != header {
			return false
		}
		for i, e := range ph.Edges {
			if inLoop(header, header.Preds[i]) {
				if e != ssa.Value(add) {
					return false
				}
			} else if c0, isK := constInt(e); !isK || c0+step != k {
				return false
			}
		}
		return true
	}
	const (
		bArmed uint64 = 1 << iota
		bLooped
		bDead
	)
	n, bad := 0, 0
	var wit []string
	var pos token.Pos
	x := NewExplorer(p, fn, Hooks{
		Instr: func(x *Explorer, st *State, in ssa.Instruction) {
			if perReq[in] {
				st.Set(bArmed)
				return
			}
			if isReadDeadline(in) {
				st.Clear(bArmed)
				return
			}
			c, ok := in.(ssa.CallInstruction)
			if !ok || c.Common().StaticCallee() == nil || !inLoop(header, in.Block()) {
				return
			}
			f := c.Common().StaticCallee()
			if recvTypeName(f) == "RequestHeader" && (f.Name() == "Read" || f.Name() == "readLoop") {
				n++
				if st.Has(bArmed) {
					bad++
					if wit == nil {
						wit, pos = x.Path(st), in.Pos()
					}
				}
			}
		},
		Branch: func(x *Explorer, st *State, cond ssa.Value, taken bool, from *ssa.BasicBlock) {
			pol, v := stripNot(cond)
			if bo, ok := v.(*ssa.BinOp); ok && taken == pol && st.Has(bLooped) && isFirstRequestTest(bo) {
				st.Set(bDead)
			}
		},
		Edge: func(x *Explorer, st *State, from, to *ssa.BasicBlock) {
			if to == header && inLoop(header, from) {
				st.Set(bLooped)
			}
		},
		Prune: func(x *Explorer, st *State, b *ssa.BasicBlock) bool { return st.Has(bDead) },
	})
	x.Filter = func(key string) bool {
		return strings.Contains(key, "Timeout") || strings.Contains(key, "HeaderReceived")
	}
	x.MaxStates = 2000000
	x.Run(nil)
	if x.Aborted || n == 0 {
		r.Undecided("R-deadline", "serve loop: reads of the request head", "exploration gave no verdict")
		return
	}
	r.Counts["R-deadline arrivals at the head read"] = n
	r.Check("R-deadline", "serve loop: a read deadline armed for one request does not stay armed when the next request's head is read", bad == 0, p.Pos(pos),
		fmt.Sprintf("%d of %d explored arrivals at the head read still carry the deadline the previous request's RequestConfig.ReadTimeout armed: no SetReadDeadline lies between - with no ReadTimeout/IdleTimeout configured the next request, whatever its own configuration, is cut off when its predecessor's deadline expires", bad, n), wit...)
}

// ---- rules for the defects the round-11 audit found (each reported on the revert of its repair) ----

// streamFramedBySnapshot (C02.R6): a request body stream decides where the body ends from the length recorded when
// the stream was created (fullyRead uses it, and the serve loop's keep-alive decision relies on fullyRead). No
// method of requestStream asks the message header for the length: the header belongs to the handler, which may
// change it before it reads the body, and Read would then run past the framed body into the next request.
func streamFramedBySnapshot(p *Prog, r *Report) {
	n, bad := 0, 0
	var pos token.Pos
	var where string
	for _, fn := range p.funcsIn("") {
		if recvTypeName(fn) != "requestStream" {
			continue
		}
		n++
		allCalls(fn, func(b *ssa.BasicBlock, c ssa.CallInstruction) {
			if c.Common().IsInvoke() && c.Common().Method.Name() == "ContentLength" {
				if _, fv := loadedField(c.Common().Value); fv != nil && fv.Name() == "header" {
					bad++
					if where == "" {
						where, pos = funcName(fn), c.Pos()
					}
				}
			}
		})
	}
	r.Floor("R6", "methods of requestStream", n, 2)
	r.Check("R6", "requestStream: the body is framed by the length recorded at creation, never by the live header", bad == 0, p.Pos(pos),
		fmt.Sprintf("%d calls of header.ContentLength() in methods of requestStream (first in %s): a handler that changes Content-Length on the request before reading its body stream makes Read consume bytes of the next pipelined request, while fullyRead - which looks at the recorded length - still says the body was read to its end", bad, where))
}

// trailerErrorEndsTheBody (C02.R4c): the end-of-body flag of a chunked stream is raised only when the trailer reader
// returned nil. From the branch that found its error non-nil no path reaches the store - an io.EOF in the middle of
// the trailer section is not the end of a message, and what was read of the section is still in the reader.
func trailerErrorEndsTheBody(p *Prog, r *Report) {
	n := 0
	for _, fn := range p.funcsIn("") {
		if recvTypeName(fn) != "requestStream" {
			continue
		}
		var trailerErr ssa.Value
		allCalls(fn, func(b *ssa.BasicBlock, c ssa.CallInstruction) {
			if c.Common().IsInvoke() && c.Common().Method.Name() == "ReadTrailer" {
				if cv, ok := c.(*ssa.Call); ok {
					trailerErr = cv
				}
			}
		})
		if trailerErr == nil {
			continue
		}
		isRaise := func(i ssa.Instruction) bool {
			st, ok := i.(*ssa.Store)
			if !ok {
				return false
			}
			_, fv := fieldOfAddr(st.Addr)
			c, isC := st.Val.(*ssa.Const)
			return fv != nil && fv.Name() == "chunkedEOF" && isC && c.Value != nil && c.Value.ExactString() == "true"
		}
		for _, b := range fn.Blocks {
			iff, ok := b.Instrs[len(b.Instrs)-1].(*ssa.If)
			if !ok {
				continue
			}
			bo, ok := iff.Cond.(*ssa.BinOp)
			if !ok || !(bo.X == trailerErr && isNilConst(bo.Y)) || (bo.Op != token.NEQ && bo.Op != token.EQL) {
				continue
			}
			n++
			nonNil := b.Succs[0]
			if bo.Op == token.EQL {
				nonNil = b.Succs[1]
			}
			hit, path := reachAvoiding(fn, nonNil.Instrs[0], isRaise, nil, nil)
			if isRaise(nonNil.Instrs[0]) {
				hit = nonNil.Instrs[0]
			}
			r.Check("R4", funcName(fn)+": the end-of-body flag is not raised on a path that found the trailer reader's error non-nil", hit == nil, p.Pos(iff.Pos()),
				"from the branch 'ReadTrailer returned an error' the store chunkedEOF = true is reachable (an io.EOF is tolerated): a chunked body whose trailer section is cut off counts as read to its end, and the bytes of the unterminated section are parsed as the next request", blocksString(p, path)...)
		}
	}
	r.Floor("R4", "tests of the trailer reader's error against nil in requestStream", n, 1)
}

// streamReleasedByItsOwner (C02.R-own): a requestStream read from the wire belongs to its Request (the serve loop
// asks it whether the body was read and releases it). Code that meets such a stream through another door - a
// response body that echoes it, the compressing wrapper - must leave it alone: every releaseRequestStream call whose
// argument was type-asserted out of something other than a Request's own bodyStream field is made under a test
// that found the stream's requestOwned flag false.
func streamReleasedByItsOwner(p *Prog, r *Report) {
	rel := p.Func("releaseRequestStream")
	if rel == nil {
		r.Undecided("R-own", "releaseRequestStream", "not found")
		return
	}
	n, nforeign := 0, 0
	for _, top := range p.funcsIn("") {
		for _, fn := range funcAndClosures(top) {
			for _, b := range fn.Blocks {
				for _, in := range b.Instrs {
					c, ok := in.(ssa.CallInstruction)
					if !ok || c.Common().StaticCallee() != rel || len(c.Common().Args) != 1 {
						continue
					}
					n++
					// where does the stream come from?
					own := false
					v := c.Common().Args[0]
					for d := 0; d < 6; d++ {
						switch x := v.(type) {
						case *ssa.Extract:
							v = x.Tuple
							continue
						case *ssa.TypeAssert:
							v = x.X
							continue
						case *ssa.Phi:
							if len(x.Edges) > 0 {
								v = x.Edges[0]
								continue
							}
						case *ssa.UnOp:
							if _, isFree := x.X.(*ssa.FreeVar); isFree && x.Op == token.MUL {
								v = x.X
								continue
							}
						}
						break
					}
					if base, fv := loadedField(v); fv != nil && fv.Name() == "bodyStream" && base != nil && typeNameOf(base) == "Request" {
						own = true
					}
					if _, isFree := v.(*ssa.FreeVar); isFree {
						own = true // the client's response-stream callback releases the stream it created itself
					}
					if own {
						continue
					}
					nforeign++
					guarded := false
					for _, g := range guardsOf(b) {
						if strings.Contains(g.Atom, "requestOwned") && !g.Pol {
							guarded = true
						}
					}
					if !guarded {
						// 'ok && !rs.requestOwned' compiles to a chain: look at the If that enters this block
						for _, pr := range b.Preds {
							if iff, isIf := pr.Instrs[len(pr.Instrs)-1].(*ssa.If); isIf {
								pol, cv := stripNot(iff.Cond)
								if _, fv := loadedField(cv); fv != nil && fv.Name() == "requestOwned" {
									if (pr.Succs[0] == b) != pol {
										guarded = true
									}
								}
							}
						}
					}
					r.Check("R-own", funcName(fn)+": a request stream met outside its Request is released only when it is not request-owned", guarded, p.Pos(c.Pos()),
						"releaseRequestStream on a stream taken out of a response body / a wrapped reader without a test of requestOwned: when a handler echoes the request's body stream as the response body the stream goes back to its pool here and again in the serve loop - two connections then share one stream object and read each other's bodies")
				}
			}
		}
	}
	r.Floor("R-own", "releaseRequestStream calls", n, 3)
	r.Floor("R-own", "releases of a stream met outside its Request", nforeign, 1)
}

// orphanedReaderNotRecycled (C02.R7): when a handler timed out while it owned a streamed request body, it keeps
// reading through the connection's buffered reader. The branch that finds this out ('timeoutResponse != nil' and the
// look at the body stream taken before the handler ran) leaves the reader variable nil - some merge of the reader takes
// the nil constant from it - so the 'if br != nil { releaseReader }' at the end cannot hand it to another connection.
func orphanedReaderNotRecycled(p *Prog, r *Report) {
	fn, hcall, header, why := findServeLoop(p)
	rel := p.Func("releaseReader")
	if fn == nil || rel == nil {
		r.Undecided("R7", "serve loop / releaseReader", why)
		return
	}
	const (
		bTimeout uint64 = 1 << iota
		bOrphan
	)
	isStreamOK := func(v ssa.Value) bool {
		ex, ok := v.(*ssa.Extract)
		if !ok || ex.Index != 1 {
			return false
		}
		ta, ok := ex.Tuple.(*ssa.TypeAssert)
		// the look at the request's body stream taken before the handler ran: afterwards the ctx may be another one
		return ok && ta.CommaOk && strings.HasSuffix(ta.AssertedType.String(), "requestStream") && dominatesInstr(ta, hcall)
	}
	// the branch: an If on that look, control-dependent on 'timeoutResponse != nil'
	n := 0
	for _, b := range fn.Blocks {
		iff, ok := b.Instrs[len(b.Instrs)-1].(*ssa.If)
		if !ok || !inLoop(header, b) {
			continue
		}
		pol, v := stripNot(iff.Cond)
		if !isStreamOK(v) {
			continue
		}
		underTimeout := false
		for _, g := range guardsOf(b) {
			if strings.Contains(g.Atom, "timeoutResponse") && g.Pol {
				underTimeout = true
			}
		}
		if !underTimeout {
			continue
		}
		n++
		then := b.Succs[0]
		if !pol {
			then = b.Succs[1]
		}
		// the reader variable is nil when the branch is left: a merge of the reader that takes nil from it
		dropped := false
		for _, bb := range fn.Blocks {
			for _, in := range bb.Instrs {
				ph, ok := in.(*ssa.Phi)
				if !ok {
					break
				}
				if !strings.HasSuffix(ph.Type().String(), "bufio.Reader") {
					continue
				}
				for k, e := range ph.Edges {
					pr := bb.Preds[k]
					if (pr == then || then.Dominates(pr)) && isNilConst(e) {
						dropped = true
					}
				}
			}
		}
		r.Check("R7", "serve loop: the connection reader a timed out handler still reads its body through is dropped, not returned to the pool", dropped, p.Pos(iff.Pos()),
			"the branch 'the handler timed out and the request body was a stream' leaves the reader variable as it was: the serve function releases it at its end, the pool hands it to another connection while the abandoned handler keeps reading through it - it consumes that connection's requests")
	}
	_ = rel
	_ = bTimeout
	_ = bOrphan
	r.Floor("R7", "branches 'timed out with a streamed body' in the serve loop", n, 1)
}

// movedStreamMarkedUnread (C02.R8): a routine that moves the body of the caller's Request into a private copy
// (swapRequestBody with its own Request parameter) takes a server request's body stream away from the server: the
// serve loop then sees neither a stream nor how much of it was read. Such a routine records on the caller's request
// that the body may be unread (a store to bodyStreamUnread of that parameter after the swap), so the connection is
// not searched for a next request behind a body that the routine's goroutines may still be reading.
func movedStreamMarkedUnread(p *Prog, r *Report) {
	swap := p.Func("swapRequestBody")
	if swap == nil {
		r.Undecided("R8", "swapRequestBody", "not found")
		return
	}
	n := 0
	for _, fn := range p.funcsIn("") {
		allCalls(fn, func(b *ssa.BasicBlock, c ssa.CallInstruction) {
			if c.Common().StaticCallee() != swap || len(c.Common().Args) != 2 {
				return
			}
			var prm *ssa.Parameter
			for _, q := range fn.Params {
				if c.Common().Args[0] == ssa.Value(q) {
					prm = q
				}
			}
			if prm == nil {
				return
			}
			n++
			marks := func(i ssa.Instruction) bool {
				st, ok := i.(*ssa.Store)
				if !ok {
					return false
				}
				base, fv := fieldOfAddr(st.Addr)
				return fv != nil && fv.Name() == "bodyStreamUnread" && base == ssa.Value(prm)
			}
			hit, _ := reachAvoiding(fn, c, marks, nil, nil)
			r.Check("R8", funcName(fn)+": moving the caller's request body into a private copy records on the caller's request that a body stream may be unread", hit != nil, p.Pos(c.Pos()),
				"after swapRequestBody(req, copy) nothing stores req.bodyStreamUnread: when req is a server request with a streamed body (proxying) the server no longer sees the stream, keeps the connection and parses the unread rest of the body as the next request")
		})
	}
	r.Floor("R8", "routines that move their Request parameter's body into a copy", n, 1)
}

// abandonedWrapperNotPooled (C16.R10): the ctx a timed out handler keeps using refers to the connection value it was
// served on. When that value is a pooled per-IP wrapper, recycling it hands the late handler another client's
// connection (RemoteAddr of somebody else, Close of somebody else's connection). (a) On the serve loop's branch
// 'the handler timed out' the connection is passed to a routine that raises a wrapper's 'abandoned' flag;
// (b) every Put of a wrapper into its pool is made under a test that found that flag false.
func abandonedWrapperNotPooled(p *Prog, r *Report) {
	fn, _, header, why := findServeLoop(p)
	if fn == nil {
		r.Undecided("R10", "serve loop", why)
		return
	}
	isWrapper := func(t types.Type) bool {
		if pt, ok := t.Underlying().(*types.Pointer); ok {
			t = pt.Elem()
		}
		st, ok := t.Underlying().(*types.Struct)
		if !ok {
			return false
		}
		for i := 0; i < st.NumFields(); i++ {
			if strings.HasSuffix(st.Field(i).Type().String(), "*"+rootPkg+".perIPConnCounter") {
				return true
			}
		}
		return false
	}
	raisers := map[*ssa.Function]bool{}
	for _, f := range p.funcsIn("") {
		for _, b := range f.Blocks {
			for _, in := range b.Instrs {
				st, ok := in.(*ssa.Store)
				if !ok {
					continue
				}
				base, fv := fieldOfAddr(st.Addr)
				if fv == nil || base == nil || !isWrapper(base.Type()) || !isBool(fv.Type()) {
					continue
				}
				if c, isC := st.Val.(*ssa.Const); isC && c.Value != nil && c.Value.ExactString() == "true" && fv.Name() != "closed" {
					raisers[f] = true
				}
			}
		}
	}
	r.Floor("R10", "routines that mark a per-IP wrapper as abandoned", len(raisers), 1)
	marked := 0
	for _, b := range fn.Blocks {
		if !inLoop(header, b) {
			continue
		}
		for _, in := range b.Instrs {
			c, ok := in.(ssa.CallInstruction)
			if !ok || !raisers[c.Common().StaticCallee()] {
				continue
			}
			for _, g := range guardsOf(b) {
				if strings.Contains(g.Atom, "timeoutResponse") && g.Pol {
					marked++
				}
			}
		}
	}
	r.Check("R10", "serve loop: on the branch 'the handler timed out' the connection's wrapper is marked as abandoned", marked > 0, p.Pos(fn.Pos()),
		"nothing on the timeoutResponse != nil branch keeps the connection's per-IP wrapper out of its pool: when the connection is closed the wrapper is recycled for the next accepted connection while the timed out handler's ctx still refers to it - ctx.RemoteAddr() there reports another client's address, ctx.Conn().Close() closes another client's connection")
	nput := 0
	for _, f := range p.funcsIn("") {
		allCalls(f, func(b *ssa.BasicBlock, c ssa.CallInstruction) {
			g := c.Common().StaticCallee()
			if g == nil || g.Name() != "Put" || recvTypeName(g) != "Pool" || len(c.Common().Args) < 2 {
				return
			}
			v := c.Common().Args[1]
			if mi, ok := v.(*ssa.MakeInterface); ok {
				v = mi.X
			}
			if !isWrapper(v.Type()) {
				return
			}
			nput++
			guarded := false
			for _, gd := range guardsOf(b) {
				if strings.Contains(gd.Atom, "abandoned") && !gd.Pol {
					guarded = true
				}
			}
			r.Check("R10", funcName(f)+": a per-IP wrapper goes back to its pool only when it was not abandoned to a timed out handler", guarded, p.Pos(c.Pos()),
				"the Put is not under a test that found the wrapper's abandoned flag false")
		})
	}
	r.Floor("R10", "places that return a per-IP wrapper to its pool", nput, 2)
}
