package main

func init() {
	for _, id := range []string{"C02", "C10", "C11", "C14", "C15", "C16", "C17"} {
		id := id
		register(&propDef{id: id, explain: "serve-loop obligations (work in progress)", run: func(p *Prog, r *Report) { p.serveLoop(id).report(r, id) }})
	}
}
