package main

// C25 - FS file handles: opened files are closed or handed off exactly once,
// the readers count is paired across the handler, tracking lists are not
// overwritten under a concurrent appender, cache state is lock-protected.

import (
	"fmt"
	"go/types"
	"sort"
	"strings"

	"golang.org/x/tools/go/ssa"
)

func init() {
	register(&propDef{
		id:      "C25",
		explain: "Structural necessary conditions of 'every file the FS handler opens is closed exactly once and never while a response still reads it': (E1-file) typestate of fs.File / *os.File values in fs.go: a file obtained from an open call, or received by a function that takes ownership of it, is on every path closed, stored into an owning object, returned, or passed to a function that takes ownership - exactly once; functions that receive a file either always or never dispose of it (no mixed contracts); a failed open disposes of nothing; (E1-readers) in the request handler the reader count taken when the file is fetched from / put into the cache is given back exactly once on every path: decReadersCount, closing the reader, or handing the reader to the response as its body stream; (R-rmw) a tracking list (pendingFiles, bigFiles) that is read, filtered and written back is not written by a callee between the read and the write-back - otherwise entries appended in between are lost and their files never released; (R-closed) every insertion into a map of cached files is made by the cache manager on a branch on which its closed flag was found false (after close nothing cleans the maps, and a file is released with its last reader); (E8) cache maps, pendingFiles, closed and readersCount are accessed only under cacheLock, bigFiles only under bigFilesLock. (R-count) every append that builds a list of cached files (to release, or pending) in the cache manager is control-dependent on a comparison of that file's readersCount; (R-atomic) the closed flag is raised in the critical section that empties the cache maps: from the store of true no Unlock or return is reachable without the sweep (collectAllFilesToReleaseNolock) - otherwise a reader finishing in between releases a file the sweep releases again. Not decided: eviction/reader interleavings, OS-level descriptor state.",
		run:     runC25,
	})
}

func isFileType(t types.Type) bool {
	s := t.String()
	return strings.HasSuffix(s, "io/fs.File") || strings.HasSuffix(s, "*os.File")
}

type fileOwn int8

const (
	ownUnknown fileOwn = iota
	ownOwns
	ownBorrows
	ownMixed
	ownBusy
)

type fileTS struct {
	p    *Prog
	memo map[limParam]fileOwn
	det  map[limParam]string
}

// explore runs the typestate for one function: acquired marks how the file comes to life
// (call != nil: extract #0 of that call; call == nil: parameter idx held on entry).
func (t *fileTS) explore(fn *ssa.Function, call *ssa.Call, idx int) (returns int, counts map[int8]int, wit map[int8][]string) {
	var fileVal, errVal ssa.Value
	if call != nil {
		for _, ref := range *call.Referrers() {
			if ex, ok := ref.(*ssa.Extract); ok {
				if ex.Index == 0 {
					fileVal = ex
				} else if ex.Index == 1 {
					errVal = ex
				}
			}
		}
	} else {
		fileVal = fn.Params[idx]
	}
	counts = map[int8]int{}
	wit = map[int8][]string{}
	if fileVal == nil {
		return 0, counts, wit
	}
	isF := func(v ssa.Value) bool {
		v = stripMakeIface(v)
		if v == fileVal || sameVar(v, fileVal) {
			return true
		}
		// type assertion f.(*os.File) / f.(io.Seeker) of the same value is still the file
		if ta, ok := v.(*ssa.TypeAssert); ok {
			return ta.X == fileVal || sameVar(ta.X, fileVal)
		}
		if ex, ok := v.(*ssa.Extract); ok {
			if ta, ok := ex.Tuple.(*ssa.TypeAssert); ok {
				return ta.X == fileVal || sameVar(ta.X, fileVal)
			}
		}
		return false
	}
	const bLive uint64 = 1
	x := NewExplorer(t.p, fn, Hooks{
		Instr: func(x *Explorer, st *State, in ssa.Instruction) {
			if call == nil && !st.Has(bLive) {
				st.Set(bLive)
			}
			switch w := in.(type) {
			case *ssa.Call:
				if w == call {
					st.Set(bLive)
					st.N[0] = 0
					return
				}
				if !st.Has(bLive) {
					return
				}
				if w.Call.IsInvoke() {
					if w.Call.Method.Name() == "Close" && isF(w.Call.Value) {
						st.N[0]++
					}
					return
				}
				f := w.Call.StaticCallee()
				if f == nil {
					return
				}
				if f.Name() == "Close" && len(w.Call.Args) > 0 && isF(w.Call.Args[0]) {
					st.N[0]++
					return
				}
				if !inModule(f) {
					return
				}
				for ai, a := range w.Call.Args {
					if isF(a) && ai < len(f.Params) && isFileType(f.Params[ai].Type()) {
						switch t.owns(f, ai) {
						case ownOwns:
							st.N[0]++
						case ownMixed, ownBusy:
							st.N[0] += 10 // poisons the count: reported at the callee
						}
					}
				}
			case *ssa.Store:
				if st.Has(bLive) && isF(w.Val) {
					if fa, isField := w.Addr.(*ssa.FieldAddr); isField {
						// handed to an owning object (a field declared as a file; the same value stored
						// as a plain io.Reader next to it is the same hand-off)
						if fv := fieldVar(fa.X.Type(), fa.Field); fv != nil && isFileType(fv.Type()) {
							st.N[0]++
						}
					}
				}
			case *ssa.MakeClosure:
				if st.Has(bLive) {
					for _, b := range w.Bindings {
						if isF(b) || holdsVar(b, fileVal) {
							st.N[0]++
						}
					}
				}
			}
			if st.N[0] > 12 {
				st.N[0] = 12
			}
		},
		Exit: func(x *Explorer, st *State, ret *ssa.Return, pan *ssa.Panic) {
			if ret == nil || !st.Has(bLive) {
				return
			}
			n := st.N[0]
			for _, rv := range returnResults(ret) {
				if isF(rv) {
					n++
				}
			}
			if errVal != nil && x.Eval(st, errVal) == True {
				// the open failed: nothing to dispose of (and nothing must have been)
				if n == 0 {
					n = 1
				} else {
					n = 2
				}
			}
			returns++
			counts[n]++
			if wit[n] == nil {
				wit[n] = x.Path(st)
			}
		},
	})
	x.Filter = noIntFilter
	if errVal != nil {
		x.Track(errVal)
	}
	x.MaxStates = 600000
	x.Run(nil)
	if x.Aborted {
		counts[-1] = 1
	}
	return returns, counts, wit
}

func (t *fileTS) owns(fn *ssa.Function, idx int) fileOwn {
	k := limParam{fn, idx}
	if v, ok := t.memo[k]; ok {
		return v
	}
	t.memo[k] = ownBusy
	_, counts, _ := t.explore(fn, nil, idx)
	res := ownMixed
	switch {
	case len(counts) == 1 && counts[1] > 0:
		res = ownOwns
	case len(counts) == 1 && counts[0] > 0:
		res = ownBorrows
	case len(counts) == 0:
		res = ownBorrows
	}
	t.det[k] = fmt.Sprint(counts)
	t.memo[k] = res
	return res
}

func runC25(p *Prog, r *Report) {
	ts := &fileTS{p: p, memo: map[limParam]fileOwn{}, det: map[limParam]string{}}
	inFS := func(f *ssa.Function) bool {
		pos := p.Fset.Position(f.Pos())
		return strings.HasSuffix(pos.Filename, "/fs.go")
	}
	isOpenCall := func(c *ssa.Call) bool {
		if c.Call.IsInvoke() {
			return c.Call.Method.Name() == "Open" && strings.HasSuffix(c.Call.Value.Type().String(), "fs.FS")
		}
		f := c.Call.StaticCallee()
		if f == nil || f.Pkg == nil || f.Pkg.Pkg.Path() != "os" {
			return false
		}
		switch f.Name() {
		case "Open", "OpenFile", "Create", "CreateTemp":
			return true
		}
		return false
	}
	nopen := 0
	for _, fn := range p.funcsIn("") {
		if !inFS(fn) || recvTypeName(fn) == "osFS" {
			continue
		}
		for _, b := range fn.Blocks {
			for _, in := range b.Instrs {
				c, ok := in.(*ssa.Call)
				if !ok || !isOpenCall(c) {
					continue
				}
				nopen++
				nret, counts, wit := ts.explore(fn, c, 0)
				bad := 0
				var w []string
				detail := ""
				for n, k := range counts {
					if n != 1 {
						bad += k
						if w == nil {
							w = wit[n]
							switch {
							case n == 0:
								detail = "a return is reached with the opened file neither closed nor handed to an owner: the descriptor leaks"
							case n == -1:
								detail = "state budget exhausted"
							case n >= 10:
								detail = "the file is passed to a function with a mixed ownership contract"
							default:
								detail = fmt.Sprintf("the file is disposed of %d times on this path (closed and also handed on, or closed twice)", n)
							}
						}
					}
				}
				r.Check("E1-file", fmt.Sprintf("%s: the file opened by %s is closed or handed to an owner exactly once on every path", funcName(fn), calleeName(c)), bad == 0 && nret > 0, p.Pos(c.Pos()),
					fmt.Sprintf("%s (%d of %d explored returns)", detail, bad, nret), w...)
			}
		}
	}
	r.Floor("E1-file", "open sites in fs.go", nopen, 5)
	// ownership contracts of functions receiving a file
	ncontract := 0
	for _, fn := range p.funcsIn("") {
		if !inFS(fn) {
			continue
		}
		for i, prm := range fn.Params {
			if !isFileType(prm.Type()) {
				continue
			}
			ncontract++
			o := ts.owns(fn, i)
			kind := map[fileOwn]string{ownOwns: "takes ownership on every path", ownBorrows: "only borrows", ownMixed: "MIXED", ownBusy: "recursive"}[o]
			r.Check("E1-file", fmt.Sprintf("%s(%s) has a single ownership contract for the file it receives: %s", funcName(fn), prm.Name(), kind), o == ownOwns || o == ownBorrows, p.Pos(fn.Pos()),
				"disposals per return path: "+ts.det[limParam{fn, i}]+" - on some paths the function closes/keeps the file and on others it leaves it to the caller, so one side leaks it or both close it")
		}
	}
	r.Floor("E1-file", "functions receiving a file", ncontract, 3)

	// ---- E1-readers in the handler ----
	if h := p.Func("(*fsHandler).handleRequest"); h != nil {
		dec := p.Func("(*fsFile).decReadersCount")
		const bHave uint64 = 1
		nret, bad := 0, 0
		var wit []string
		detail := ""
		x := NewExplorer(p, h, Hooks{
			Instr: func(x *Explorer, st *State, in ssa.Instruction) {
				c, ok := in.(ssa.CallInstruction)
				if !ok {
					return
				}
				switch {
				case isInvoke(c, "SetFileToCache"):
					st.Set(bHave)
					st.N[0] = 0
				case isCallTo(c, dec):
					st.N[0]++
				case isInvoke(c, "Close") && st.Has(bHave):
					// closing the reader gives the count back (every reader's Close does; checked by R-readers-close)
					st.N[0]++
				default:
					if f := c.Common().StaticCallee(); f != nil && f.Name() == "SetBodyStream" && st.Has(bHave) {
						st.N[0]++ // the response owns the reader now and closes it after writing (C34)
					}
				}
			},
			Branch: func(x *Explorer, st *State, cond ssa.Value, taken bool, from *ssa.BasicBlock) {
				// ff, ok := GetFileFromCache(...): ok true => a unit is held
				pos, v := stripNot(cond)
				if ex, ok := v.(*ssa.Extract); ok && ex.Index == 1 {
					if c, ok := ex.Tuple.(*ssa.Call); ok && isInvoke(c, "GetFileFromCache") && taken == pos {
						st.Set(bHave)
						st.N[0] = 0
					}
					// "rc, ok := r.(io.Closer)" found false: every reader the handler creates is a Closer
					// (assumption recorded in the evidence); the branch has nothing to give back
					if ta, ok := ex.Tuple.(*ssa.TypeAssert); ok && strings.HasSuffix(ta.AssertedType.String(), "io.Closer") && taken != pos && st.Has(bHave) {
						st.N[0]++
					}
				}
			},
			Exit: func(x *Explorer, st *State, ret *ssa.Return, pan *ssa.Panic) {
				if ret == nil || !st.Has(bHave) {
					return
				}
				nret++
				if st.N[0] != 1 {
					bad++
					if wit == nil {
						wit = x.Path(st)
						detail = fmt.Sprintf("the reader count taken for this request is given back %d times on this path", st.N[0])
					}
				}
			},
		})
		x.Filter = noIntFilter
		x.MaxStates = 1500000
		x.Run(nil)
		if x.Aborted {
			r.Undecided("E1-readers", "handleRequest", "state budget exhausted")
		} else {
			r.Check("E1-readers", "fsHandler.handleRequest gives the reader count it took back exactly once on every path", bad == 0 && nret > 0, p.Pos(h.Pos()),
				fmt.Sprintf("%s (%d of %d explored returns): too few and the file is never released, too many and it is closed under a response that still reads it", detail, bad, nret), wit...)
		}
		// every reader's Close gives the count back
		for _, typ := range []string{"bigFileReader", "fsSmallFileReader"} {
			cl := p.Func("(*" + typ + ").Close")
			if cl == nil {
				r.Undecided("E1-readers", typ+".Close", "not found")
				continue
			}
			hit, path := reachAvoiding(cl, nil, isReturn, callTo(dec), nil)
			r.Check("E1-readers", typ+".Close gives the reader count back on every path", hit == nil, p.Pos(cl.Pos()), "a return of Close is reachable without decReadersCount", blocksString(p, path)...)
		}
	} else {
		r.Undecided("E1-readers", "(*fsHandler).handleRequest", "not found")
	}

	// ---- R-rmw ----
	mods := p.modInfo()
	nrmw := 0
	for _, fn := range p.funcsIn("") {
		if !inFS(fn) {
			continue
		}
		for _, b := range fn.Blocks {
			for _, in := range b.Instrs {
				st, ok := in.(*ssa.Store)
				if !ok {
					continue
				}
				_, fv := fieldOfAddr(st.Addr)
				if fv == nil || (fv.Name() != "pendingFiles" && fv.Name() != "bigFiles") {
					continue
				}
				// earlier loads of the same field in this function
				for _, bb := range fn.Blocks {
					for _, i2 := range bb.Instrs {
						u, ok := i2.(*ssa.UnOp)
						if !ok {
							continue
						}
						if _, f2 := loadedField(u); f2 != fv {
							continue
						}
						if !(dominatesInstr(i2, st)) {
							continue
						}
						nrmw++
						writer := func(i ssa.Instruction) bool {
							c, ok := i.(*ssa.Call)
							if !ok {
								return false
							}
							f := c.Call.StaticCallee()
							if f == nil || !inModule(f) {
								return false
							}
							w := mods.of(f)
							return w == nil || w[fv]
						}
						// is a writer call on some path load -> store ?
						hit, _ := reachAvoiding(fn, i2, writer, func(i ssa.Instruction) bool { return i == ssa.Instruction(st) }, nil)
						bad := false
						if hit != nil {
							// and can the store be reached from that call
							if h2, _ := reachAvoiding(fn, hit, func(i ssa.Instruction) bool { return i == ssa.Instruction(st) }, nil, nil); h2 != nil {
								bad = true
							}
						}
						r.Check("R-rmw", fmt.Sprintf("%s: %s is written back before any callee that also writes it is called", funcName(fn), fv.Name()), !bad, p.Pos(st.Pos()),
							"between reading the list and storing its filtered copy the function calls a callee that appends to the same list: those entries are overwritten and the files they track are never released")
					}
				}
			}
		}
	}
	r.Floor("R-rmw", "read-then-write-back sites of tracking lists", nrmw, 3)

	// ---- R-uar: nothing the release disposes of is touched after the reader count was given back ----
	// decReadersCount may be the last reference: the cache manager then calls fsFile.Release, which closes
	// the file and every handle parked in the lists Release walks. A handle parked there afterwards is never closed.
	if rel := p.Func("(*fsFile).Release"); rel != nil {
		disposed := map[*types.Var]bool{}
		var collect func(f *ssa.Function, depth int)
		collect = func(f *ssa.Function, depth int) {
			for _, b := range f.Blocks {
				for _, in := range b.Instrs {
					if fa, ok := in.(*ssa.FieldAddr); ok && typeNameOf(fa.X) == "fsFile" {
						disposed[fieldVar(fa.X.Type(), fa.Field)] = true
					}
					if c, ok := in.(*ssa.Call); ok && depth < 2 {
						if g := c.Call.StaticCallee(); g != nil && inModule(g) {
							collect(g, depth+1)
						}
					}
				}
			}
		}
		collect(rel, 0)
		// keep the fields that are re-assigned on an existing (not freshly allocated) fsFile: only those can change after publication
		mutable := map[*types.Var]bool{}
		for _, fn := range p.funcsIn("") {
			for _, b := range fn.Blocks {
				for _, in := range b.Instrs {
					if st, ok := in.(*ssa.Store); ok {
						if base, fv := fieldOfAddr(st.Addr); fv != nil && disposed[fv] && typeNameOf(base) == "fsFile" {
							if _, fresh := base.(*ssa.Alloc); !fresh {
								mutable[fv] = true
							}
						}
					}
				}
			}
		}
		var names []string
		for fv := range mutable {
			names = append(names, fv.Name())
		}
		sort.Strings(names)
		r.Floor("R-uar", "fields of fsFile that Release walks and that change after publication ("+strings.Join(names, ",")+")", len(mutable), 1)
		touchMemo := map[*ssa.Function]int8{}
		var touches func(f *ssa.Function, depth int) bool
		touches = func(f *ssa.Function, depth int) bool {
			if v, ok := touchMemo[f]; ok {
				return v == 1
			}
			touchMemo[f] = 0
			res := false
			for _, b := range f.Blocks {
				for _, in := range b.Instrs {
					if fa, ok := in.(*ssa.FieldAddr); ok && typeNameOf(fa.X) == "fsFile" && mutable[fieldVar(fa.X.Type(), fa.Field)] {
						res = true
					}
					if c, ok := in.(ssa.CallInstruction); ok && depth < 3 {
						if g := c.Common().StaticCallee(); g != nil && inModule(g) && g != rel && touches(g, depth+1) {
							res = true
						}
					}
				}
			}
			if res {
				touchMemo[f] = 1
			}
			return res
		}
		isDec := func(in ssa.Instruction) bool {
			c, ok := in.(ssa.CallInstruction)
			if !ok {
				return false
			}
			if g := c.Common().StaticCallee(); g != nil {
				return g.Name() == "decReadersCount" && recvTypeName(g) == "fsFile"
			}
			return c.Common().IsInvoke() && c.Common().Method.Name() == "DecReadersCount"
		}
		nuar := 0
		for _, fn := range p.funcsIn("") {
			if !inFS(fn) || fn == rel {
				continue
			}
			if n := fn.Name(); n == "decReadersCount" || n == "DecReadersCount" {
				continue
			}
			for _, b := range fn.Blocks {
				for _, in := range b.Instrs {
					if !isDec(in) {
						continue
					}
					nuar++
					hit, path := reachAvoiding(fn, in, func(i ssa.Instruction) bool {
						if fa, ok := i.(*ssa.FieldAddr); ok && typeNameOf(fa.X) == "fsFile" && mutable[fieldVar(fa.X.Type(), fa.Field)] {
							return true
						}
						if c, ok := i.(ssa.CallInstruction); ok && !isDec(i) {
							if g := c.Common().StaticCallee(); g != nil && inModule(g) && g != rel && touches(g, 1) {
								return true
							}
						}
						return false
					}, nil, nil)
					pos := p.Pos(in.Pos())
					if hit != nil {
						pos = p.Pos(hit.Pos())
					}
					r.Check("R-uar", fmt.Sprintf("%s: after giving the reader count back nothing is parked in (or read from) the lists fsFile.Release walks", funcName(fn)), hit == nil, pos,
						"the reader count is given back (which may release the file and close every parked handle) before this function touches "+strings.Join(names, ",")+": a handle parked after the release is never closed", blocksString(p, path)...)
				}
			}
		}
		r.Floor("R-uar", "decReadersCount call sites", nuar, 4)
	} else {
		r.Undecided("R-uar", "(*fsFile).Release", "not found")
	}

	// ---- E8 ----
	tbl := &lockTable{
		guards: map[string]string{
			"inMemoryCacheManager.cache":        "inMemoryCacheManager.cacheLock",
			"inMemoryCacheManager.cacheBrotli":  "inMemoryCacheManager.cacheLock",
			"inMemoryCacheManager.cacheGzip":    "inMemoryCacheManager.cacheLock",
			"inMemoryCacheManager.cacheZstd":    "inMemoryCacheManager.cacheLock",
			"inMemoryCacheManager.pendingFiles": "inMemoryCacheManager.cacheLock",
			"inMemoryCacheManager.closed":       "inMemoryCacheManager.cacheLock",
			"fsFile.bigFiles":                   "fsFile.bigFilesLock",
		},
		heldOnEntry: map[string][]string{},
		exempt:      map[string]string{},
	}
	for _, fn := range p.funcsIn("") {
		if recvTypeName(fn) == "inMemoryCacheManager" && strings.HasSuffix(fn.Name(), "Nolock") {
			tbl.heldOnEntry[funcName(fn)] = []string{"inMemoryCacheManager.cacheLock"}
		}
		if recvTypeName(fn) == "inMemoryCacheManager" && fn.Name() == "getFsCache" {
			tbl.heldOnEntry[funcName(fn)] = []string{"inMemoryCacheManager.cacheLock"}
		}
	}
	tbl.exempt["newCacheManager"] = "constructor: the manager is not shared yet"
	tbl.exempt["(*fsFile).Release"] = "runs when the file has no readers left and was removed from every list: nobody else holds it"
	checkLockset(p, r, "E8", tbl, inFS)
	closedManagerHoldsNothing(p, r)
	closedFlagRaisedWithTheSweep(p, r)
	fileListedByReaderCount(p, r)
}

// closedManagerHoldsNothing (R-closed): close() empties the cache maps once
// and nothing cleans them afterwards (the cleaner is gone); from then on a
// file is released by whoever gives back its last reader count. So a file put
// into a map of a closed manager would be released under the map's nose and
// found again - closed - by the next lookup-or-insert. Every insertion into a
// map of cached files is made by a method of the manager under a branch on
// which its 'closed' flag was found false.
func closedManagerHoldsNothing(p *Prog, r *Report) {
	n := 0
	for _, fn := range p.funcsIn("") {
		for _, b := range fn.Blocks {
			for _, in := range b.Instrs {
				mu, ok := in.(*ssa.MapUpdate)
				if !ok {
					continue
				}
				mt, ok := mu.Map.Type().Underlying().(*types.Map)
				if !ok || !strings.HasSuffix(mt.Elem().String(), ".fsFile") {
					continue
				}
				n++
				good := false
				var seen []string
				if recvTypeName(fn) == "inMemoryCacheManager" {
					for _, g := range guardsOf(b) {
						seen = append(seen, fmt.Sprintf("%s=%v", g.Atom, g.Pol))
						if g.Atom == "field:inMemoryCacheManager.closed" && !g.Pol {
							good = true
						}
					}
				}
				r.Check("R-closed", fmt.Sprintf("%s: a file is inserted into a cache map only after the manager's closed flag was found false", funcName(fn)), good, p.Pos(mu.Pos()),
					"a file opened after CleanStop/Close is put into a map that nothing cleans any more: the response that opened it releases it when it finishes (closed manager, last reader), the entry stays, and the next request for the path gets the released file back from SetFileToCache - it reads closed handles and closes them a second time", strings.Join(seen, " "))
			}
		}
	}
	r.Floor("R-closed", "insertions into maps of cached files", n, 1)
}

// fileListedByReaderCount (C25.R-count): whether an evicted file is released now or parked until its readers are
// done is decided per file by its reader count. Every append that builds a list of cached files (the list to
// release, or the list of pending files) is control-dependent on a comparison of readersCount - a bulk append
// that moves a whole list across skips the test, and files that responses are still reading get closed.
func fileListedByReaderCount(p *Prog, r *Report) {
	n := 0
	ord := map[*ssa.Function]int{}
	for _, fn := range p.funcsIn("") {
		if recvTypeName(fn) != "inMemoryCacheManager" {
			continue
		}
		for _, b := range fn.Blocks {
			for _, in := range b.Instrs {
				c, ok := in.(*ssa.Call)
				if !ok {
					continue
				}
				bi, ok := c.Call.Value.(*ssa.Builtin)
				if !ok || bi.Name() != "append" || !strings.HasSuffix(c.Type().String(), "[]*"+rootPkg+".fsFile") {
					continue
				}
				n++
				ord[fn]++
				guarded := false
				for _, g := range guardsOfDepth(b, 0) {
					if strings.Contains(g.Atom, "readersCount") {
						guarded = true
					}
				}
				r.Check("R-count", fmt.Sprintf("%s: file-list append #%d is decided by the file's reader count", funcName(fn), ord[fn]), guarded, p.Pos(c.Pos()),
					"files are added to a list without a test of readersCount on the way: a file that a response is still reading is released (its handles closed under the reader) and released a second time when that reader finishes")
			}
		}
	}
	r.Floor("R-count", "appends that build lists of cached files", n, 3)
}

// closedFlagRaisedWithTheSweep (C25.R-atomic): from the moment the manager's closed flag is true, DecReadersCount
// releases a file as soon as its last reader is gone - on the assumption that the maps no longer hold it. Raising the
// flag and emptying the maps are therefore one critical section: from every store of true into the flag no Unlock of
// the cache lock is reachable without the sweep that takes every file out of the maps
// (collectAllFilesToReleaseNolock). In between, a reader that finishes releases a file the sweep then finds again
// and releases a second time.
func closedFlagRaisedWithTheSweep(p *Prog, r *Report) {
	sweep := p.Func("(*inMemoryCacheManager).collectAllFilesToReleaseNolock")
	if sweep == nil {
		r.Undecided("R-atomic", "(*inMemoryCacheManager).collectAllFilesToReleaseNolock", "not found")
		return
	}
	n := 0
	for _, top := range p.funcsIn("") {
		for _, fn := range funcAndClosures(top) {
			for _, b := range fn.Blocks {
				for _, in := range b.Instrs {
					st, ok := in.(*ssa.Store)
					if !ok {
						continue
					}
					base, fv := fieldOfAddr(st.Addr)
					if fv == nil || fv.Name() != "closed" || base == nil || typeNameOf(base) != "inMemoryCacheManager" {
						continue
					}
					if c, isC := st.Val.(*ssa.Const); !isC || c.Value == nil || c.Value.ExactString() != "true" {
						continue
					}
					n++
					hit, path := reachAvoiding(fn, st, func(i ssa.Instruction) bool {
						if isReturn(i) {
							return true
						}
						c, ok := i.(ssa.CallInstruction)
						if !ok {
							return false
						}
						if _, isD := i.(*ssa.Defer); isD {
							return false
						}
						key, op, _ := lockOp(c)
						return op < 0 && strings.HasSuffix(key, "cacheLock")
					}, func(i ssa.Instruction) bool {
						c, ok := i.(ssa.CallInstruction)
						return ok && c.Common().StaticCallee() == sweep
					}, nil)
					if hit != nil {
						// the other order is as good: the sweep ran earlier in the same critical section
						isUnl := func(i ssa.Instruction) bool {
							c, ok := i.(ssa.CallInstruction)
							if !ok {
								return false
							}
							if _, isD := i.(*ssa.Defer); isD {
								return false
							}
							key, op, _ := lockOp(c)
							return op < 0 && strings.HasSuffix(key, "cacheLock")
						}
						for _, b2 := range fn.Blocks {
							for _, i2 := range b2.Instrs {
								c2, ok := i2.(ssa.CallInstruction)
								if !ok || c2.Common().StaticCallee() != sweep || !dominatesInstr(i2, st) {
									continue
								}
								toStore, _ := reachAvoiding(fn, i2, func(i ssa.Instruction) bool { return i == ssa.Instruction(st) }, isUnl, nil)
								viaUnlock, _ := reachAvoiding(fn, i2, isUnl, func(i ssa.Instruction) bool { return i == ssa.Instruction(st) }, nil)
								if toStore != nil && viaUnlock == nil {
									hit, path = nil, nil
								}
							}
						}
					}
					r.Check("R-atomic", funcName(fn)+": the closed flag is raised in the critical section that empties the cache maps", hit == nil, p.Pos(st.Pos()),
						"after closed = true the cache lock is released (or the function returns) before collectAllFilesToReleaseNolock ran: a response that gives back the last reader of a still-listed file in that window releases it (closed manager), and the sweep finds the same file in the map and releases it again - the file and its pooled handles are closed twice", blocksString(p, path)...)
				}
			}
		}
	}
	r.Floor("R-atomic", "stores raising inMemoryCacheManager.closed", n, 1)
}
