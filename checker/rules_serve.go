package main

// Shared path-sensitive exploration of the server's per-connection serve loop.
// One exploration produces the obligations of several properties (C01, C02,
// C10, C11, C14, C15, C16, C17); each property reports the ones that belong
// to it. All anchors are found by role (callee identity, field identity).

import (
	"fmt"
	"go/token"
	"go/types"
	"os"
	"sort"
	"strings"

	"golang.org/x/tools/go/ssa"
)

type finding struct {
	prop, rule, construct string
	ok                    bool
	pos, detail           string
	witness               []string
	undecided             bool
}

type serveResult struct {
	findings     []finding
	counts       map[string]int
	notes        []string
	carriedNames []string
}

const (
	evMayCont uint64 = 1 << iota
	evContRead
	evHandler
	evRespClose
	evWrote
	evFlushedAfterWrite
	evStreamChecked
	evErrResp
	evStopChecked
	evHijackGo
	evTimeoutT
	evFreshCtx
	evCopied
	evNotHTTP11
	evKeepAliveHdr
	evByteOK // a byte-source call executed this iteration
	evReadLoopPending
	evIdleZero   // idle marker currently zero
	evIdleMarked // idle marker set non-zero after the response of this iteration
	evReqReset
	evRespReset
	evHeadSkip   // SkipBody stored true on the HEAD branch
	evHeadTested // IsHead() consulted after the handler
	evIsHead
	evDirty // a response sits in the connection writer and no Flush followed yet (survives iterations)
	evCtxF0 // ctx field #0..#5 may hold what the handler of this iteration put there
	evCtxF1
	evCtxF2
	evCtxF3
	evCtxF4
	evCtxF5
	evReaderBit0
)

// evBuffered: a test of the connection writer found a response still buffered on this path - the next pipelined
// request is already there, the connection is not waiting (bit chosen clear of the per-reader bits).
const evBuffered uint64 = 1 << 61

// serveLoop finds the function that dispatches Server.Handler inside a loop.
func findServeLoop(p *Prog) (fn *ssa.Function, call *ssa.Call, header *ssa.BasicBlock, why string) {
	for _, f := range p.funcsIn("") {
		for _, b := range f.Blocks {
			for _, in := range b.Instrs {
				c, ok := in.(*ssa.Call)
				if !ok || c.Common().StaticCallee() != nil || c.Common().IsInvoke() {
					continue
				}
				if _, fv := loadedField(c.Common().Value); fv != nil && fv.Name() == "Handler" {
					if base, _ := loadedField(c.Common().Value); base != nil && typeNameOf(base) == "Server" {
						if fn != nil && f != fn {
							return nil, nil, nil, "more than one function dispatches Server.Handler"
						}
						fn, call = f, c
					}
				}
			}
		}
	}
	if fn == nil {
		return nil, nil, nil, "no function performs a dynamic call of Server.Handler"
	}
	header = loopHeaderOf(call.Block())
	if header == nil {
		return nil, nil, nil, "Server.Handler is not dispatched inside a loop"
	}
	return fn, call, header, ""
}

// serveFamily is one exploration of the serve loop: the rules it decides and the
// event bits those rules need. Families are explored separately so that the
// state space of each is the CFG times a handful of bits.
type serveFamily struct {
	name     string
	rules    []string // "C02|R1a" prefixes of the check keys it owns
	mask     uint64
	state    bool // tracks the ConnState automaton in N[0]
	carried  bool // tracks loop-carried variable staleness
	readers  bool // tracks reader-call bits
	keepInts bool
}

func (f *serveFamily) owns(key string) bool {
	for _, r := range f.rules {
		if strings.HasPrefix(key, r+"|") {
			return true
		}
	}
	return false
}

func (f *serveFamily) serves(prop string) bool {
	for _, r := range f.rules {
		if strings.HasPrefix(r, prop+"|") {
			return true
		}
	}
	return false
}

var serveFamilies = []*serveFamily{
	{name: "errors", rules: []string{"C01|R2a", "C01|R2b"}, mask: evReadLoopPending | evErrResp, readers: true},
	{name: "body", rules: []string{"C02|R1a", "C02|R1b", "C02|R2"}, mask: evMayCont | evContRead | evRespClose | evHandler | evStreamChecked | evWrote | evCtxSwapped | evTAStale0 | evTAStale0<<1 | evTAStale0<<2 | evTAStale0<<3 | evTAPost0 | evTAPost0<<1 | evTAPost0<<2 | evTAPost0<<3 | evDropNeg},
	{name: "close", rules: []string{"C10|R2a", "C10|R2b", "C10|R2c", "C10|R2d"}, mask: evRespClose | evNotHTTP11 | evKeepAliveHdr | evWrote | evHijackGo},
	{name: "carried", rules: []string{"C11|R-loop", "C11|R-reset", "C07|R-default", "C35|R-reset"}, mask: evHandler | evReqReset | evRespReset, carried: true},
	{name: "connstate", rules: []string{"C14|R1", "C14|R2"}, mask: evByteOK | evHandler, state: true},
	{name: "shutdown", rules: []string{"C15|R3", "C15|R4", "C15|R8"}, mask: evHandler | evWrote | evStopChecked | evIdleZero | evIdleMarked | evDirty | evBuffered},
	{name: "timeout", rules: []string{"C16|R1", "C16|R2", "C16|R3", "C16|R5", "C10|R3"}, mask: evTimeoutT | evFreshCtx | evCopied | evHandler | evCtxSwapped | evTimeoutKnown},
	{name: "hijack", rules: []string{"C17|R1", "C17|R3", "C17|R4"}, mask: evWrote | evFlushedAfterWrite | evHijackGo | evHijackNoResp},
	{name: "head", rules: []string{"C03|R4"}, mask: evHandler | evHeadTested | evIsHead | evHeadSkip},
	{name: "flush", rules: []string{"C15|R5"}, mask: evDirty},
	{name: "ctxstate", rules: []string{"C11|R-ctx", "C17|R6"}, mask: evHandler | evCtxF0 | evCtxF1 | evCtxF2 | evCtxF3 | evCtxF4 | evCtxF5},
}

func (p *Prog) serveLoop(prop string) *serveResult {
	if p.serve == nil {
		p.serve = map[string]*serveResult{}
	}
	if r := p.serve[prop]; r != nil {
		return r
	}
	res := &serveResult{counts: map[string]int{}}
	p.serve[prop] = res
	add := func(prop, rule, construct string, ok bool, pos, detail string, w ...string) {
		res.findings = append(res.findings, finding{prop: prop, rule: rule, construct: construct, ok: ok, pos: pos, detail: detail, witness: w})
	}
	undec := func(prop, rule, construct, why string) {
		res.findings = append(res.findings, finding{prop: prop, rule: rule, construct: construct, undecided: true, detail: why})
	}
	allProps := []string{"C01", "C02", "C10", "C11", "C14", "C15", "C16", "C17", "C03", "C35"}
	fn, hcall, header, why := findServeLoop(p)
	if fn == nil {
		for _, pr := range allProps {
			undec(pr, "serve", "serve loop anchor", why)
		}
		return res
	}
	res.notes = append(res.notes, fmt.Sprintf("serve loop: %s (header block %d, %d blocks); handler dispatch at %s", fn.String(), header.Index, len(fn.Blocks), p.Pos(hcall.Pos())))

	F := func(spec string) *ssa.Function {
		f := p.Func(spec)
		if f == nil {
			for _, pr := range allProps {
				undec(pr, "serve", "anchor "+spec, "function not found in package fasthttp")
			}
		}
		return f
	}
	fMayContinue := F("(*Request).MayContinue")
	fContRead := F("(*Request).ContinueReadBody")
	fContReadS := F("(*Request).ContinueReadBodyStream")
	fReadLimit := F("(*Request).readLimitBody")
	fReadStream := F("(*Request).readBodyStream")
	fHdrRead := F("(*RequestHeader).Read")
	fReadLoop := F("(*RequestHeader).readLoop")
	fParseURI := F("(*Request).parseURI")
	fWriteResp := F("writeResponse")
	fWriteErr := F("(*Server).writeErrorResponse")
	fSetState := F("(*Server).setState")
	fAcquireCtx := F("(*Server).acquireCtx")
	fReleaseCtx := F("(*Server).releaseCtx")
	fHijack := F("hijackConnHandler")
	fFullyRead := F("(*requestStream).fullyRead")
	fRelStream := F("releaseRequestStream")
	fReqReset := F("(*Request).Reset")
	fRespReset := F("(*Response).Reset")
	fSetConnClose := F("(*header).SetConnectionClose")
	fIsHTTP11 := F("(*header).IsHTTP11")
	fSetNonSpecial := F("(*header).setNonSpecial")
	fAcqByte := F("acquireByteReader")
	fRespCopyTo := F("(*Response).CopyTo")
	fReleaseReader := F("releaseReader")
	fIsHead := F("(*RequestCtx).IsHead")
	for _, f := range res.findings {
		if f.undecided {
			return res
		}
	}

	inL := map[*ssa.BasicBlock]bool{}
	for _, b := range fn.Blocks {
		if inLoop(header, b) {
			inL[b] = true
		}
	}
	res.counts["serve loop blocks in loop"] = len(inL)

	// the ctx variable: either an Alloc (address taken) or plain SSA values
	var ctxAlloc *ssa.Alloc
	if u, ok := hcall.Common().Args[0].(*ssa.UnOp); ok && u.Op == token.MUL {
		ctxAlloc, _ = u.X.(*ssa.Alloc)
	}

	// first-level fields of the ctx object that the loop itself stores before dispatching the handler
	// (per-request bookkeeping such as connRequestNum): on a ctx swapped in afterwards they hold reset values
	isCtxLoad := func(v ssa.Value) bool {
		u, ok := v.(*ssa.UnOp)
		return ok && u.Op == token.MUL && ctxAlloc != nil && u.X == ssa.Value(ctxAlloc)
	}
	loopStored := map[*types.Var]bool{}
	for _, b := range fn.Blocks {
		if !inL[b] || !b.Dominates(hcall.Block()) {
			continue
		}
		for _, in := range b.Instrs {
			if st, ok := in.(*ssa.Store); ok {
				if fa, ok := st.Addr.(*ssa.FieldAddr); ok && isCtxLoad(fa.X) {
					if fv := fieldVar(fa.X.Type(), fa.Field); fv != nil {
						loopStored[fv] = true
					}
				}
			}
		}
	}
	res.counts["C16.R3 ctx fields stored by the loop before the handler"] = len(loopStored)
	// fields of RequestCtx that a handler can set through an exported method and that this function reads:
	// per-request state living on an object that is reused for the next request of the connection
	// (Request.Reset / Response.Reset do not touch them, RequestCtx.reset only runs when the ctx is released)
	var ctxFields []*types.Var
	{
		settable := map[*types.Var]string{}
		for _, m := range p.funcsIn("") {
			if recvTypeName(m) != "RequestCtx" || !isExportedAPI(m) || len(m.Params) == 0 {
				continue
			}
			// initialisers (they bind the ctx to a connection or a server; for tests and embedding, not for handlers)
			initialiser := false
			for _, b := range m.Blocks {
				for _, in := range b.Instrs {
					if st, ok := in.(*ssa.Store); ok {
						if fa, ok := st.Addr.(*ssa.FieldAddr); ok && fa.X == ssa.Value(m.Params[0]) {
							ts := fieldVar(fa.X.Type(), fa.Field).Type().String()
							if ts == "net.Conn" || strings.HasSuffix(ts, "fasthttp.Server") {
								initialiser = true
							}
						}
					}
				}
			}
			if initialiser {
				continue
			}
			for _, b := range m.Blocks {
				for _, in := range b.Instrs {
					if st, ok := in.(*ssa.Store); ok {
						if fa, ok := st.Addr.(*ssa.FieldAddr); ok && fa.X == ssa.Value(m.Params[0]) {
							if c, isC := st.Val.(*ssa.Const); isC && (c.Value == nil || c.Value.ExactString() == "false" || c.Value.ExactString() == "0") {
								continue
							}
							if fv := fieldVar(fa.X.Type(), fa.Field); fv != nil && settable[fv] == "" {
								settable[fv] = m.Name()
							}
						}
					}
				}
			}
		}
		readHere := map[*types.Var]bool{}
		for _, b := range fn.Blocks {
			for _, in := range b.Instrs {
				if u, ok := in.(*ssa.UnOp); ok && u.Op == token.MUL {
					if fa, ok := u.X.(*ssa.FieldAddr); ok && typeNameOf(fa.X) == "RequestCtx" {
						if fv := fieldVar(fa.X.Type(), fa.Field); fv != nil {
							readHere[fv] = true
						}
					}
				}
				// a read through a getter of the ctx (the field taken under its lock) is a read of the field
				if c, ok := in.(*ssa.Call); ok {
					if u := getterLoad(c); u != nil {
						if fa, ok := u.X.(*ssa.FieldAddr); ok && typeNameOf(fa.X) == "RequestCtx" {
							if fv := fieldVar(fa.X.Type(), fa.Field); fv != nil {
								readHere[fv] = true
							}
						}
					}
				}
			}
		}
		for fv, by := range settable {
			if readHere[fv] && !loopStored[fv] {
				ctxFields = append(ctxFields, fv)
				_ = by
			}
		}
		sort.Slice(ctxFields, func(i, j int) bool { return ctxFields[i].Name() < ctxFields[j].Name() })
		if len(ctxFields) > 6 {
			ctxFields = ctxFields[:6]
			res.notes = append(res.notes, "R-ctx: more than 6 handler-settable ctx fields are read by the serve loop; only the first 6 (by name) are tracked")
		}
		var names []string
		for _, fv := range ctxFields {
			names = append(names, fv.Name()+" (set by "+settable[fv]+")")
		}
		res.counts["R-ctx handler-settable ctx fields read by the serve loop"] = len(ctxFields)
		res.notes = append(res.notes, "R-ctx fields: "+strings.Join(names, ", "))
	}
	ctxFieldBit := func(fv *types.Var) uint64 {
		for i, f := range ctxFields {
			if f == fv {
				return evCtxF0 << uint(i)
			}
		}
		return 0
	}
	allCtxBits := uint64(0)
	for i := range ctxFields {
		allCtxBits |= evCtxF0 << uint(i)
	}
	staleExempt := map[string]string{
		"time": "only used as the idle-since marker after the response; any non-zero value in the past means idle, which the connection then is",
	}
	// fields of parameter i that a module function reads directly (one level of calls followed)
	var readsOfParam func(f *ssa.Function, i int, depth int) map[*types.Var]bool
	readsOfParam = func(f *ssa.Function, i int, depth int) map[*types.Var]bool {
		out := map[*types.Var]bool{}
		if f == nil || f.Blocks == nil || i >= len(f.Params) || depth > 2 {
			return out
		}
		prm := ssa.Value(f.Params[i])
		for _, b := range f.Blocks {
			for _, in := range b.Instrs {
				switch in := in.(type) {
				case *ssa.UnOp:
					if fa, ok := in.X.(*ssa.FieldAddr); ok && in.Op == token.MUL && fa.X == prm {
						if fv := fieldVar(fa.X.Type(), fa.Field); fv != nil {
							out[fv] = true
						}
					}
				case *ssa.Call:
					if g := in.Call.StaticCallee(); g != nil && inModule(g) {
						for ai, a := range in.Call.Args {
							if a == prm {
								for fv := range readsOfParam(g, ai, depth+1) {
									out[fv] = true
								}
							}
						}
					}
				}
			}
		}
		return out
	}
	staleKeys := []string{"C16|R3|per-request ctx fields are not read from the swapped-in ctx", "C10|R3|close decision does not read per-request fields from the swapped-in ctx"}

	// reader calls whose error must be nil when the handler runs
	var readerCalls []*ssa.Call
	allCalls(fn, func(b *ssa.BasicBlock, c ssa.CallInstruction) {
		cv, ok := c.(*ssa.Call)
		if !ok {
			return
		}
		for _, t := range []*ssa.Function{fHdrRead, fParseURI, fReadLimit, fReadStream, fContRead, fContReadS} {
			if isCallTo(cv, t) {
				readerCalls = append(readerCalls, cv)
			}
		}
	})
	res.counts["C01.R2 reader calls"] = len(readerCalls)
	readerIdx := func(c *ssa.Call) int8 {
		for i, rc := range readerCalls {
			if rc == c {
				return int8(i + 1)
			}
		}
		return 0
	}
	var readLoopCalls []*ssa.Call
	var byteCalls []ssa.Value // error results of byte sources
	allCalls(fn, func(b *ssa.BasicBlock, c ssa.CallInstruction) {
		cv, ok := c.(*ssa.Call)
		if !ok {
			return
		}
		if isCallTo(cv, fReadLoop) {
			readLoopCalls = append(readLoopCalls, cv)
		}
	})

	// type assertions to *requestStream inside the loop (the ways the code finds out whether the body is streamed)
	var streamTAs []*ssa.TypeAssert
	for _, b := range fn.Blocks {
		if !inL[b] {
			continue
		}
		for _, in := range b.Instrs {
			if ta, ok := in.(*ssa.TypeAssert); ok && strings.HasSuffix(ta.AssertedType.String(), "requestStream") {
				streamTAs = append(streamTAs, ta)
			}
		}
	}
	res.counts["C02.R2 request-stream type assertions in the loop"] = len(streamTAs)
	taBit := func(ta *ssa.TypeAssert) uint64 {
		for i, t := range streamTAs {
			if t == ta && i < 4 {
				return evTAStale0 << uint(i)
			}
		}
		return 0
	}

	// fields of Request that its stream closer raises (stores true to): the "an unread stream was dropped" flags
	dropFlags := map[*types.Var]bool{}
	if cbs := p.Func("(*Request).closeBodyStream"); cbs != nil {
		for _, b := range cbs.Blocks {
			for _, in := range b.Instrs {
				if st, ok := in.(*ssa.Store); ok {
					if c, isC := st.Val.(*ssa.Const); isC && c.Value != nil && c.Value.ExactString() == "true" {
						if _, fv := fieldOfAddr(st.Addr); fv != nil {
							dropFlags[fv] = true
						}
					}
				}
			}
		}
	}
	res.counts["C02.R2 drop flags raised by Request.closeBodyStream"] = len(dropFlags)

	// the close decision: condition guarding the server's SetConnectionClose on the response
	var closeCond ssa.Value
	var closeCall *ssa.Call
	allCalls(fn, func(b *ssa.BasicBlock, c ssa.CallInstruction) {
		cv, ok := c.(*ssa.Call)
		if ok && isCallTo(cv, fSetConnClose) && strings.Contains(fieldPath(cv.Call.Args[0]), "Response") && inL[b] {
			closeCall = cv
			if ifi := controllingIf(b); ifi != nil && ifi.Block().Succs[0] == b {
				closeCond = ifi.Cond
			}
		}
	})
	if closeCond == nil {
		undec("C10", "R1", "close decision", "no 'if <cond> { ctx.Response.Header.SetConnectionClose() }' found in the serve loop")
		undec("C02", "R1", "close decision", "no 'if <cond> { ctx.Response.Header.SetConnectionClose() }' found in the serve loop")
	}

	// header phis (loop-carried variables)
	type carried struct {
		phi    *ssa.Phi
		name   string
		init   ssa.Value
		bit    uint64
		exempt string
	}
	var carriedVars []*carried
	exemptCarried := map[string]string{
		"connRequestNum":       "per-connection request counter by design (feeds MaxRequestsPerConn and ctx.connRequestNum)",
		"br":                   "connection-scoped buffered reader: must survive iterations (pipelined data)",
		"bw":                   "connection-scoped buffered writer: holds pipelined responses not flushed yet",
		"err":                  "assigned before every use inside the iteration; a non-nil value leaves the loop",
		"previousWriteTimeout": "tracks the write deadline currently set on the connection, which does outlive the request",
		"ctx":                  "context object is re-initialised by Request.Reset/Response.Reset at the end of each iteration (checked by C11.R-reset)",
		"hijackNoResponse":     "assigned from the context on every iteration before its first use",
	}
	nbit := uint(40)
	for _, in := range header.Instrs {
		phi, ok := in.(*ssa.Phi)
		if !ok {
			break
		}
		name := phi.Comment
		var init ssa.Value
		modified := false
		for i, e := range phi.Edges {
			if inL[header.Preds[i]] {
				if e != ssa.Value(phi) {
					modified = true
				}
			} else {
				init = e
			}
		}
		if !modified {
			continue
		}
		cv := &carried{phi: phi, name: name, init: init, exempt: exemptCarried[name]}
		if cv.exempt == "" && nbit < 62 {
			cv.bit = 1 << nbit
			nbit++
		}
		carriedVars = append(carriedVars, cv)
	}
	res.counts["C11.R-loop loop-carried variables"] = len(carriedVars)

	// --- obligations collected during exploration ---
	type viol struct {
		n       int
		witness []string
		pos     string
		detail  string
	}
	viols := map[string]*viol{}
	seenOb := map[string]int{}
	var x *Explorer
	var cur *serveFamily
	setb := func(st *State, bit uint64) {
		if cur.mask&bit != 0 || (cur.carried && bit >= 1<<40 && bit < 1<<56) {
			st.Set(bit)
		}
	}
	setPending := func(st *State, idx int8) {
		if cur.readers {
			st.N[1] = idx
		}
	}
	setN := func(st *State, v int8) {
		if cur.state {
			st.N[0] = v
		}
	}
	check := func(key string, ok bool, st *State, pos token.Pos, detail string) {
		if !cur.owns(key) {
			return
		}
		seenOb[key]++
		if ok {
			return
		}
		v := viols[key]
		if v == nil {
			v = &viol{pos: p.Pos(pos), detail: detail, witness: x.Path(st)}
			viols[key] = v
		}
		v.n++
	}

	iterBits := evTimeoutKnown | evCtxSwapped | evTAStale0 | evTAStale0<<1 | evTAStale0<<2 | evTAStale0<<3 | evTAPost0 | evTAPost0<<1 | evTAPost0<<2 | evTAPost0<<3 | evDropNeg | evMayCont | evContRead | evHandler | evRespClose | evWrote | evFlushedAfterWrite | evStreamChecked | evErrResp |
		evStopChecked | evTimeoutT | evFreshCtx | evCopied | evNotHTTP11 | evKeepAliveHdr | evByteOK | evReadLoopPending | evIdleMarked |
		evReqReset | evRespReset | evHeadSkip | evHeadTested | evIsHead

	isCtxStore := func(in ssa.Instruction) bool {
		st, ok := in.(*ssa.Store)
		return ok && ctxAlloc != nil && st.Addr == ssa.Value(ctxAlloc)
	}
	var lastAcquire ssa.Value
	var lastWrite ssa.Value
	fRelWriter := p.Func("releaseWriter")
	// helpers that flush the writer on every path (the error response writer)
	flushesAlways := map[*ssa.Function]bool{}
	for _, g := range p.funcsIn("") {
		if g == fn || len(g.Blocks) == 0 {
			continue
		}
		hasFlush := false
		isFlush := func(i ssa.Instruction) bool {
			c, ok := i.(ssa.CallInstruction)
			if !ok {
				return false
			}
			f := c.Common().StaticCallee()
			return f != nil && f.Name() == "Flush" && recvTypeName(f) == "Writer" && f.Pkg != nil && f.Pkg.Pkg.Path() == "bufio"
		}
		allCalls(g, func(b *ssa.BasicBlock, c ssa.CallInstruction) {
			if isFlush(c) {
				hasFlush = true
			}
		})
		if !hasFlush {
			continue
		}
		if hit, _ := reachAvoiding(g, nil, isReturn, isFlush, nil); hit == nil {
			flushesAlways[g] = true
		}
	}
	dirtyCheck := func(xx *Explorer, st *State, pos token.Pos, what string) {
		if cur == nil || cur.name != "flush" {
			return
		}
		bad := st.Has(evDirty)
		if bad && lastWrite != nil && xx.Eval(st, lastWrite) == True {
			bad = false // the write itself failed: the connection is broken
		}
		check("C15|R5|a written response is flushed before the connection writer is dropped on a graceful end", !bad, st, pos,
			what+" while a response written earlier is still buffered and no Flush followed: that response is never delivered")
	}
	var staleUse func(xx *Explorer, st *State, in ssa.Instruction)
	stateOf := func(st *State) int8 { return st.N[0] } // 0 start, 1 active, 2 idle, 3 terminal
	hooks := Hooks{
		Instr: func(xx *Explorer, st *State, in ssa.Instruction) {
			b := in.Block()
			if staleUse != nil {
				staleUse(xx, st, in)
			}
			// a helper method of the ctx that assigns the zero value to such a field on every path clears it as well
			if cc, ok := in.(*ssa.Call); ok && allCtxBits != 0 && st.Ev&allCtxBits != 0 {
				if g := cc.Call.StaticCallee(); g != nil && inModule(g) && recvTypeName(g) == "RequestCtx" && len(g.Params) > 0 {
					w := fieldsWritten(p, g, 0, 3)
					for i, fv := range ctxFields {
						bit := evCtxF0 << uint(i)
						if !st.Has(bit) || !coveredBy(w, fv.Name()) {
							continue
						}
						zeroOnly := true
						for _, gb := range g.Blocks {
							for _, gi := range gb.Instrs {
								if gs, ok := gi.(*ssa.Store); ok {
									if fa, ok := gs.Addr.(*ssa.FieldAddr); ok && fieldVar(fa.X.Type(), fa.Field) == fv {
										if c, isC := gs.Val.(*ssa.Const); !isC || !(c.Value == nil || c.Value.ExactString() == "false" || c.Value.ExactString() == "0") {
											zeroOnly = false
										}
									}
								}
							}
						}
						if zeroOnly {
							st.Clear(bit)
						}
					}
				}
			}
			// a zero value stored into a handler-settable ctx field clears it for the next request
			if sto, ok := in.(*ssa.Store); ok && allCtxBits != 0 {
				if fa, ok := sto.Addr.(*ssa.FieldAddr); ok && typeNameOf(fa.X) == "RequestCtx" {
					if bit := ctxFieldBit(fieldVar(fa.X.Type(), fa.Field)); bit != 0 {
						if c, isC := sto.Val.(*ssa.Const); isC && (c.Value == nil || c.Value.ExactString() == "false" || c.Value.ExactString() == "0") {
							st.Clear(bit)
						}
					}
				}
			}
			// any I/O or release after the hijack hand-off is a violation (C17)
			if st.Has(evHijackGo) {
				if c, ok := in.(ssa.CallInstruction); ok {
					bad := ""
					switch {
					case isCallTo(c, fReleaseCtx):
						bad = "releaseCtx"
					case isCallTo(c, fReleaseReader):
						// releasing a reader is only a violation if it is the one handed over; the loop nils its reference
						bad = "releaseReader"
					case isCallTo(c, fWriteResp), isCallTo(c, fWriteErr):
						bad = "response write"
					case c.Common().IsInvoke() && (strings.HasPrefix(c.Common().Method.Name(), "Set") || c.Common().Method.Name() == "Close" || c.Common().Method.Name() == "Read" || c.Common().Method.Name() == "Write") && typeIsNetConn(c.Common().Value.Type()):
						bad = "conn." + c.Common().Method.Name()
					}
					if bad != "" {
						check("C17|R3|no server use of the connection or the ctx after the hijack hand-off", false, st, in.Pos(), "after 'go hijackConnHandler' the serve function performed "+bad)
					}
				}
			}
			if st.Has(evHandler) && !st.Has(evTimeoutKnown) && inL[b] && cur.name == "timeout" {
				if u, ok := in.(*ssa.UnOp); ok && u.Op == token.MUL {
					if fa, ok := u.X.(*ssa.FieldAddr); ok && isCtxLoad(fa.X) {
						if fv := fieldVar(fa.X.Type(), fa.Field); fv != nil && fv.Name() != "timeoutResponse" {
							check("C16|R5|nothing but timeoutResponse is read from the ctx between the handler's return and the timeout test", false, st, in.Pos(),
								"ctx."+fv.Name()+" is read after the handler returned and before the loop knows whether the handler timed out: on a timeout that ctx still belongs to the late handler, so the value is stale or racing")
						}
					}
				}
			}
			if st.Has(evCtxSwapped) && inL[b] {
				var stale []*types.Var
				switch w := in.(type) {
				case *ssa.UnOp:
					if fa, ok := w.X.(*ssa.FieldAddr); ok && w.Op == token.MUL && isCtxLoad(fa.X) {
						if fv := fieldVar(fa.X.Type(), fa.Field); fv != nil && loopStored[fv] {
							stale = append(stale, fv)
						}
					}
				case *ssa.Call:
					if g := w.Call.StaticCallee(); g != nil && inModule(g) {
						for ai, a := range w.Call.Args {
							if isCtxLoad(a) {
								for fv := range readsOfParam(g, ai, 0) {
									if loopStored[fv] {
										stale = append(stale, fv)
									}
								}
							}
						}
					}
				}
				for _, fv := range stale {
					if staleExempt[fv.Name()] != "" {
						continue
					}
					for _, k := range staleKeys {
						check(k, false, st, in.Pos(), "ctx."+fv.Name()+" is set by the serve loop on the ctx handed to the handler, but is read here after that ctx was exchanged for a fresh one on the timeout path: the fresh ctx holds the reset value")
					}
				}
			}
			if ta, ok := in.(*ssa.TypeAssert); ok {
				if bit := taBit(ta); bit != 0 {
					if st.Has(evCtxSwapped) {
						setb(st, bit)
					} else {
						st.Clear(bit)
					}
					// an assertion made after the handler ran sees what the handler left: it may have dropped the stream
					post := (bit / evTAStale0) * evTAPost0
					if st.Has(evHandler) {
						setb(st, post)
					} else {
						st.Clear(post)
					}
				}
			}
			if isCtxStore(in) && inL[b] {
				if st.Has(evHandler) {
					setb(st, evCtxSwapped)
				}
				// the context object was exchanged: headers set on the old one are gone
				st.Clear(evRespClose | evKeepAliveHdr | evHeadSkip)
				st.Clear(allCtxBits)
				if sv := in.(*ssa.Store).Val; sv == lastAcquire || isCallResultOf(sv, fAcquireCtx) {
					if st.Has(evTimeoutT) {
						setb(st, evFreshCtx)
					}
				}
			}
			if stt, ok := in.(*ssa.Store); ok {
				// ctx.Response.SkipBody = true
				if _, fv := fieldOfAddr(stt.Addr); fv != nil && fv.Name() == "SkipBody" {
					if c, isC := stt.Val.(*ssa.Const); isC && c.Value != nil && c.Value.ExactString() == "true" {
						setb(st, evHeadSkip)
					}
				}
			}
			c, ok := in.(ssa.CallInstruction)
			if !ok {
				return
			}
			cv, _ := in.(*ssa.Call)
			switch {
			case in == ssa.Instruction(hcall):
				// C01.R2a: the error of the last head/body reader was found nil on this path
				if cur.readers {
					last := "?"
					if k := int(st.N[1]); k > 0 && k <= len(readerCalls) {
						last = shortCallee(readerCalls[k-1])
					}
					check("C01|R2a|handler only after the last head/body reader returned nil", st.N[1] == 0, st, in.Pos(),
						"a path reaches the handler dispatch although the error returned by "+last+" was not found to be nil on that path")
				}
				if st.Has(evReadLoopPending) {
					for _, rl := range readLoopCalls {
						a := xx.Eval(st, rl)
						check("C01|R2a|handler only after readLoop returned nil or the head was re-read", a == False, st, in.Pos(),
							"the error of RequestHeader.readLoop is not nil and Read was not called again")
					}
				}
				// C15 idle marker is zero while the handler runs
				check("C15|R4|idle marker is zero while the handler runs", st.Has(evIdleZero), st, in.Pos(),
					"the per-connection idle timestamp is not known to be zero when the handler is dispatched, so Shutdown's idle closer may close a busy connection")
				// C14: handler runs in Active state
				check("C14|R1|handler runs in StateActive", stateOf(st) == 1, st, in.Pos(), "handler dispatched while the reported ConnState is not Active")
				setb(st, evHandler)
				if cur.name == "ctxstate" {
					st.Ev |= allCtxBits
				}
			case isCallTo(c, fIsHTTP11) && inL[b] && st.Has(evHandler) && len(c.Common().Args) > 0 && strings.Contains(fieldPath(c.Common().Args[0]), "Request"):
				// the protocol version that decides the keep-alive header is that of the request that was served
				check("C10|R3|protocol version for the keep-alive header is read from the served request, not from a ctx swapped in after the handler", !st.Has(evCtxSwapped), st, in.Pos(),
					"after a timed-out handler the loop holds a fresh ctx whose Request is empty: IsHTTP11() read from it is always true, so an HTTP/1.0 keep-alive request gets its timeout response without 'Connection: keep-alive' while the connection is kept")
			case isCallTo(c, fMayContinue):
			case isCallTo(c, fContRead), isCallTo(c, fContReadS):
				setb(st, evContRead)
				setPending(st, readerIdx(cv))
			case isCallTo(c, fHdrRead):
				st.Clear(evReadLoopPending)
				setPending(st, readerIdx(cv))
			case isCallTo(c, fReadLoop):
				setb(st, evReadLoopPending)
			case isCallTo(c, fParseURI), isCallTo(c, fReadLimit), isCallTo(c, fReadStream):
				setPending(st, readerIdx(cv))
			case isCallTo(c, fSetConnClose):
				if strings.Contains(fieldPath(c.Common().Args[0]), "Response") {
					setb(st, evRespClose)
				}
			case isCallTo(c, fSetNonSpecial):
				if len(c.Common().Args) >= 3 && globalOf(c.Common().Args[1]) == "strConnection" && globalOf(c.Common().Args[2]) == "strKeepAlive" {
					setb(st, evKeepAliveHdr)
				}
			case isCallTo(c, fWriteErr):
				setb(st, evErrResp)
			case isCallTo(c, fAcquireCtx):
				if inL[b] {
					lastAcquire = cv
				}
			case isCallTo(c, fRespCopyTo):
				if st.Has(evTimeoutT) {
					setb(st, evCopied)
				}
			case isCallTo(c, fReleaseCtx):
				if st.Has(evTimeoutT) && !st.Has(evFreshCtx) {
					check("C16|R2|timed-out ctx is never released by the serve loop", false, st, in.Pos(),
						"releaseCtx is reachable on the timeout path before the ctx was exchanged for a fresh one: the late handler would share a pooled ctx")
				}
			case isCallTo(c, fReqReset):
				setb(st, evReqReset)
			case isCallTo(c, fRespReset):
				setb(st, evRespReset)
			case isCallTo(c, fWriteResp):
				// C02.R1a
				if st.Has(evMayCont) && !st.Has(evContRead) {
					check("C02|R1a|rejected expectation is answered with Connection: close", st.Has(evRespClose), st, in.Pos(),
						"a request with 'Expect: 100-continue' whose body was not read is answered without the server setting Connection: close")
				}
				if closeCond != nil {
					cc := xx.Eval(st, closeCond)
					if cc == True {
						check("C10|R2b|close decision puts Connection: close on the response that is written", st.Has(evRespClose), st, in.Pos(),
							"the close decision is true but SetConnectionClose was not applied to the response object being written")
					}
					if cc == False && st.Has(evNotHTTP11) {
						check("C10|R2c|HTTP/1.0 keep-alive response carries Connection: keep-alive", st.Has(evKeepAliveHdr), st, in.Pos(),
							"non-HTTP/1.1 request kept alive but 'Connection: keep-alive' was not set on the response being written")
					}
				}
				if st.Has(evTimeoutT) {
					check("C16|R1|timeout response is written from a fresh ctx holding a private copy", st.Has(evFreshCtx) && st.Has(evCopied), st, in.Pos(),
						"on the timeoutResponse != nil path the response is written without acquireCtx + CopyTo into the new ctx")
				}
				if st.Has(evHandler) {
					check("C03|R4|HEAD is tested on the served request before the response is written", st.Has(evHeadTested), st, in.Pos(),
						"a path from the handler to the response write does not consult ctx.IsHead()")
					if st.Has(evIsHead) {
						check("C03|R4|HEAD response is written with SkipBody", st.Has(evHeadSkip), st, in.Pos(),
							"IsHead() was true but SkipBody was not set on the response object being written")
					}
				}
				check("C14|R1|response written in StateActive", stateOf(st) == 1, st, in.Pos(), "response written while the reported state is not Active")
				setb(st, evWrote)
				st.Clear(evFlushedAfterWrite)
				setb(st, evDirty)
				lastWrite = c.Value()
			case isCallTo(c, fRelStream):
				if inL[b] {
					check("C02|R2|request stream is only dropped after it was found fully read", st.Has(evStreamChecked), st, in.Pos(),
						"releaseRequestStream is reachable inside the loop on a path where fullyRead() was not consulted with outcome true")
				}
			case isCallTo(c, fAcqByte):
				setb(st, evByteOK)
			case isCallTo(c, fHijack):
				if _, isGo := in.(*ssa.Go); isGo {
					// C17.R1 response flushed first unless suppressed
					check("C17|R1|hijack hand-off happens after the response was written and flushed (unless suppressed)",
						st.Has(evHijackNoResp) || (st.Has(evWrote) && st.Has(evFlushedAfterWrite)), st, in.Pos(),
						"go hijackConnHandler is reachable with the response not written+flushed and HijackSetNoResponse not in effect")
					setb(st, evHijackGo)
				}
			case isCallTo(c, fSetState):
				if k, okk := constInt(c.Common().Args[2]); okk {
					switch k {
					case 1: // StateActive
						check("C14|R1|StateActive follows StateNew or StateIdle", stateOf(st) == 0 || stateOf(st) == 2, st, in.Pos(), "StateActive reported twice in a row")
						check("C14|R2|StateActive only after a byte was received", st.Has(evByteOK) && byteOK(xx, st, byteCalls), st, in.Pos(),
							"StateActive is reachable on a path where no read of at least one byte has succeeded in this iteration")
						setN(st, 1)
					case 2: // StateIdle
						check("C14|R1|StateIdle follows StateActive", stateOf(st) == 1, st, in.Pos(), "StateIdle reported while the state is not Active")
						setN(st, 2)
					default:
						check("C14|R1|serve loop reports only Active/Idle", false, st, in.Pos(), fmt.Sprintf("setState(%d) inside the serve function", k))
					}
				}
			default:
				// stop flag, idle marker, Flush, Peek
				if f := c.Common().StaticCallee(); f != nil {
					switch {
					case f.Name() == "Load" && strings.HasSuffix(fieldPath(c.Common().Args[0]), "stop"):
						if st.Has(evWrote) || st.Has(evHandler) {
							setb(st, evStopChecked)
						}
					case f.Name() == "Store" && recvTypeName(f) == "Int64" && f.Pkg != nil && f.Pkg.Pkg.Path() == "sync/atomic":
						if k, okk := constInt(c.Common().Args[1]); okk && k == 0 {
							setb(st, evIdleZero)
						} else {
							st.Clear(evIdleZero)
							if st.Has(evWrote) || st.Has(evHandler) {
								setb(st, evIdleMarked)
							}
							if cur.name == "shutdown" {
								check("C15|R8|the connection is marked idle only when no response is left in its write buffer", !st.Has(evDirty), st, in.Pos(),
									"the idle timestamp is set while a response written for a pipelined request has not been flushed: Shutdown's idle closer may close the connection, the later flush fails silently and Shutdown returns nil although that response was never delivered")
							}
						}
					case f.Name() == "Flush" && recvTypeName(f) == "Writer":
						if st.Has(evWrote) {
							setb(st, evFlushedAfterWrite)
						}
						st.Clear(evDirty)
					case f == fRelWriter:
						// after the loop the verdict is taken at the return, where the result tells a graceful end from a failure
						if inL[b] {
							dirtyCheck(xx, st, in.Pos(), "the connection writer is given back to its pool")
						}
					case flushesAlways[f]:
						st.Clear(evDirty)
					case f.Name() == "Peek" && recvTypeName(f) == "Reader":
						setb(st, evByteOK)
					}
				}
			}
		},
		Branch: func(xx *Explorer, st *State, cond ssa.Value, taken bool, from *ssa.BasicBlock) {
			pos, v := stripNot(cond)
			tk := taken == pos
			if c, ok := v.(*ssa.Call); ok {
				switch {
				case isCallTo(c, fMayContinue):
					if tk {
						setb(st, evMayCont)
					}
				case isCallTo(c, fFullyRead):
					// fullyRead() on a stream obtained from the swapped-in ctx says nothing about the served request
					stale := false
					if ex, ok := c.Call.Args[0].(*ssa.Extract); ok {
						if ta, ok := ex.Tuple.(*ssa.TypeAssert); ok && st.Has(taBit(ta)) {
							stale = true
						}
					}
					if tk && !stale {
						setb(st, evStreamChecked)
					}
				case isCallTo(c, fIsHead) || (c.Call.StaticCallee() != nil && c.Call.StaticCallee().Name() == "IsHead" && (recvTypeName(c.Call.StaticCallee()) == "RequestHeader" || recvTypeName(c.Call.StaticCallee()) == "header") && strings.Contains(fieldPath(c.Call.Args[0]), "Request")):
					if st.Has(evHandler) {
						setb(st, evHeadTested)
						if tk {
							setb(st, evIsHead)
						}
					}
				case isCallTo(c, fIsHTTP11):
					if !tk && strings.Contains(fieldPath(c.Call.Args[0]), "Request") {
						setb(st, evNotHTTP11)
					}
				}
			}
			// "_, ok := bodyStream.(*requestStream)" false: the served request has no connection-backed
			// stream, provided the assertion looked at the request that was served (not at a ctx swapped in later)
			if ex, ok := v.(*ssa.Extract); ok && ex.Index == 1 {
				if ta, ok := ex.Tuple.(*ssa.TypeAssert); ok {
					if bit := taBit(ta); bit != 0 && !tk && !st.Has(bit) && !st.Has(evWrote) {
						if st.Has((bit / evTAStale0) * evTAPost0) {
							// "no stream" found after the handler: only conclusive together with the drop flag
							setb(st, evDropNeg)
						} else {
							setb(st, evStreamChecked)
						}
					}
				}
			}
			// timeoutResponse != nil
			if bo, ok := v.(*ssa.BinOp); ok && (bo.Op == token.NEQ || bo.Op == token.EQL) && (isNilConst(bo.Y) || isNilConst(bo.X)) {
				o := bo.X
				if isNilConst(bo.X) {
					o = bo.Y
				}
				// "err == nil" found true for the value the pending reader returned
				if cur.readers && st.N[1] > 0 && int(st.N[1]) <= len(readerCalls) {
					isNil := tk == (bo.Op == token.EQL)
					if isNil && xx.resolveAlias(st, o) == ssa.Value(readerCalls[st.N[1]-1]) {
						st.N[1] = 0
					}
				}
				if isFieldOrGetter(o, "timeoutResponse") && inL[from] {
					if st.Has(evHandler) && !st.Has(evTimeoutKnown) {
						check("C16|R5|nothing but timeoutResponse is read from the ctx between the handler's return and the timeout test", true, st, from.Instrs[len(from.Instrs)-1].Pos(), "")
					}
					setb(st, evTimeoutKnown)
					nonNil := tk == (bo.Op == token.NEQ)
					if nonNil {
						setb(st, evTimeoutT)
					}
				}
			}
			// the flag Request.closeBodyStream raises when an unread connection-backed stream is dropped, found false
			if _, fv := loadedField(v); fv != nil && dropFlags[fv] && !tk && st.Has(evDropNeg) && !st.Has(evCtxSwapped) {
				setb(st, evStreamChecked)
			}
			// a handler-settable ctx field found zero holds nothing to clear
			if allCtxBits != 0 {
				tv, zeroWhen := v, false // the value tested and the outcome that means "zero"
				if bo, ok := v.(*ssa.BinOp); ok && (bo.Op == token.EQL || bo.Op == token.NEQ) && (isNilConst(bo.X) || isNilConst(bo.Y)) {
					tv = bo.X
					if isNilConst(bo.X) {
						tv = bo.Y
					}
					zeroWhen = bo.Op == token.EQL
				}
				if c, isCall := tv.(*ssa.Call); isCall {
					if u := getterLoad(c); u != nil && len(c.Call.Args) > 0 && typeNameOf(c.Call.Args[0]) == "RequestCtx" {
						if _, fv := loadedField(u); fv != nil {
							if bit := ctxFieldBit(fv); bit != 0 && tk == zeroWhen {
								st.Clear(bit)
							}
						}
					}
				}
				if _, fv := loadedField(tv); fv != nil {
					if bit := ctxFieldBit(fv); bit != 0 && tk == zeroWhen {
						if base, _ := loadedField(tv); base != nil && typeNameOf(base) == "RequestCtx" {
							st.Clear(bit)
						}
					}
				}
			}
			// an empty or absent connection writer holds no pending response
			if bo, ok := v.(*ssa.BinOp); ok {
				if c, isCall := bo.X.(*ssa.Call); isCall && (bo.Op == token.GTR || bo.Op == token.EQL || bo.Op == token.NEQ) {
					if f := c.Call.StaticCallee(); f != nil && f.Name() == "Buffered" && recvTypeName(f) == "Writer" {
						if k, isK := constInt(bo.Y); isK && k == 0 {
							empty := (bo.Op == token.EQL) == tk
							if bo.Op == token.GTR {
								empty = !tk
							}
							if empty {
								st.Clear(evDirty)
							} else {
								setb(st, evBuffered)
							}
						}
					}
				}
				if (bo.Op == token.EQL || bo.Op == token.NEQ) && (isNilConst(bo.Y) || isNilConst(bo.X)) {
					o := bo.X
					if isNilConst(bo.X) {
						o = bo.Y
					}
					if strings.HasSuffix(o.Type().String(), "bufio.Writer") && tk == (bo.Op == token.EQL) {
						st.Clear(evDirty)
					}
				}
			}
			// hijackNoResponse: the condition guarding the response write block
			if hijackNoRespCond != nil && cond == hijackNoRespCond {
				if taken == hijackNoRespPolarity {
					setb(st, evHijackNoResp)
				}
			}
		},
		Edge: func(xx *Explorer, st *State, from, to *ssa.BasicBlock) {
			if inL[from] && !inL[to] && st.Has(evWrote) && !st.Has(evHijackGo) {
				// ---- the loop is left after a response was written in this iteration ----
				// Exits taken because an I/O step failed, or because of the stop flag (Shutdown closes
				// connections after their response by design), are not the server deciding to close.
				exempt := true
				if iff, ok := from.Instrs[len(from.Instrs)-1].(*ssa.If); ok {
					exempt = false
					_, cv := stripNot(iff.Cond)
					if bo, ok := cv.(*ssa.BinOp); ok && (bo.Op == token.NEQ || bo.Op == token.EQL) {
						o := bo.X
						if isNilConst(bo.X) {
							o = bo.Y
						}
						if (isNilConst(bo.X) || isNilConst(bo.Y)) && strings.HasSuffix(o.Type().String(), "error") {
							exempt = true
						}
					}
					if bo, ok := cv.(*ssa.BinOp); ok {
						for _, o := range []ssa.Value{bo.X, bo.Y} {
							if c, ok := o.(*ssa.Call); ok {
								if f := c.Call.StaticCallee(); f != nil && f.Name() == "Load" && len(c.Call.Args) == 1 && strings.HasSuffix(fieldPath(c.Call.Args[0]), "stop") {
									exempt = true // the stop flag itself, tested directly
								}
							}
						}
					}
					// the branch into the hijack hand-off (which never returns to the loop)
					seen := map[*ssa.BasicBlock]bool{to: true}
					q := []*ssa.BasicBlock{to}
					for len(q) > 0 && !exempt {
						b := q[0]
						q = q[1:]
						for _, in := range b.Instrs {
							if g, ok := in.(*ssa.Go); ok && isCallTo(g, fHijack) {
								exempt = true
							}
						}
						for _, su := range b.Succs {
							if !seen[su] && !inL[su] {
								seen[su] = true
								q = append(q, su)
							}
						}
					}
				}
				if !exempt {
					check("C10|R2d|the connection is closed after a response only when that response said Connection: close", st.Has(evRespClose), st, from.Instrs[len(from.Instrs)-1].Pos(),
						fmt.Sprintf("the loop is left through the branch at the end of block %d (and the connection closed) on a decision taken after the response's Connection header was already chosen: the client was told nothing and loses the request it sends next", from.Index))
				}
			}
			if to == header && inL[from] {
				// ---- back edge: end of one iteration ----
				check("C02|R1b|no further request after a rejected expectation", !(st.Has(evMayCont) && !st.Has(evContRead)), st, from.Instrs[len(from.Instrs)-1].Pos(),
					"the loop continues with the next request although an 'Expect: 100-continue' body was never read")
				if st.Has(evHandler) {
					check("C02|R2|streamed body consumption is consulted before the next request", st.Has(evStreamChecked), st, hcall.Pos(),
						"a path from the handler to the next iteration never consults requestStream.fullyRead() (or finds no request stream)")
					check("C15|R3|stop flag tested after every response", st.Has(evStopChecked), st, hcall.Pos(),
						"a path from the handler to the next iteration does not test s.stop")
					check("C15|R4|idle marker set after the response", st.Has(evIdleMarked) || st.Has(evBuffered), st, hcall.Pos(),
						"the connection goes back to waiting without its idle timestamp being set, so Shutdown cannot close it as idle")
					check("C11|R-reset|request and response are reset before the next request", st.Has(evReqReset) && st.Has(evRespReset), st, hcall.Pos(),
						"a path from the handler to the next iteration does not pass both Request.Reset and Response.Reset")
					check("C35|R-reset|the request (and with it a parsed multipart form) is reset before the next request", st.Has(evReqReset), st, hcall.Pos(),
						"a path from the handler to the next iteration does not pass Request.Reset: temporary files of a parsed form survive into the next request")
					check("C14|R1|iteration ends in StateIdle", stateOf(st) == 2, st, hcall.Pos(), "next request awaited while the reported state is not Idle")
					for i, fv := range ctxFields {
						bit := evCtxF0 << uint(i)
						msg := "RequestCtx." + fv.Name() + " can be set by the handler, is read by the serve loop, and a path to the next request on the same ctx neither clears it nor finds it zero: what one request's handler set decides how a later request is answered"
						check("C11|R-ctx|ctx."+fv.Name()+" does not survive into the next request on the connection", !st.Has(bit), st, hcall.Pos(), msg)
						if strings.HasPrefix(strings.ToLower(fv.Name()), "hijack") {
							check("C17|R6|ctx."+fv.Name()+" set for one request does not suppress or trigger anything for a later one", !st.Has(bit), st, hcall.Pos(), msg)
						}
					}
				}
				if st.Has(evCtxSwapped) {
					for _, k := range staleKeys {
						check(k, true, st, hcall.Pos(), "")
					}
				}
				if cur.readers {
					check("C01|R2a|no further request while a reader error is unexamined", st.N[1] == 0, st, hcall.Pos(),
						"the loop continues with the next request although the error of the last head/body reader was not found nil")
					st.N[1] = 0
				}
				check("C01|R2b|no further request after an error response", !st.Has(evErrResp), st, hcall.Pos(),
					"the loop continues after writeErrorResponse")
				check("C10|R2a|no further request after the server announced Connection: close", !st.Has(evRespClose), st, hcall.Pos(),
					"the loop continues with the next request although SetConnectionClose was applied to the response")
				if closeCond != nil {
					check("C10|R2a|no further request when the close decision is true", xx.Eval(st, closeCond) != True, st, hcall.Pos(),
						"the loop continues although the close decision evaluates to true")
				}
				st.Ev &^= iterBits
				st.Clear(evHijackNoResp)
			}
		},
		PreEdge: func(xx *Explorer, st *State, from, to *ssa.BasicBlock) {
			if to == header && inL[from] && cur.carried {
				// C11.R-loop: dirty determination
				for _, cv := range carriedVars {
					if cv.bit == 0 {
						continue
					}
					var op ssa.Value
					for i, pr := range header.Preds {
						if pr == from {
							op = cv.phi.Edges[i]
						}
					}
					if !carriedClean(xx, st, cv.phi, op, cv.init) {
						if os.Getenv("VDBG_CARRIED") == cv.name {
							fmt.Printf("DIRTY %s op=%s (%s) eval=%v from block %d facts=%v ali=%v\n", cv.name, op.Name(), xx.Canon(op), xx.Eval(st, op), from.Index, st.facts, st.ali)
						}
						setb(st, cv.bit)
					}
				}
			}
		},
		Exit: func(xx *Explorer, st *State, ret *ssa.Return, pan *ssa.Panic) {
			if ret == nil {
				return
			}
			rr := returnResults(ret)
			if len(rr) == 1 && xx.Eval(st, rr[0]) == False {
				// a nil result is the graceful end of the connection
				dirtyCheck(xx, st, ret.Pos(), "the serve function returns nil")
			}
			if st.Has(evHijackGo) {
				check("C17|R3|no server use of the connection or the ctx after the hijack hand-off", true, st, ret.Pos(), "")
				ok := len(rr) == 1 && (globalOf(rr[0]) == "errHijacked" || xx.resolvesToGlobal(st, rr[0], "errHijacked"))
				check("C17|R4|serve function reports errHijacked after the hand-off", ok, st, ret.Pos(), "return value after 'go hijackConnHandler' is not errHijacked, so callers would close the connection")
			} else if len(rr) == 1 {
				check("C17|R4|errHijacked only after a hand-off", globalOf(rr[0]) != "errHijacked" && !xx.resolvesToGlobal(st, rr[0], "errHijacked"), st, ret.Pos(),
					"errHijacked returned on a path without 'go hijackConnHandler': callers would leave the connection open")
			}
		},
	}
	explore := func(fam *serveFamily) bool {
		cur = fam
		byteCalls = nil
		x = NewExplorer(p, fn, hooks)
		x.MaxStates = 3000000
		// values the hooks evaluate must stay alive
		if fam.readers {
			for _, rl := range readLoopCalls {
				x.Track(rl)
			}
		}
		if closeCond != nil && (fam.name == "body" || fam.name == "close") {
			x.Track(closeCond)
		}
		if fam.name == "flush" {
			for _, b := range fn.Blocks {
				for _, in := range b.Instrs {
					if cv, ok := in.(*ssa.Call); ok && isCallTo(cv, fWriteResp) {
						x.Track(cv)
					}
				}
			}
		}
		// byte sources: error results of Peek / acquireByteReader
		for _, b := range fn.Blocks {
			for _, in := range b.Instrs {
				if cv, ok := in.(*ssa.Call); ok {
					f := cv.Call.StaticCallee()
					if f == nil {
						continue
					}
					if f == fAcqByte || (f.Name() == "Peek" && recvTypeName(f) == "Reader") {
						for _, ref := range *cv.Referrers() {
							if ex, ok := ref.(*ssa.Extract); ok && ex.Index == 1 {
								byteCalls = append(byteCalls, ex)
								if fam.state {
									x.Track(ex)
								}
							}
						}
					}
				}
			}
		}
		res.counts["C14.R2 byte sources"] = len(byteCalls)
		// the hijackNoResponse guard: the If controlling the block with writeResponse
		allCalls(fn, func(b *ssa.BasicBlock, c ssa.CallInstruction) {
			if isCallTo(c, fWriteResp) && inL[b] {
				for d := b; d != nil; d = d.Idom() {
					ifi := controllingIf(d)
					if ifi == nil {
						continue
					}
					at := condAtoms(ifi.Cond)
					if hasAtomContaining(at, "hijackNoResponse") {
						hijackNoRespCond = ifi.Cond
						// polarity that SKIPS the write block
						hijackNoRespPolarity = ifi.Block().Succs[1] == d
						if ifi.Block().Succs[0] == d {
							hijackNoRespPolarity = false
						} else {
							hijackNoRespPolarity = true
						}
						return
					}
				}
			}
		})
		// alias tracking for every phi a loop-carried variable can flow through
		aliasPhis := map[*ssa.Phi]bool{}
		carriedOf := map[ssa.Value]*carried{}
		for _, cv := range carriedVars {
			carriedOf[cv.phi] = cv
			if cv.bit != 0 {
				aliasPhis[cv.phi] = true
			}
		}
		for changed := true; changed; {
			changed = false
			for _, b := range fn.Blocks {
				for _, in := range b.Instrs {
					phi, ok := in.(*ssa.Phi)
					if !ok {
						break
					}
					if aliasPhis[phi] {
						continue
					}
					for _, e := range phi.Edges {
						if ep, ok := e.(*ssa.Phi); ok && aliasPhis[ep] {
							aliasPhis[phi] = true
							changed = true
						}
					}
				}
			}
		}
		x.AliasPhis = aliasPhis
		if fam.readers {
			// remember which value each error-typed phi took on the current path
			x.AliasPhis = map[*ssa.Phi]bool{}
			for _, b := range fn.Blocks {
				for _, in := range b.Instrs {
					if ph, ok := in.(*ssa.Phi); ok && strings.HasSuffix(ph.Type().String(), "error") {
						x.AliasPhis[ph] = true
					}
				}
			}
		}
		if fam.name == "hijack" {
			// remember where the returned error came from
			x.AliasPhis = map[*ssa.Phi]bool{}
			var mark func(v ssa.Value)
			mark = func(v ssa.Value) {
				if ph, ok := v.(*ssa.Phi); ok && !x.AliasPhis[ph] {
					x.AliasPhis[ph] = true
					for _, e := range ph.Edges {
						mark(e)
					}
				}
			}
			for _, b := range fn.Blocks {
				if rt, ok := b.Instrs[len(b.Instrs)-1].(*ssa.Return); ok {
					for _, rv := range returnResults(rt) {
						mark(rv)
					}
				}
			}
		}
		res.counts["C11.R-loop phis tracked for staleness"] = len(aliasPhis)
		staleUse = func(xx *Explorer, st *State, in ssa.Instruction) {
			if _, isPhi := in.(*ssa.Phi); isPhi {
				return
			}
			if !inL[in.Block()] {
				return
			}
			var rands []*ssa.Value
			rands = in.Operands(rands)
			for _, rp := range rands {
				if rp == nil || *rp == nil {
					continue
				}
				ph, ok := (*rp).(*ssa.Phi)
				if !ok || !aliasPhis[ph] {
					continue
				}
				v := ssa.Value(ph)
				for i := 0; i < 8; i++ {
					if cv := carriedOf[v]; cv != nil {
						if cv.bit != 0 && st.Has(cv.bit) {
							check("C11|R-loop|per-request variable "+cv.name+" is re-assigned before it is read in a later iteration", false, st, in.Pos(),
								"the value of '"+cv.name+"' computed while serving an earlier request is read while serving a later one")
						} else if cv.bit != 0 {
							check("C11|R-loop|per-request variable "+cv.name+" is re-assigned before it is read in a later iteration", true, st, in.Pos(), "")
						}
						if cv.bit != 0 && strings.Contains(strings.ToLower(cv.name), "bodysize") {
							check("C07|R-default|the body limit used for a request is the override, the server limit or the default of that request, never a value set for an earlier request", !st.Has(cv.bit), st, in.Pos(),
								"the limit variable '"+cv.name+"' still holds the value chosen while serving an earlier request on this connection")
						}
						break
					}
					k, has := st.ali[xx.Canon(v)]
					if !has {
						break
					}
					nv := xx.byKey[k]
					if nv == nil {
						break
					}
					v = nv
				}
			}
		}
		x.Filter = noConfigFilter
		if fam.carried || fam.name == "flush" {
			// two tests of the same configuration field (s.ReduceMemoryUsage) must agree within one iteration
			x.Filter = noIntFilter
			trackConfigNilTests(x)
		}
		x.Run(nil)
		res.counts["serve loop states explored ["+fam.name+"]"] = x.States
		res.counts["serve loop edges explored ["+fam.name+"]"] = x.Edges
		if x.Aborted {
			for _, r := range fam.rules {
				parts := strings.SplitN(r, "|", 2)
				undec(parts[0], parts[1], "serve loop exploration ("+fam.name+")", "state budget exhausted")
			}
			return false
		}
		return true
	}
	nfam := 0
	for _, fam := range serveFamilies {
		if fam.serves(prop) {
			nfam++
			explore(fam)
		}
	}
	res.counts["serve loop rule families explored"] = nfam
	// carried-variable uses: a second, cheap pass is folded into the same exploration through cv.bit;
	// uses are checked structurally here: a non-exempt carried variable may only be used by phis
	for _, cv := range carriedVars {
		if cv.exempt != "" {
			add("C11", "R-loop", "loop-carried variable "+cv.name, true, p.Pos(cv.phi.Pos()), "exempt: "+cv.exempt)
			continue
		}
	}
	for _, cv := range carriedVars {
		res.carriedNames = append(res.carriedNames, cv.name)
	}

	// emit explored obligations
	for key, n := range seenOb {
		parts := strings.SplitN(key, "|", 3)
		v := viols[key]
		if v != nil {
			add(parts[0], parts[1], parts[2], false, v.pos, fmt.Sprintf("%s (%d of %d explored arrivals)", v.detail, v.n, n), v.witness...)
		} else {
			add(parts[0], parts[1], parts[2], true, p.Pos(fn.Pos()), fmt.Sprintf("held on all %d explored arrivals", n))
		}
	}
	// obligations that must have been exercised at least once (otherwise the rule went blind)
	mustSee := []string{
		"C01|R2b|no further request after an error response",
		"C01|R2a|handler only after the last head/body reader returned nil",
		"C01|R2a|no further request while a reader error is unexamined",
		"C02|R1b|no further request after a rejected expectation",
		"C02|R2|streamed body consumption is consulted before the next request",
		"C02|R2|request stream is only dropped after it was found fully read",
		"C10|R2a|no further request after the server announced Connection: close",
		"C15|R3|stop flag tested after every response",
		"C15|R4|idle marker set after the response",
		"C15|R8|the connection is marked idle only when no response is left in its write buffer",
		"C15|R4|idle marker is zero while the handler runs",
		"C11|R-reset|request and response are reset before the next request",
		"C14|R2|StateActive only after a byte was received",
		"C14|R1|StateIdle follows StateActive",
		"C17|R1|hijack hand-off happens after the response was written and flushed (unless suppressed)",
		"C17|R4|serve function reports errHijacked after the hand-off",
		"C17|R3|no server use of the connection or the ctx after the hijack hand-off",
		"C16|R1|timeout response is written from a fresh ctx holding a private copy",
		"C10|R2b|close decision puts Connection: close on the response that is written",
		"C10|R2c|HTTP/1.0 keep-alive response carries Connection: keep-alive",
		"C02|R1a|rejected expectation is answered with Connection: close",
		"C03|R4|HEAD is tested on the served request before the response is written",
		"C03|R4|HEAD response is written with SkipBody",
		"C16|R3|per-request ctx fields are not read from the swapped-in ctx",
		"C16|R5|nothing but timeoutResponse is read from the ctx between the handler's return and the timeout test",
		"C10|R3|close decision does not read per-request fields from the swapped-in ctx",
		"C10|R2d|the connection is closed after a response only when that response said Connection: close",
	}
	for _, k := range mustSee {
		ran := false
		for _, fam := range serveFamilies {
			if fam.owns(k) && fam.serves(prop) {
				ran = true
			}
		}
		if ran && seenOb[k] == 0 {
			parts := strings.SplitN(k, "|", 3)
			undec(parts[0], parts[1], parts[2], "no explored path reached this obligation: the rule's anchors no longer match the serve loop")
		}
	}

	// ---- C16.R7: bookkeeping the serve function keeps on the ctx is put on every ctx a handler can see ----
	if prop == "C16" && ctxAlloc != nil {
		// bookkeeping fields: first-level ctx fields this function assigns a computed (non-constant) value
		book := map[*types.Var]bool{}
		for _, b := range fn.Blocks {
			for _, in := range b.Instrs {
				if st, ok := in.(*ssa.Store); ok {
					if fa, ok := st.Addr.(*ssa.FieldAddr); ok && isCtxLoad(fa.X) {
						if _, isC := st.Val.(*ssa.Const); !isC {
							if fv := fieldVar(fa.X.Type(), fa.Field); fv != nil && ctxFieldBit(fv) == 0 {
								book[fv] = true
							}
						}
					}
				}
			}
		}
		// points where the ctx variable receives a (new) object
		var acq []ssa.Instruction
		for _, b := range fn.Blocks {
			for _, in := range b.Instrs {
				switch w := in.(type) {
				case *ssa.Store:
					if w.Addr == ssa.Value(ctxAlloc) {
						acq = append(acq, in)
					}
				case ssa.CallInstruction:
					for _, a := range w.Common().Args {
						if a == ssa.Value(ctxAlloc) {
							acq = append(acq, in) // &ctx handed to a helper that may replace the object
						}
					}
				}
			}
		}
		var bnames []*types.Var
		for fv := range book {
			bnames = append(bnames, fv)
		}
		sort.Slice(bnames, func(i, j int) bool { return bnames[i].Name() < bnames[j].Name() })
		isH := func(i ssa.Instruction) bool { return i == ssa.Instruction(hcall) }
		for _, fv := range bnames {
			fv := fv
			stores := func(i ssa.Instruction) bool {
				st, ok := i.(*ssa.Store)
				if !ok {
					return false
				}
				fa, ok := st.Addr.(*ssa.FieldAddr)
				return ok && isCtxLoad(fa.X) && fieldVar(fa.X.Type(), fa.Field) == fv
			}
			okAll, pos := true, p.Pos(fn.Pos())
			var wit []string
			for _, a := range acq {
				if hit, path := reachAvoiding(fn, a, isH, stores, nil); hit != nil {
					okAll = false
					pos = p.Pos(a.Pos())
					wit = blocksString(p, path)
					break
				}
			}
			add("C16", "R7", "ctx."+fv.Name()+" is assigned on every path from a point where the ctx object is (re)acquired to the handler dispatch", okAll, pos,
				"the serve function keeps "+fv.Name()+" on the ctx, but a ctx acquired at this point (after a timed-out request, or when the ctx is given up while the connection is idle) reaches a handler without it: later requests on the connection see the zero value", wit...)
		}
		res.counts["C16.R7 bookkeeping fields kept on the ctx"] = len(bnames)
		res.counts["C16.R7 points where the ctx object is (re)acquired"] = len(acq)
		if len(bnames) < 3 || len(acq) < 2 {
			undec("C16", "R7", "ctx bookkeeping", fmt.Sprintf("found %d bookkeeping fields and %d acquisition points: the rule lost its anchors", len(bnames), len(acq)))
		}
	}

	// ---- C10.R1: the close decision depends on every documented source ----
	if closeCond != nil && prop == "C10" {
		at := condAtoms(closeCond)
		req := []struct{ name, sub string }{
			{"Server.DisableKeepalive", "field:Server.DisableKeepalive"},
			{"request Connection: close", "call:header.ConnectionClose[Request"},
			{"response Connection: close set by the handler", "call:header.ConnectionClose[Response"},
			{"MaxRequestsPerConn", "field:Server.MaxRequestsPerConn"},
			{"CloseOnShutdown", "field:Server.CloseOnShutdown"},
			{"stop flag", "call:Int32.Load[stop]"},
			{"ExpectHandler rejection", "dyn:ExpectHandler"},
			{"ContinueHandler rejection", "dyn:ContinueHandler"},
			{"unread streamed body", "call:requestStream.fullyRead"},
			{"streamed body dropped unread by the handler", "bodyStreamUnread"},
		}
		for _, rq := range req {
			add("C10", "R1", "close decision depends on "+rq.name, hasAtomContaining(at, rq.sub), p.Pos(closeCall.Pos()),
				"atoms of the condition guarding SetConnectionClose: "+atomsList(at))
		}
	}
	return res
}

var (
	hijackNoRespCond     ssa.Value
	hijackNoRespPolarity bool
)

const (
	evHijackNoResp uint64 = 1 << 39
	evCtxSwapped   uint64 = 1 << 37 // the ctx variable was re-assigned after the handler ran (timeout hand-off)
	evTAStale0     uint64 = 1 << 32 // 4 bits: type assertion i to *requestStream was made on the swapped ctx
	evTimeoutKnown uint64 = 1 << 36 // the loop has tested ctx.timeoutResponse after the handler
	evTAPost0      uint64 = 1 << 56 // 4 bits: type assertion i to *requestStream was made after the handler returned
	evDropNeg      uint64 = 1 << 60 // a post-handler assertion found no stream; the drop flag has not been consulted yet
)

func typeIsNetConn(t types.Type) bool {
	return strings.HasSuffix(t.String(), "net.Conn")
}

func isCallResultOf(v ssa.Value, fn *ssa.Function) bool {
	c, ok := v.(*ssa.Call)
	return ok && fn != nil && c.Call.StaticCallee() == fn
}

func shortCallee(c *ssa.Call) string {
	if f := c.Call.StaticCallee(); f != nil {
		if rt := recvTypeName(f); rt != "" {
			return rt + "." + f.Name()
		}
		return f.Name()
	}
	return "?"
}

func stripNot(v ssa.Value) (bool, ssa.Value) {
	pos := true
	for {
		u, ok := v.(*ssa.UnOp)
		if !ok || u.Op != token.NOT {
			return pos, v
		}
		pos = !pos
		v = u.X
	}
}

func byteOK(x *Explorer, st *State, errs []ssa.Value) bool {
	// at least one byte-source error result is known nil on this path
	for _, e := range errs {
		if x.Eval(st, e) == False {
			return true
		}
	}
	return false
}

// resolveAlias follows the phi alias chain of v on this path to the value it
// currently stands for.
func (x *Explorer) resolveAlias(st *State, v ssa.Value) ssa.Value {
	for i := 0; i < 10; i++ {
		if _, isPhi := v.(*ssa.Phi); !isPhi {
			return v
		}
		k, ok := st.ali[x.Canon(v)]
		if !ok {
			return v
		}
		nv := x.byKey[k]
		if nv == nil {
			return v
		}
		v = nv
	}
	return v
}

// resolvesToGlobal follows the phi alias chain of v on this path.
func (x *Explorer) resolvesToGlobal(st *State, v ssa.Value, name string) bool {
	for i := 0; i < 8; i++ {
		if globalOf(v) == name {
			return true
		}
		k, ok := st.ali[x.Canon(v)]
		if !ok {
			return false
		}
		nv := x.byKey[k]
		if nv == nil {
			return false
		}
		v = nv
	}
	return false
}

// carriedClean: the value flowing around the back edge is the variable's
// entry value again: the phi itself (unchanged on this path), a constant equal
// to the initial constant, or (bool/nil-able) known to evaluate to the initial
// constant.
func carriedClean(x *Explorer, st *State, phi *ssa.Phi, op, init ssa.Value) bool {
	v := op
	for i := 0; i < 8; i++ {
		if v == ssa.Value(phi) {
			return true
		}
		if c, ok := v.(*ssa.Const); ok {
			if ic, ok := init.(*ssa.Const); ok {
				return (c.Value == nil && ic.Value == nil) || (c.Value != nil && ic.Value != nil && c.Value.ExactString() == ic.Value.ExactString())
			}
			return false
		}
		if isBool(v.Type()) || nilable(v.Type()) {
			if ic, ok := init.(*ssa.Const); ok {
				a := x.Eval(st, v)
				ia := staticAbs(ic)
				if a != Unknown && a == ia {
					return true
				}
			}
		}
		k, ok := st.ali[x.Canon(v)]
		if !ok {
			return false
		}
		nv := x.byKey[k]
		if nv == nil {
			return false
		}
		v = nv
	}
	return false
}

// report copies the findings of one property into its report.
func (res *serveResult) report(r *Report, prop string) {
	n := 0
	for _, f := range res.findings {
		if f.prop != prop {
			continue
		}
		n++
		if f.undecided {
			r.Undecided(f.rule, f.construct, f.detail)
			continue
		}
		r.Check(f.rule, f.construct, f.ok, f.pos, f.detail, f.witness...)
	}
	for k, v := range res.counts {
		r.Counts[k] = v
	}
	r.Notes = append(r.Notes, res.notes...)
	if n == 0 {
		r.Undecided("serve", "serve loop obligations", "the serve loop exploration produced no obligation for this property")
	}
}

// trackConfigNilTests makes the explorer remember the outcome of every nil
// test of a field loaded from a parameter (write-once configuration such as
// s.HeaderReceived), so that the same test correlates across loop iterations.
func trackConfigNilTests(x *Explorer) {
	for _, b := range x.Fn.Blocks {
		ifi, ok := b.Instrs[len(b.Instrs)-1].(*ssa.If)
		if !ok {
			continue
		}
		_, v := stripNot(ifi.Cond)
		bo, ok := v.(*ssa.BinOp)
		if !ok || (bo.Op != token.EQL && bo.Op != token.NEQ) {
			continue
		}
		o := bo.X
		if isNilConst(bo.X) {
			o = bo.Y
		} else if !isNilConst(bo.Y) {
			continue
		}
		if base, fv := loadedField(o); fv != nil {
			if _, isParam := base.(*ssa.Parameter); isParam {
				x.Track(o)
			}
		}
	}
}
