package main

import (
	"go/constant"
	"go/token"
	"go/types"
	"strings"

	"golang.org/x/tools/go/ssa"
)

// calleeOf resolves the static callee of a call (function, method, or the
// function of an immediately-invoked closure). nil for dynamic calls.
func calleeOf(call ssa.CallInstruction) *ssa.Function {
	return call.Common().StaticCallee()
}

// calleeName gives a stable readable name: "pkg.Func", "(*pkg.T).M", or for
// interface invokes "iface:M".
func calleeName(call ssa.CallInstruction) string {
	cc := call.Common()
	if cc.IsInvoke() {
		return "iface:" + cc.Method.Name()
	}
	if f := cc.StaticCallee(); f != nil {
		return f.String()
	}
	if b, ok := cc.Value.(*ssa.Builtin); ok {
		return "builtin:" + b.Name()
	}
	return "dynamic"
}

// isCallTo reports whether call statically calls fn (non-nil).
func isCallTo(call ssa.CallInstruction, fn *ssa.Function) bool {
	return fn != nil && call.Common().StaticCallee() == fn
}

// isMethodCall reports a static call of a method named name on (a pointer to)
// the named type typ of package pkgPath ("" = root package).
func isMethodCall(call ssa.CallInstruction, typ, name string) bool {
	f := call.Common().StaticCallee()
	if f == nil || f.Name() != name || f.Signature.Recv() == nil {
		return false
	}
	return recvTypeName(f) == typ
}

func recvTypeName(f *ssa.Function) string {
	r := f.Signature.Recv()
	if r == nil {
		return ""
	}
	t := r.Type()
	if p, ok := t.(*types.Pointer); ok {
		t = p.Elem()
	}
	if n, ok := t.(*types.Named); ok {
		return n.Obj().Name()
	}
	return ""
}

// isInvoke reports an interface method call with the given method name.
func isInvoke(call ssa.CallInstruction, name string) bool {
	cc := call.Common()
	return cc.IsInvoke() && cc.Method.Name() == name
}

// stdCall reports a static call to a function/method of another package,
// e.g. stdCall(c, "os", "MkdirAll") or stdCall(c, "sync", "Lock") for
// (*sync.Mutex).Lock.
func stdCall(call ssa.CallInstruction, pkgPath, name string) bool {
	f := call.Common().StaticCallee()
	if f == nil || f.Name() != name {
		return false
	}
	if f.Pkg != nil {
		return f.Pkg.Pkg.Path() == pkgPath
	}
	if o := f.Object(); o != nil && o.Pkg() != nil {
		return o.Pkg().Path() == pkgPath
	}
	return false
}

// globalOf returns the name of the package-level variable whose value v is
// (a load of a global), looking through slicing/conversion.
func globalOf(v ssa.Value) string {
	for i := 0; i < 6; i++ {
		switch w := v.(type) {
		case *ssa.UnOp:
			if w.Op == token.MUL {
				if g, ok := w.X.(*ssa.Global); ok {
					return g.Name()
				}
			}
			return ""
		case *ssa.Slice:
			v = w.X
		case *ssa.ChangeType:
			v = w.X
		case *ssa.Convert:
			v = w.X
		case *ssa.MakeInterface:
			v = w.X
		case *ssa.Call:
			// b2s(x) / s2b(x)
			if f := w.Call.StaticCallee(); f != nil && (f.Name() == "b2s" || f.Name() == "s2b") && len(w.Call.Args) == 1 {
				v = w.Call.Args[0]
				continue
			}
			return ""
		default:
			return ""
		}
	}
	return ""
}

// stringConst returns the value of a constant string operand.
func stringConst(v ssa.Value) (string, bool) {
	for i := 0; i < 4; i++ {
		switch w := v.(type) {
		case *ssa.Const:
			if w.Value != nil && w.Value.Kind() == constant.String {
				return constant.StringVal(w.Value), true
			}
			return "", false
		case *ssa.Convert:
			v = w.X
		case *ssa.ChangeType:
			v = w.X
		default:
			return "", false
		}
	}
	return "", false
}

// fieldOfAddr: if addr is &x.f returns (x, field var).
func fieldOfAddr(addr ssa.Value) (ssa.Value, *types.Var) {
	if fa, ok := addr.(*ssa.FieldAddr); ok {
		return fa.X, fieldVar(fa.X.Type(), fa.Field)
	}
	return nil, nil
}

// loadedField: if v is a load *(&x.f) returns the field var and the base.
func loadedField(v ssa.Value) (ssa.Value, *types.Var) {
	if u, ok := v.(*ssa.UnOp); ok && u.Op == token.MUL {
		return fieldOfAddr(u.X)
	}
	if f, ok := v.(*ssa.Field); ok {
		return f.X, fieldVar(f.X.Type(), f.Field)
	}
	return nil, nil
}

// fieldPath renders the chain of field selections of an address or load,
// e.g. "Request.Header.connectionClose" (root omitted).
func fieldPath(v ssa.Value) string {
	var parts []string
	for i := 0; i < 12; i++ {
		switch w := v.(type) {
		case *ssa.UnOp:
			if w.Op == token.MUL {
				v = w.X
				continue
			}
		case *ssa.FieldAddr:
			parts = append([]string{fieldName(w.X.Type(), w.Field)}, parts...)
			v = w.X
			continue
		case *ssa.Field:
			parts = append([]string{fieldNameStruct(w.X.Type(), w.Field)}, parts...)
			v = w.X
			continue
		}
		break
	}
	return strings.Join(parts, ".")
}

// allCalls iterates over every call instruction (call, go, defer) of fn.
func allCalls(fn *ssa.Function, f func(b *ssa.BasicBlock, c ssa.CallInstruction)) {
	for _, b := range fn.Blocks {
		for _, in := range b.Instrs {
			if c, ok := in.(ssa.CallInstruction); ok {
				f(b, c)
			}
		}
	}
}

// funcAndClosures returns fn and all functions literally nested in it.
func funcAndClosures(fn *ssa.Function) []*ssa.Function {
	out := []*ssa.Function{fn}
	for _, a := range fn.AnonFuncs {
		out = append(out, funcAndClosures(a)...)
	}
	return out
}

// reachableFuncs returns the module functions reachable from roots through
// static calls, closures, and interface invokes resolved by method name to
// module implementations (a CHA-like over-approximation), up to maxDepth.
func (p *Prog) reachableFuncs(roots []*ssa.Function, maxDepth int) map[*ssa.Function]int {
	seen := map[*ssa.Function]int{}
	type item struct {
		f *ssa.Function
		d int
	}
	var q []item
	for _, r := range roots {
		if r != nil {
			q = append(q, item{r, 0})
		}
	}
	for len(q) > 0 {
		it := q[0]
		q = q[1:]
		if _, ok := seen[it.f]; ok {
			continue
		}
		seen[it.f] = it.d
		if it.f.Blocks == nil || it.d >= maxDepth {
			continue
		}
		for _, b := range it.f.Blocks {
			for _, in := range b.Instrs {
				switch in := in.(type) {
				case ssa.CallInstruction:
					cc := in.Common()
					if c := cc.StaticCallee(); c != nil {
						q = append(q, item{c, it.d + 1})
					} else if cc.IsInvoke() {
						for _, impl := range p.implementations(cc.Method) {
							q = append(q, item{impl, it.d + 1})
						}
					}
					for _, a := range cc.Args {
						if mc, ok := a.(*ssa.MakeClosure); ok {
							if c, ok := mc.Fn.(*ssa.Function); ok {
								q = append(q, item{c, it.d + 1})
							}
						}
						if c, ok := a.(*ssa.Function); ok {
							q = append(q, item{c, it.d + 1})
						}
					}
				case *ssa.MakeClosure:
					if c, ok := in.Fn.(*ssa.Function); ok {
						q = append(q, item{c, it.d + 1})
					}
				}
			}
		}
	}
	return seen
}

// inModule reports whether fn has source in the analysed module.
func inModule(fn *ssa.Function) bool {
	if fn == nil {
		return false
	}
	q := fn
	for q.Parent() != nil {
		q = q.Parent()
	}
	if q.Pkg == nil {
		if o := q.Object(); o != nil && o.Pkg() != nil {
			return strings.HasPrefix(o.Pkg().Path(), rootPkg)
		}
		return false
	}
	return strings.HasPrefix(q.Pkg.Pkg.Path(), rootPkg)
}

// blockReaches reports whether block "to" is reachable from "from" without
// passing through any block in cut (from itself is not tested against cut).
func blockReaches(from, to *ssa.BasicBlock, cut map[*ssa.BasicBlock]bool) bool {
	seen := map[*ssa.BasicBlock]bool{}
	var stack []*ssa.BasicBlock
	stack = append(stack, from.Succs...)
	for len(stack) > 0 {
		b := stack[len(stack)-1]
		stack = stack[:len(stack)-1]
		if seen[b] || cut[b] {
			continue
		}
		seen[b] = true
		if b == to {
			return true
		}
		stack = append(stack, b.Succs...)
	}
	return false
}

// instrBlockIndex returns the index of in within its block.
func instrIndex(in ssa.Instruction) int {
	for i, x := range in.Block().Instrs {
		if x == in {
			return i
		}
	}
	return -1
}

// dominatesInstr: a executes before b on every path from entry to b.
func dominatesInstr(a, b ssa.Instruction) bool {
	if a.Block() == b.Block() {
		return instrIndex(a) < instrIndex(b)
	}
	return a.Block().Dominates(b.Block())
}

// constInt64 returns an exact integer constant of a types.Const.
func constOfObj(pkg *types.Package, name string) (constant.Value, bool) {
	o := pkg.Scope().Lookup(name)
	c, ok := o.(*types.Const)
	if !ok {
		return nil, false
	}
	return c.Val(), true
}

// unspill looks through go/ssa's "defer-spilled" results: in a function with
// defers a return reads its results back from allocs written just before
// rundefers (*t0 = v; rundefers; t1 = *t0; return t1). It returns v.
func unspill(v ssa.Value) ssa.Value {
	for i := 0; i < 4; i++ {
		w := unspill1(v)
		if w == v {
			return v
		}
		v = w
	}
	return v
}

func unspill1(v ssa.Value) ssa.Value {
	u, ok := v.(*ssa.UnOp)
	if !ok || u.Op != token.MUL {
		return v
	}
	a, ok := u.X.(*ssa.Alloc)
	if !ok {
		return v
	}
	instrs := u.Block().Instrs
	for i := instrIndex(u) - 1; i >= 0; i-- {
		if st, ok := instrs[i].(*ssa.Store); ok && st.Addr == ssa.Value(a) {
			return st.Val
		}
	}
	return v
}

// returnResults lists the (unspilled) result values of a return.
func returnResults(r *ssa.Return) []ssa.Value {
	out := make([]ssa.Value, len(r.Results))
	for i, v := range r.Results {
		out[i] = unspill(v)
	}
	return out
}
