package main

// C01 - request framing. R1: boolflow over the request head field loop;
// R2: serve-loop error handling (shared exploration); R3: chunk framing scanner.

import (
	"fmt"
	"go/token"
	"sort"
	"strings"

	"golang.org/x/tools/go/ssa"
)

func init() {
	register(&propDef{
		id:      "C01",
		explain: "Structural necessary conditions of 'requests are framed as RFC 9112 says or rejected': (R1) exhaustive path exploration of the request head field loop, in the mode the server parses in (special headers on) (the function reachable from RequestHeader.Read that compares field names with Content-Length and Transfer-Encoding): every accepting return (nil error) reached after both a Content-Length and a Transfer-Encoding field, or after a Transfer-Encoding field whose value did not match 'chunked', has connectionClose = true; a second Content-Length or Transfer-Encoding field, and a Transfer-Encoding on an HTTP/1.0 request, never reach an accepting return; every error return has connectionClose = true; (R2) in the serve loop the handler is only dispatched on paths where every head/body reader returned nil, and no iteration follows an error response; (R3) the chunk-size line scanner never skips a byte without having compared it with CR and LF, and every rejection in the chunk decoder returns a non-nil error; (R4) the functions the serve loop calls to read a request body report success without going through the framed-body reader only under a condition on the request's own framing (Expect: 100-continue deferral, declared length) - never on the method or on configuration alone, which would leave a declared body on the connection. (R6) in the request-head functions every comparison of a scanned field name with Content-Length or Transfer-Encoding goes through the case-insensitive comparator, never through an exact byte comparison - field names are case-insensitive on the wire whatever the normalisation setting. (R7) the serve loop gives the connection reader back between requests only on paths that found it empty (br.Buffered() == 0) or an error - read-ahead bytes of the next request would be dropped with it. Not decided: that method/target/body equal the RFC's for the longest accepted prefix; obs-fold and bare-LF treatment in the head (C09).",
		run: func(p *Prog, r *Report) {
			runC01Head(p, r)
			readerReleaseRule(p, r, "C01")
			p.serveLoop("C01").report(r, "C01")
			runC01Chunk(p, r)
			runC01BodyDispatch(p, r)
		},
	})
}

func runC01Head(p *Prog, r *Report) {
	cic := p.Func("caseInsensitiveCompare")
	read := p.Func("(*RequestHeader).Read")
	if cic == nil || read == nil {
		r.Undecided("R1", "anchors caseInsensitiveCompare / RequestHeader.Read", "not found")
		return
	}
	// the field loop(s): functions reachable from Read that compare a key with both names
	var loops []*ssa.Function
	nameCmp := 0
	for f := range p.reachableFuncs([]*ssa.Function{read, p.Func("(*RequestHeader).readLoop")}, 6) {
		if !inModule(f) || f.Blocks == nil || recvTypeName(f) != "RequestHeader" {
			continue
		}
		cl, te := false, false
		allCalls(f, func(b *ssa.BasicBlock, c ssa.CallInstruction) {
			callee := c.Common().StaticCallee()
			if callee == nil || len(c.Common().Args) != 2 {
				return
			}
			exact := callee.Pkg != nil && callee.Pkg.Pkg.Path() == "bytes" && (callee.Name() == "Equal" || callee.Name() == "HasPrefix" || callee.Name() == "Compare")
			if !isCallTo(c, cic) && !exact {
				return
			}
			for _, a := range c.Common().Args {
				g := globalOf(a)
				switch g {
				case "strContentLength":
					cl = true
				case "strTransferEncoding":
					te = true
				default:
					continue
				}
				// R6: field names are case-insensitive on the wire, whatever the normalisation setting
				nameCmp++
				r.Check("R6", fmt.Sprintf("%s: the framing field name %s is matched case-insensitively (comparison #%d)", funcName(f), g, nameCmp), !exact, p.Pos(c.Pos()),
					"the scanned field name is compared with "+g+" through bytes."+callee.Name()+": with header-name normalisation disabled a framing field spelled in another case ('content-length') is stored as an ordinary header, no body is read and the body bytes are parsed as the next request")
			}
		})
		if cl && te {
			loops = append(loops, f)
		}
	}
	r.Floor("R6", "comparisons of a scanned field name with a framing field name", nameCmp, 2)
	r.Floor("R1", "request head field loops", len(loops), 1)
	for _, fn := range loops {
		c01ExploreHead(p, r, fn, cic)
	}
}

func c01ExploreHead(p *Prog, r *Report, fn *ssa.Function, cic *ssa.Function) {
	const (
		bCL uint64 = 1 << iota
		bCL2
		bTE
		bTE2
		bChunked
		bFramingChunked // the code's own framing cell (contentLength) was found equal to -1 (= chunked) by a test on this path
		bInfeasible     // two tests of the same pure expression on the same field line came out differently
	)
	name := funcName(fn)
	cmpGlobal := func(v ssa.Value) string {
		c, ok := v.(*ssa.Call)
		if !ok || !isCallTo(c, cic) {
			return ""
		}
		for _, a := range c.Call.Args {
			if g := globalOf(a); g != "" {
				return g
			}
		}
		return ""
	}
	// loads of h.connectionClose / h.noHTTP11 are evaluated through their memory key
	var recv ssa.Value = fn.Params[0]
	memKey := func(x *Explorer, field string) string {
		for _, b := range fn.Blocks {
			for _, in := range b.Instrs {
				if fa, ok := in.(*ssa.FieldAddr); ok && fieldName(fa.X.Type(), fa.Field) == field && rootOf(fa) == recv {
					return "*(" + x.Canon(fa) + ")"
				}
			}
		}
		return ""
	}
	type tally struct {
		n, bad  int
		wit     []string
		pos     string
		example string
	}
	obs := map[string]*tally{}
	note := func(key string, ok bool, x *Explorer, st *State, pos token.Pos, ex string) {
		t := obs[key]
		if t == nil {
			t = &tally{}
			obs[key] = t
		}
		t.n++
		if !ok {
			t.bad++
			if t.wit == nil {
				t.wit = x.Path(st)
				t.pos = p.Pos(pos)
				t.example = ex
			}
		}
	}
	var closeKey, http10Key string
	// The field loop looks at the name of the current line more than once (a first switch that detects repeated
	// framing fields, a second one that stores the field): the same comparison over the same line must come out the
	// same way within one iteration. shapeOf renders such a test independently of which load instruction fed it;
	// the scanner is only advanced by the loop condition, so the line does not change inside an iteration.
	var shapeOf func(x *Explorer, v ssa.Value, d int) (string, bool)
	shapeOf = func(x *Explorer, v ssa.Value, d int) (string, bool) {
		if d > 6 {
			return "", false
		}
		switch w := v.(type) {
		case *ssa.Const:
			if w.Value == nil {
				return "nil", false
			}
			return w.Value.ExactString(), false
		case *ssa.BinOp:
			a, ea := shapeOf(x, w.X, d+1)
			b, eb := shapeOf(x, w.Y, d+1)
			if a == "" || b == "" {
				return "", false
			}
			return "(" + a + w.Op.String() + b + ")", ea || eb
		case *ssa.Convert:
			return shapeOf(x, w.X, d+1)
		case *ssa.UnOp:
			if w.Op == token.MUL {
				if ia, ok := w.X.(*ssa.IndexAddr); ok {
					idx, _ := shapeOf(x, ia.Index, d+1)
					base, _ := shapeOf(x, ia.X, d+1)
					if idx == "" || base == "" {
						return "", false
					}
					return base + "[" + idx + "]", true
				}
				if fa, ok := w.X.(*ssa.FieldAddr); ok {
					return "*" + x.Canon(fa), false
				}
			}
			return "", false
		case *ssa.Call:
			if isCallTo(w, cic) && len(w.Call.Args) == 2 {
				a, _ := shapeOf(x, w.Call.Args[0], d+1)
				g := globalOf(w.Call.Args[1])
				if g == "" {
					g = globalOf(w.Call.Args[0])
					a, _ = shapeOf(x, w.Call.Args[1], d+1)
				}
				if a == "" || g == "" {
					return "", false
				}
				return "cic(" + a + "," + g + ")", true
			}
			return "", false
		}
		return "", false
	}
	loopHdr := (*ssa.BasicBlock)(nil)
	x := NewExplorer(p, fn, Hooks{
		Prune: func(x *Explorer, st *State, b *ssa.BasicBlock) bool { return st.Has(bInfeasible) },
		Edge: func(x *Explorer, st *State, from, to *ssa.BasicBlock) {
			if loopHdr != nil && to == loopHdr && inLoop(loopHdr, from) {
				for k := range st.facts {
					if strings.HasPrefix(k, "shape:") || strings.HasPrefix(k, "eq:") {
						delete(st.facts, k)
					}
				}
			}
		},
		Branch: func(x *Explorer, st *State, cond ssa.Value, taken bool, from *ssa.BasicBlock) {
			pos, v := stripNot(cond)
			tk := taken == pos
			if sh, elem := shapeOf(x, v, 0); sh != "" && elem {
				key := "shape:" + sh
				if prev, has := st.facts[key]; has && prev != absOf(tk) {
					st.Set(bInfeasible)
				} else {
					x.keep[key] = true
					st.facts[key] = absOf(tk)
				}
				// a byte of the line equals at most one constant
				if bo, ok := v.(*ssa.BinOp); ok && (bo.Op == token.EQL || bo.Op == token.NEQ) {
					if c, isC := bo.Y.(*ssa.Const); isC && c.Value != nil && tk == (bo.Op == token.EQL) {
						if lhs, _ := shapeOf(x, bo.X, 1); lhs != "" {
							pre := "eq:" + lhs + "=="
							mine := pre + c.Value.ExactString()
							for k := range st.facts {
								if k != mine && strings.HasPrefix(k, pre) {
									st.Set(bInfeasible)
								}
							}
							x.keep[mine] = true
							st.facts[mine] = True
						}
					}
				}
				// one line has one name: it cannot equal two different constant names
				if tk && strings.HasPrefix(sh, "cic(") {
					if i := strings.LastIndex(sh, ","); i > 0 {
						pre := "shape:" + sh[:i+1]
						for k, a := range st.facts {
							if a == True && k != key && strings.HasPrefix(k, pre) {
								st.Set(bInfeasible)
							}
						}
					}
				}
			}
			if bo, ok := v.(*ssa.BinOp); ok && (bo.Op == token.EQL || bo.Op == token.NEQ) {
				if k, okc := constInt(bo.Y); okc && k == -1 {
					if _, fv := loadedField(bo.X); fv != nil && fv.Name() == "contentLength" {
						if tk == (bo.Op == token.EQL) {
							st.Set(bFramingChunked)
						} else {
							st.Clear(bFramingChunked)
						}
					}
				}
			}
			if !tk {
				return
			}
			switch cmpGlobal(v) {
			case "strContentLength":
				if st.Has(bCL) {
					st.Set(bCL2)
				}
				st.Set(bCL)
			case "strTransferEncoding":
				if st.Has(bTE) {
					st.Set(bTE2)
				}
				st.Set(bTE)
				st.Clear(bChunked)
			case "strChunked":
				st.Set(bChunked)
			}
		},
		Exit: func(x *Explorer, st *State, ret *ssa.Return, pan *ssa.Panic) {
			if ret == nil {
				return
			}
			rr := returnResults(ret)
			if len(rr) != 2 {
				return
			}
			closeKnown := st.facts[closeKey] == True
			if isNilConst(rr[1]) {
				// accepting return
				if st.Has(bCL) && st.Has(bTE) {
					note("accepted head with both Content-Length and Transfer-Encoding leaves connectionClose set", closeKnown, x, st, ret.Pos(), "")
				}
				if st.Has(bTE) {
					note("accepted head with Transfer-Encoding uses chunked framing (value matched 'chunked' or framing cell tested == -1; no Content-Length) or leaves connectionClose set",
						closeKnown || ((st.Has(bFramingChunked) || st.Has(bChunked)) && !st.Has(bCL)), x, st, ret.Pos(), "")
				}
				if st.Has(bTE) {
					note("an accepted head has at most one Transfer-Encoding field", !st.Has(bTE2), x, st, ret.Pos(), "")
					note("Transfer-Encoding on an HTTP/1.0 request is never accepted", http10Key != "" && st.facts[http10Key] == False, x, st, ret.Pos(), "")
				}
				if st.Has(bCL) {
					note("an accepted head has at most one Content-Length field", !st.Has(bCL2), x, st, ret.Pos(), "")
				}
				note("accepting returns exist", true, x, st, ret.Pos(), "")
			} else {
				note("every rejecting return leaves connectionClose set", closeKnown, x, st, ret.Pos(), "")
			}
		},
	})
	closeKey = memKey(x, "connectionClose")
	http10Key = memKey(x, "noHTTP11")
	if closeKey == "" {
		r.Undecided("R1", name+": connectionClose field", "the field loop never takes the address of connectionClose")
		return
	}
	x.keep = map[string]bool{closeKey: true}
	// the field loop: the loop whose body holds the comparisons with the framing field names
	for _, b := range fn.Blocks {
		for _, in := range b.Instrs {
			if c, ok := in.(*ssa.Call); ok && isCallTo(c, cic) && globalOf(c.Call.Args[1]) == "strTransferEncoding" {
				if h := loopHeaderOf(b); h != nil {
					loopHdr = h
				}
			}
		}
	}
	if http10Key != "" {
		x.keep[http10Key] = true
	}
	// remember only what the rule needs: the two fields, the contentLength cell, and boolean locals
	x.Filter = func(k string) bool {
		// (the two mode switches of the header are not written while a head is parsed: two tests of them agree)
		return strings.Contains(k, ".connectionClose@") || strings.Contains(k, ".noHTTP11@") || strings.Contains(k, ".contentLength@") ||
			strings.Contains(k, ".disableSpecialHeader@") || strings.Contains(k, ".secureErrorLogMessage@") || strings.HasPrefix(k, "shape:") || strings.HasPrefix(k, "eq:") ||
			strings.HasPrefix(k, "v<") || strings.HasPrefix(k, "ld<") || strings.HasPrefix(k, "call<") || strings.HasPrefix(k, "!(") || strings.HasPrefix(k, "(")
	}
	x.TrackAll = true
	x.MaxStates = 3000000
	// the head is parsed in the mode the server uses: special headers on (RequestHeader.Reset switches the
	// client-side DisableSpecialHeader option off - C11.E7 - and the serve loop resets the request before it parses)
	init := &State{facts: map[string]Abs{}, ints: map[string]int64{}}
	if k := memKey(x, "disableSpecialHeader"); k != "" {
		x.keep[k] = true
		init.facts[k] = False
	}
	x.Run(init)
	r.Counts["R1 "+name+" states explored"] = x.States
	if x.Aborted {
		r.Undecided("R1", name+": exploration", "state budget exhausted")
		return
	}
	// the framing cell is set to -1 (chunked) only under a true comparison of the field value with 'chunked'
	nst := 0
	for _, b := range fn.Blocks {
		for _, in := range b.Instrs {
			st, ok := in.(*ssa.Store)
			if !ok {
				continue
			}
			if _, fv := fieldOfAddr(st.Addr); fv == nil || fv.Name() != "contentLength" {
				continue
			}
			if k, okc := constInt(st.Val); !okc || k != -1 {
				continue
			}
			nst++
			guarded := false
			for _, g := range guardsOf(b) {
				if g.Pol && cmpGlobal(g.Cond) == "strChunked" {
					guarded = true
				}
				// isChunked may reach the branch through a phi/negation: accept a condition whose atoms are the chunked comparison
				if g.Pol && strings.Contains(g.Atom, "caseInsensitiveCompare") {
					if cv := findCallIn(g.Cond); cv != nil && cmpGlobal(cv) == "strChunked" {
						guarded = true
					}
				}
			}
			r.Check("R1", name+": framing is switched to chunked (contentLength = -1) only under a true comparison of the value with 'chunked'", guarded, p.Pos(st.Pos()),
				"a store of -1 to contentLength is not control-dependent on caseInsensitiveCompare(value, strChunked) being true")
		}
	}
	r.Floor("R1", name+" stores switching framing to chunked", nst, 1)
	must := []string{
		"accepted head with both Content-Length and Transfer-Encoding leaves connectionClose set",
		"accepted head with Transfer-Encoding uses chunked framing (value matched 'chunked' or framing cell tested == -1; no Content-Length) or leaves connectionClose set",
		"an accepted head has at most one Transfer-Encoding field",
		"an accepted head has at most one Content-Length field",
		"Transfer-Encoding on an HTTP/1.0 request is never accepted",
		"every rejecting return leaves connectionClose set",
		"accepting returns exist",
	}
	for _, k := range must {
		t := obs[k]
		if t == nil {
			r.Undecided("R1", name+": "+k, "no explored path reached this obligation")
			continue
		}
		r.Check("R1", name+": "+k, t.bad == 0, t.pos, fmt.Sprintf("%d of %d explored return arrivals violate it", t.bad, t.n), t.wit...)
	}
}

// runC01Chunk: the chunk framing scanner.
func runC01Chunk(p *Prog, r *Report) {
	fn := p.Func("parseChunkSize")
	hex := p.Func("readHexInt")
	if fn == nil || hex == nil {
		r.Undecided("R3", "anchors parseChunkSize / readHexInt", "not found")
		return
	}
	// the byte variable: result #0 of ReadByte calls inside a loop
	var reads []*ssa.Call
	allCalls(fn, func(b *ssa.BasicBlock, c ssa.CallInstruction) {
		if cv, ok := c.(*ssa.Call); ok {
			if f := cv.Call.StaticCallee(); f != nil && f.Name() == "ReadByte" && loopHeaderOf(b) != nil {
				reads = append(reads, cv)
			}
		}
	})
	r.Floor("R3", "ReadByte calls in the chunk-size line loop", len(reads), 1)
	const (
		bCR uint64 = 1 << iota
		bLF
	)
	for _, rd := range reads {
		var byteVal ssa.Value
		for _, ref := range *rd.Referrers() {
			if ex, ok := ref.(*ssa.Extract); ok && ex.Index == 0 {
				byteVal = ex
			}
		}
		if byteVal == nil {
			r.Undecided("R3", "byte read in parseChunkSize", "result of ReadByte is not extracted")
			continue
		}
		header := loopHeaderOf(rd.Block())
		n, bad := 0, 0
		var wit []string
		pos := ""
		x := NewExplorer(p, fn, Hooks{
			Instr: func(x *Explorer, st *State, in ssa.Instruction) {
				if in == ssa.Instruction(rd) {
					st.Clear(bCR | bLF)
				}
			},
			Branch: func(x *Explorer, st *State, cond ssa.Value, taken bool, from *ssa.BasicBlock) {
				ps, v := stripNot(cond)
				bo, ok := v.(*ssa.BinOp)
				if !ok || (bo.Op != token.EQL && bo.Op != token.NEQ) {
					return
				}
				var k int64
				var okc bool
				if bo.X == byteVal {
					k, okc = constInt(bo.Y)
				} else if bo.Y == byteVal {
					k, okc = constInt(bo.X)
				}
				if !okc {
					return
				}
				equal := (taken == ps) == (bo.Op == token.EQL)
				if !equal {
					switch k {
					case '\r':
						st.Set(bCR)
					case '\n':
						st.Set(bLF)
					}
				}
			},
			Edge: func(x *Explorer, st *State, from, to *ssa.BasicBlock) {
				if to == header && inLoop(header, from) {
					n++
					if !(st.Has(bCR) && st.Has(bLF)) {
						bad++
						if wit == nil {
							wit = x.Path(st)
							pos = p.Pos(from.Instrs[len(from.Instrs)-1].Pos())
						}
					}
				}
			},
		})
		x.Filter = func(k string) bool { return strings.HasPrefix(k, "v<") }
		x.Run(nil)
		r.Check("R3", "parseChunkSize: a byte of the chunk-size line is only skipped after it was compared with CR and with LF", bad == 0 && n > 0, pos,
			fmt.Sprintf("%d of %d explored loop continuations skip a byte that was not tested against '\\r' and '\\n': a bare line terminator inside the chunk-size line (e.g. in a chunk extension) would be accepted and frame the message differently from a peer that ends the line there", bad, n), wit...)
	}
	// every "return" of the chunk decoder family that follows a failed comparison returns a non-nil error:
	// decided as: no return of (n, nil) is reachable from the entry without passing readHexInt and the CRLF reader
	crlf := p.Func("readCrLf")
	hit, path := reachAvoiding(fn, nil, func(in ssa.Instruction) bool {
		rt, ok := in.(*ssa.Return)
		if !ok {
			return false
		}
		rr := returnResults(rt)
		return len(rr) == 2 && isNilConst(rr[1])
	}, callTo(crlf), nil)
	r.Check("R3", "parseChunkSize: the accepting return is only reached through the CRLF reader", hit == nil && crlf != nil, p.Pos(fn.Pos()),
		"a nil-error return of parseChunkSize is reachable without passing readCrLf", blocksString(p, path)...)
}

// findCallIn returns the call a (possibly negated) boolean value is.
func findCallIn(v ssa.Value) ssa.Value {
	_, w := stripNot(v)
	if c, ok := w.(*ssa.Call); ok {
		return c
	}
	return nil
}

// runC01BodyDispatch (R4): the body readers the serve loop calls directly (they
// receive the connection reader and the size limit) either hand the reader to
// a framed-body reader and return its verdict, return an error, or - when they
// return nil on their own - do so under a condition that depends on the
// framing the request declared (MayContinue / Content-Length). A success
// return that depends only on the method or on configuration leaves a declared
// body unread on the connection, where the loop parses it as the next request.
func runC01BodyDispatch(p *Prog, r *Report) {
	loop, _, _, why := findServeLoop(p)
	if loop == nil {
		r.Undecided("R4", "serve loop", why)
		return
	}
	disp := map[*ssa.Function]bool{}
	allCalls(loop, func(b *ssa.BasicBlock, c ssa.CallInstruction) {
		f := c.Common().StaticCallee()
		if f == nil || !inModule(f) || recvTypeName(f) != "Request" {
			return
		}
		hasReader, hasInt := false, false
		for _, prm := range f.Params {
			if strings.HasSuffix(prm.Type().String(), "bufio.Reader") {
				hasReader = true
			}
			if isIntType(prm.Type()) {
				hasInt = true
			}
		}
		res := f.Signature.Results()
		if hasReader && hasInt && res.Len() == 1 && strings.HasSuffix(res.At(0).Type().String(), "error") {
			disp[f] = true
		}
	})
	r.Floor("R4", "body readers dispatched by the serve loop", len(disp), 2)
	var fns []*ssa.Function
	for f := range disp {
		fns = append(fns, f)
	}
	sort.Slice(fns, func(i, j int) bool { return fns[i].Pos() < fns[j].Pos() })
	for _, f := range fns {
		var rd *ssa.Parameter
		for _, prm := range f.Params {
			if strings.HasSuffix(prm.Type().String(), "bufio.Reader") {
				rd = prm
			}
		}
		nret, nnil := 0, 0
		for _, b := range f.Blocks {
			rt, ok := b.Instrs[len(b.Instrs)-1].(*ssa.Return)
			if !ok {
				continue
			}
			rr := returnResults(rt)
			if len(rr) != 1 {
				continue
			}
			nret++
			v := rr[0]
			verdict, detail := false, ""
			switch w := v.(type) {
			case *ssa.Call:
				// the verdict of a callee that was given the reader
				for _, a := range w.Call.Args {
					if a == ssa.Value(rd) {
						verdict = true
					}
				}
				detail = "returns the result of " + calleeName(w) + ", which is not handed the connection reader"
			case *ssa.Const:
				if w.Value == nil {
					var atoms []string
					for _, g := range guardsOf(b) {
						atoms = append(atoms, g.Atom)
						if strings.Contains(g.Atom, "MayContinue") || strings.Contains(strings.ToLower(g.Atom), "contentlength") {
							verdict = true
						}
					}
					detail = "returns nil without reading a body under: " + strings.Join(atoms, ", ")
				}
			default:
				// an error value (package-level error, wrapped error): a rejection
				verdict = globalOf(v) != "" || !isNilConst(v)
				if _, isPhi := v.(*ssa.Phi); isPhi {
					verdict = false
					detail = "returns a merged value"
				}
			}
			what := "rejection"
			switch w := v.(type) {
			case *ssa.Call:
				what = "verdict of " + shortType(calleeName(w))
			case *ssa.Const:
				nnil++
				what = fmt.Sprintf("own success return #%d", nnil)
			default:
				if g := globalOf(v); g != "" {
					what = "rejection " + g
				}
			}
			r.Check("R4", fmt.Sprintf("%s: %s is a rejection, the framed-body reader's verdict, or a success that depends on the declared framing", funcName(f), what), verdict, p.Pos(rt.Pos()),
				detail+": a request that declares a body is reported as read although its body is still on the connection, so the next request is parsed from body bytes")
		}
		if nret == 0 {
			r.Undecided("R4", funcName(f), "no return found")
		}
	}
}
