package main

// C37 - data-race discipline: guarded-by table (lockset), atomic consistency,
// immutability of published entries.

import (
	"fmt"
	"go/token"
	"go/types"
	"sort"
	"strings"

	"golang.org/x/tools/go/ssa"
)

func init() {
	register(&propDef{
		id:      "C37",
		explain: "Structural necessary conditions of race freedom for the state fasthttp itself shares between goroutines (a discipline check, not a race detector): (E8) every access to a field in the guarded-by table happens with its mutex held - the table was discovered from field/lock co-occurrence statistics over the whole module, confirmed entry by entry by reading, and is frozen in the checker with one reason per exemption; helper functions documented to run with the lock held are analysed with the lock held and every call site is checked to hold it; (atomic) a field that is accessed through sync/atomic functions anywhere is accessed only through them; (publish) objects that are read without a lock after publication (DNS cache entries in a sync.Map) have their payload fields assigned only while freshly allocated, never after they became reachable by other goroutines. The table is extended on every run with the Server fields that RequestCtx methods read (handler goroutines, which may outlive their connection after TimeoutError) and that Server methods assign: their plain accesses must hold Server.mu (a field of an atomic type has none). (R-own) no store into a pointer-, channel-, map-, slice- or interface-typed field of a RequestCtx takes its value from the same field of another RequestCtx (connection-level fields excepted, each with a reason): the ctx left with a timed-out handler goroutine and the fresh ctx of the connection goroutine never share a completion channel or timer. (R-embed) the embedded connection of a pooled per-IP wrapper - read without a lock by the compiler-generated promoted methods - is assigned only in a function that has just taken the wrapper from its pool or allocated it; (R-item) in the pipeline client's call paths a work item goes back to its pool only if it was never queued or its completion was received - between those points the connection goroutines own it. Not decided: state outside the table, user handlers, happens-before through channels, the schedules a race detector would need.",
		run:     runC37,
	})
}

func runC37(p *Prog, r *Report) {
	ctxFieldsNotShared(p, r)
	wrapperConnWrittenOnlyWhenPrivate(p, r)
	// a pipelined work item is shared with the connection goroutines from the moment it is queued until its completion
	// is received: giving it back to the pool in between hands it to the next caller while they still use it
	runPipelineCaller(p, r, "C37")
	// a connection's buffered reader goes back to the shared pool between requests only when no body stream handed to
	// a handler still reads through it: otherwise two connection goroutines use one bufio.Reader (shared with C02.R5)
	readerReleaseRule(p, r, "C37")
	tbl := &lockTable{
		guards: map[string]string{
			// worker pool
			"workerPool.ready":        "workerPool.lock",
			"workerPool.workersCount": "workerPool.lock",
			"workerPool.mustStop":     "workerPool.lock",
			// host client pool
			"HostClient.conns":           "HostClient.connsLock",
			"HostClient.connsCount":      "HostClient.connsLock",
			"HostClient.connsWait":       "HostClient.connsLock",
			"HostClient.connsCleanerRun": "HostClient.connsLock",
			"HostClient.addrs":           "HostClient.addrsLock",
			"HostClient.addrIdx":         "HostClient.addrsLock",
			"HostClient.tlsConfigMap":    "HostClient.tlsConfigMapLock",
			// load balancer, pipeline client
			"LBClient.cs":                  "LBClient.mu",
			"pipelineConnClient.chs":       "pipelineConnClient.chLock",
			"pipelineConnChannels.users":   "pipelineConnClient.chLock",
			"pipelineConnClient.tlsConfig": "pipelineConnClient.tlsConfigLock",
			"PipelineClient.connClients":   "PipelineClient.connClientsLock",
			// server
			"Server.idleConns":  "Server.idleConnsMu",
			"Server.doneClosed": "Server.mu",
			"Server.ln":         "Server.mu",
			// the timeout response of a ctx: installed by a handler goroutine that may have outlived its timeout,
			// read by the connection goroutine
			"RequestCtx.timeoutResponse": "RequestCtx.timeoutLock",
			// per-IP accounting
			"perIPConnCounter.m": "perIPConnCounter.lock",
			// FS
			"inMemoryCacheManager.pendingFiles": "inMemoryCacheManager.cacheLock",
			"inMemoryCacheManager.closed":       "inMemoryCacheManager.cacheLock",
			"fsFile.bigFiles":                   "fsFile.bigFilesLock",
			"fileLock.refs":                     "global.filesLockMu",
			// compressed stream wrapper
			"compressedBodyStream.originalClosed": "compressedBodyStream.originalLock",
			// in-memory listener / pipe
			"InmemoryListener.closed":       "InmemoryListener.lock",
			"InmemoryListener.listenerAddr": "InmemoryListener.addrLock",
			"pipeConn.localAddr":            "pipeConn.addrLock",
			"pipeConn.remoteAddr":           "pipeConn.addrLock",
			"pipeConn.readDeadlineCh":       "pipeConn.readDeadlineChLock",
		},
		heldOnEntry: map[string][]string{
			"(*Server).closeListenersLocked":                           {"Server.mu"},
			"(*HostClient).startConnsCleanerLocked":                    {"HostClient.connsLock"},
			"(*PipelineClient).getConnClientUnlocked":                  {"PipelineClient.connClientsLock"},
			"(*PipelineClient).newConnClient":                          {"PipelineClient.connClientsLock"},
			"(*inMemoryCacheManager).addFileToReleaseNolock":           {"inMemoryCacheManager.cacheLock"},
			"(*inMemoryCacheManager).collectAllFilesToReleaseNolock":   {"inMemoryCacheManager.cacheLock"},
			"(*inMemoryCacheManager).collectCacheFilesToReleaseNolock": {"inMemoryCacheManager.cacheLock"},
			"(*inMemoryCacheManager).removePendingFileNolock":          {"inMemoryCacheManager.cacheLock"},
			"(*inMemoryCacheManager).cleanCacheNolock":                 {"inMemoryCacheManager.cacheLock"},
		},
		exempt: map[string]string{
			"newCacheManager":   "constructor: not shared yet",
			"(*fsFile).Release": "runs only once no reader and no list refers to the file any more",
			"(*RequestCtx).reset": "runs when the ctx goes back to its pool: releaseCtx has just checked, under the lock, that no timeout response was installed, i.e. no handler goroutine was left behind with the ctx",
		},
	}
	// Server fields that RequestCtx methods read (on handler goroutines, which may outlive their connection after
	// TimeoutError) and that Server methods assign while serving: every plain access must hold Server.mu. (A field of
	// an atomic type has no plain accesses and passes; the compiler keeps its users on Load/Store.)
	{
		read := map[string]string{}
		written := map[string]bool{}
		for _, fn := range p.funcsIn("") {
			rt := recvTypeName(fn)
			for _, b := range fn.Blocks {
				for _, in := range b.Instrs {
					switch w := in.(type) {
					case *ssa.UnOp:
						if fa, ok := w.X.(*ssa.FieldAddr); ok && w.Op == token.MUL && typeNameOf(fa.X) == "Server" && rt == "RequestCtx" {
							read[fieldName(fa.X.Type(), fa.Field)] = funcName(fn)
						}
					case *ssa.Store:
						if fa, ok := w.Addr.(*ssa.FieldAddr); ok && typeNameOf(fa.X) == "Server" && rt == "Server" {
							written[fieldName(fa.X.Type(), fa.Field)] = true
						}
					}
				}
			}
		}
		n := 0
		for f, by := range read {
			if !written[f] {
				continue
			}
			n++
			if _, has := tbl.guards["Server."+f]; !has {
				tbl.guards["Server."+f] = "Server.mu"
			}
			r.Note("Server.%s is read by %s and assigned by Server methods: required to be accessed under Server.mu", f, by)
		}
		r.Counts["Server fields read by RequestCtx methods"] = len(read)
		r.Counts["... of which assigned by Server methods (lock required)"] = n
	}
	checkLockset(p, r, "E8", tbl, nil)
	r.Counts["E8 guarded-by table entries"] = len(tbl.guards)

	// ---- atomic consistency ----
	atomicFields := map[string]bool{}
	addrOfField := func(v ssa.Value) string {
		if fa, ok := v.(*ssa.FieldAddr); ok {
			return typeNameOf(fa.X) + "." + fieldName(fa.X.Type(), fa.Field)
		}
		return ""
	}
	for _, fn := range p.SrcFuncs() {
		allCalls(fn, func(b *ssa.BasicBlock, c ssa.CallInstruction) {
			f := c.Common().StaticCallee()
			if f == nil || f.Pkg == nil || f.Pkg.Pkg.Path() != "sync/atomic" || f.Signature.Recv() != nil || len(c.Common().Args) == 0 {
				return
			}
			if k := addrOfField(c.Common().Args[0]); k != "" {
				atomicFields[k] = true
			}
		})
	}
	type plain struct {
		n   int
		pos string
		fns map[string]bool
	}
	viol := map[string]*plain{}
	for _, fn := range p.SrcFuncs() {
		for _, b := range fn.Blocks {
			for _, in := range b.Instrs {
				var fa *ssa.FieldAddr
				switch w := in.(type) {
				case *ssa.Store:
					fa, _ = w.Addr.(*ssa.FieldAddr)
				case *ssa.UnOp:
					if w.Op == token.MUL {
						fa, _ = w.X.(*ssa.FieldAddr)
					}
				}
				if fa == nil {
					continue
				}
				k := addrOfField(fa)
				if !atomicFields[k] {
					continue
				}
				// object under construction
				if al, ok := fa.X.(*ssa.Alloc); ok && al.Parent() == fn {
					continue
				}
				// a reset of a pooled object before it is published again (value stored is zero)
				if st, ok := in.(*ssa.Store); ok {
					if c, isC := st.Val.(*ssa.Const); isC && (c.Value == nil || c.Value.ExactString() == "0") && (strings.Contains(strings.ToLower(fn.Name()), "reset") || strings.Contains(strings.ToLower(fn.Name()), "release") || strings.Contains(strings.ToLower(fn.Name()), "acquire")) {
						continue
					}
				}
				v := viol[k]
				if v == nil {
					v = &plain{fns: map[string]bool{}}
					viol[k] = v
				}
				v.n++
				v.fns[funcName(fn)] = true
				if v.pos == "" {
					v.pos = p.Pos(in.Pos())
				}
			}
		}
	}
	var afs []string
	for k := range atomicFields {
		afs = append(afs, k)
	}
	sort.Strings(afs)
	for _, k := range afs {
		v := viol[k]
		if why := atomicExempt(k); why != "" && v != nil {
			r.Note("atomic exempt %s: %s", k, why)
			v = nil
		}
		if v == nil {
			r.Check("atomic", k+" is only accessed through sync/atomic", true, "-", "")
		} else {
			r.Check("atomic", k+" is only accessed through sync/atomic", false, v.pos, fmt.Sprintf("%d plain loads/stores in %s: a plain access next to atomic ones is a data race", v.n, joinSorted(v.fns)))
		}
	}
	r.Floor("atomic", "fields accessed through sync/atomic functions", len(afs), 5)

	// ---- publish-immutability of DNS cache entries ----
	{
		n := 0
		for _, fn := range p.SrcFuncs() {
			for _, b := range fn.Blocks {
				for _, in := range b.Instrs {
					st, ok := in.(*ssa.Store)
					if !ok {
						continue
					}
					fa, ok := st.Addr.(*ssa.FieldAddr)
					if !ok || typeNameOf(fa.X) != "tcpAddrEntry" {
						continue
					}
					f := fieldName(fa.X.Type(), fa.Field)
					if f != "addrs" && f != "resolveTime" {
						continue
					}
					n++
					_, fresh := fa.X.(*ssa.Alloc)
					r.Check("publish", fmt.Sprintf("%s assigns tcpAddrEntry.%s only on a freshly allocated entry", funcName(fn), f), fresh, p.Pos(st.Pos()),
						"the payload of a DNS cache entry is written after the entry may already be visible to other goroutines, which read it without a lock: replace the entry instead of refreshing it in place")
				}
			}
		}
		r.Floor("publish", "payload assignments of tcpAddrEntry", n, 2)
	}
}

func atomicExempt(k string) string {
	switch k {
	}
	return ""
}

// ctxFieldsNotShared (C37.R-own): two RequestCtx objects never come to share
// a mutable helper. After a timeout the connection goroutine continues with a
// fresh ctx while the old one stays with the handler goroutine that is still
// running; whatever the old ctx signals on or writes through (its completion
// channel, its timer) must stay its own. No store into a field of a RequestCtx
// takes its value from a load of the same field of another RequestCtx, unless
// the field holds immutable or connection-level data (listed with a reason).
func ctxFieldsNotShared(p *Prog, r *Report) {
	shared := map[string]string{
		"s":              "the server: one per ctx by design, immutable pointer",
		"c":              "the connection: the fresh ctx serves the same connection",
		"logger":         "connection-level logger",
		"connID":         "connection number (value)",
		"connTime":       "connection start (value)",
		"connRequestNum": "request counter (value)",
		"remoteAddr":     "connection address (value semantics)",
	}
	n := 0
	for _, fn := range p.funcsIn("") {
		for _, b := range fn.Blocks {
			for _, in := range b.Instrs {
				st, ok := in.(*ssa.Store)
				if !ok {
					continue
				}
				fa, ok := st.Addr.(*ssa.FieldAddr)
				if !ok || typeNameOf(fa.X) != "RequestCtx" {
					continue
				}
				fv := fieldVar(fa.X.Type(), fa.Field)
				// the value: a load of the same field through another base
				var src *ssa.FieldAddr
				seen := map[ssa.Value]bool{}
				var find func(v ssa.Value)
				find = func(v ssa.Value) {
					if v == nil || seen[v] {
						return
					}
					seen[v] = true
					switch w := v.(type) {
					case *ssa.UnOp:
						if f2, ok := w.X.(*ssa.FieldAddr); ok && w.Op == token.MUL && fieldVar(f2.X.Type(), f2.Field) == fv && f2.X != fa.X {
							src = f2
						}
					case *ssa.Phi:
						for _, e := range w.Edges {
							find(e)
						}
					case *ssa.Extract:
						// multiple assignment a, b = x.a, x.b
					}
				}
				find(st.Val)
				if src == nil {
					continue
				}
				n++
				why, ok := shared[fv.Name()]
				if ok {
					r.Check("R-own", fmt.Sprintf("%s: RequestCtx.%s copied from another ctx", funcName(fn), fv.Name()), true, p.Pos(st.Pos()), "allowed: "+why)
					continue
				}
				kind := "value"
				switch fv.Type().Underlying().(type) {
				case *types.Chan:
					kind = "channel"
				case *types.Pointer:
					kind = "pointer"
				case *types.Map:
					kind = "map"
				case *types.Slice:
					kind = "slice"
				case *types.Interface:
					kind = "interface value"
				}
				if kind == "value" {
					r.Check("R-own", fmt.Sprintf("%s: RequestCtx.%s copied from another ctx", funcName(fn), fv.Name()), true, p.Pos(st.Pos()), "plain value: nothing is shared")
					continue
				}
				r.Check("R-own", fmt.Sprintf("%s: RequestCtx.%s copied from another ctx", funcName(fn), fv.Name()), false, p.Pos(st.Pos()),
					fmt.Sprintf("two RequestCtx objects now hold the same %s: the ctx left with a still-running (timed-out) handler goroutine and the ctx the connection goroutine goes on with signal, wait or write through one object - a late completion of the old handler is taken for the new request's, and both goroutines then use one ctx unsynchronised", kind))
			}
		}
	}
	r.Counts["R-own copies of a RequestCtx field from another ctx"] = n
}

// wrapperConnWrittenOnlyWhenPrivate (C37.R-embed): the serving goroutine reads the embedded connection of a per-IP
// wrapper through the promoted methods (Read, SetReadDeadline ...) - in compiler-generated code that takes no lock -
// while another goroutine (Shutdown closing idle connections, a handler closing its own connection) may call Close.
// The embedded connection field is therefore assigned only where the wrapper is private: in a function that has
// just taken it from its pool or allocated it. Close must leave the field alone.
func wrapperConnWrittenOnlyWhenPrivate(p *Prog, r *Report) {
	isWrapper := func(t types.Type) bool {
		if pt, ok := t.Underlying().(*types.Pointer); ok {
			t = pt.Elem()
		}
		st, ok := t.Underlying().(*types.Struct)
		if !ok {
			return false
		}
		for i := 0; i < st.NumFields(); i++ {
			if strings.HasSuffix(st.Field(i).Type().String(), "*"+rootPkg+".perIPConnCounter") {
				return true
			}
		}
		return false
	}
	n := 0
	for _, fn := range p.funcsIn("") {
		takes := false
		allCalls(fn, func(b *ssa.BasicBlock, c ssa.CallInstruction) {
			if f := c.Common().StaticCallee(); f != nil && f.Name() == "Get" && recvTypeName(f) == "Pool" {
				takes = true
			}
		})
		for _, b := range fn.Blocks {
			for _, in := range b.Instrs {
				st, ok := in.(*ssa.Store)
				if !ok {
					continue
				}
				fa, ok := st.Addr.(*ssa.FieldAddr)
				if !ok || !isWrapper(fa.X.Type()) {
					continue
				}
				fv := fieldVar(fa.X.Type(), fa.Field)
				if fv == nil || !fv.Embedded() {
					continue
				}
				n++
				_, fresh := fa.X.(*ssa.Alloc)
				r.Check("R-embed", fmt.Sprintf("%s: the embedded connection of a pooled wrapper is assigned only where the wrapper is private", funcName(fn)), takes || fresh, p.Pos(st.Pos()),
					"the embedded connection is assigned in a function that neither took the wrapper from its pool nor allocated it: the serving goroutine reads that field without a lock on every promoted call, so the assignment races with it (and a later promoted call finds a nil connection)")
			}
		}
	}
	r.Floor("R-embed", "assignments of a wrapper's embedded connection", n, 2)
}
