package main

// C37 - data-race discipline: guarded-by table (lockset), atomic consistency,
// immutability of published entries.

import (
	"fmt"
	"go/token"
	"sort"
	"strings"

	"golang.org/x/tools/go/ssa"
)

func init() {
	register(&propDef{
		id:      "C37",
		explain: "Structural necessary conditions of race freedom for the state fasthttp itself shares between goroutines (a discipline check, not a race detector): (E8) every access to a field in the guarded-by table happens with its mutex held - the table was discovered from field/lock co-occurrence statistics over the whole module, confirmed entry by entry by reading, and is frozen in the checker with one reason per exemption; helper functions documented to run with the lock held are analysed with the lock held and every call site is checked to hold it; (atomic) a field that is accessed through sync/atomic functions anywhere is accessed only through them; (publish) objects that are read without a lock after publication (DNS cache entries in a sync.Map) have their payload fields assigned only while freshly allocated, never after they became reachable by other goroutines. Not decided: state outside the table, user handlers, happens-before through channels, the schedules a race detector would need.",
		run:     runC37,
	})
}

func runC37(p *Prog, r *Report) {
	tbl := &lockTable{
		guards: map[string]string{
			// worker pool
			"workerPool.ready":        "workerPool.lock",
			"workerPool.workersCount": "workerPool.lock",
			"workerPool.mustStop":     "workerPool.lock",
			// host client pool
			"HostClient.conns":           "HostClient.connsLock",
			"HostClient.connsCount":      "HostClient.connsLock",
			"HostClient.connsWait":       "HostClient.connsLock",
			"HostClient.connsCleanerRun": "HostClient.connsLock",
			"HostClient.addrs":           "HostClient.addrsLock",
			"HostClient.addrIdx":         "HostClient.addrsLock",
			"HostClient.tlsConfigMap":    "HostClient.tlsConfigMapLock",
			// load balancer, pipeline client
			"LBClient.cs":                  "LBClient.mu",
			"pipelineConnClient.chs":       "pipelineConnClient.chLock",
			"pipelineConnChannels.users":   "pipelineConnClient.chLock",
			"pipelineConnClient.tlsConfig": "pipelineConnClient.tlsConfigLock",
			"PipelineClient.connClients":   "PipelineClient.connClientsLock",
			// server
			"Server.idleConns":  "Server.idleConnsMu",
			"Server.doneClosed": "Server.mu",
			"Server.ln":         "Server.mu",
			// per-IP accounting
			"perIPConnCounter.m": "perIPConnCounter.lock",
			// FS
			"inMemoryCacheManager.pendingFiles": "inMemoryCacheManager.cacheLock",
			"inMemoryCacheManager.closed":       "inMemoryCacheManager.cacheLock",
			"fsFile.bigFiles":                   "fsFile.bigFilesLock",
			"fileLock.refs":                     "global.filesLockMu",
			// compressed stream wrapper
			"compressedBodyStream.originalClosed": "compressedBodyStream.originalLock",
			// in-memory listener / pipe
			"InmemoryListener.closed":       "InmemoryListener.lock",
			"InmemoryListener.listenerAddr": "InmemoryListener.addrLock",
			"pipeConn.localAddr":            "pipeConn.addrLock",
			"pipeConn.remoteAddr":           "pipeConn.addrLock",
			"pipeConn.readDeadlineCh":       "pipeConn.readDeadlineChLock",
		},
		heldOnEntry: map[string][]string{
			"(*Server).closeListenersLocked":                           {"Server.mu"},
			"(*PipelineClient).getConnClientUnlocked":                  {"PipelineClient.connClientsLock"},
			"(*PipelineClient).newConnClient":                          {"PipelineClient.connClientsLock"},
			"(*inMemoryCacheManager).addFileToReleaseNolock":           {"inMemoryCacheManager.cacheLock"},
			"(*inMemoryCacheManager).collectAllFilesToReleaseNolock":   {"inMemoryCacheManager.cacheLock"},
			"(*inMemoryCacheManager).collectCacheFilesToReleaseNolock": {"inMemoryCacheManager.cacheLock"},
			"(*inMemoryCacheManager).removePendingFileNolock":          {"inMemoryCacheManager.cacheLock"},
			"(*inMemoryCacheManager).cleanCacheNolock":                 {"inMemoryCacheManager.cacheLock"},
		},
		exempt: map[string]string{
			"newCacheManager":   "constructor: not shared yet",
			"(*fsFile).Release": "runs only once no reader and no list refers to the file any more",
		},
	}
	checkLockset(p, r, "E8", tbl, nil)
	r.Counts["E8 guarded-by table entries"] = len(tbl.guards)

	// ---- atomic consistency ----
	atomicFields := map[string]bool{}
	addrOfField := func(v ssa.Value) string {
		if fa, ok := v.(*ssa.FieldAddr); ok {
			return typeNameOf(fa.X) + "." + fieldName(fa.X.Type(), fa.Field)
		}
		return ""
	}
	for _, fn := range p.SrcFuncs() {
		allCalls(fn, func(b *ssa.BasicBlock, c ssa.CallInstruction) {
			f := c.Common().StaticCallee()
			if f == nil || f.Pkg == nil || f.Pkg.Pkg.Path() != "sync/atomic" || f.Signature.Recv() != nil || len(c.Common().Args) == 0 {
				return
			}
			if k := addrOfField(c.Common().Args[0]); k != "" {
				atomicFields[k] = true
			}
		})
	}
	type plain struct {
		n   int
		pos string
		fns map[string]bool
	}
	viol := map[string]*plain{}
	for _, fn := range p.SrcFuncs() {
		for _, b := range fn.Blocks {
			for _, in := range b.Instrs {
				var fa *ssa.FieldAddr
				switch w := in.(type) {
				case *ssa.Store:
					fa, _ = w.Addr.(*ssa.FieldAddr)
				case *ssa.UnOp:
					if w.Op == token.MUL {
						fa, _ = w.X.(*ssa.FieldAddr)
					}
				}
				if fa == nil {
					continue
				}
				k := addrOfField(fa)
				if !atomicFields[k] {
					continue
				}
				// object under construction
				if al, ok := fa.X.(*ssa.Alloc); ok && al.Parent() == fn {
					continue
				}
				// a reset of a pooled object before it is published again (value stored is zero)
				if st, ok := in.(*ssa.Store); ok {
					if c, isC := st.Val.(*ssa.Const); isC && (c.Value == nil || c.Value.ExactString() == "0") && (strings.Contains(strings.ToLower(fn.Name()), "reset") || strings.Contains(strings.ToLower(fn.Name()), "release") || strings.Contains(strings.ToLower(fn.Name()), "acquire")) {
						continue
					}
				}
				v := viol[k]
				if v == nil {
					v = &plain{fns: map[string]bool{}}
					viol[k] = v
				}
				v.n++
				v.fns[funcName(fn)] = true
				if v.pos == "" {
					v.pos = p.Pos(in.Pos())
				}
			}
		}
	}
	var afs []string
	for k := range atomicFields {
		afs = append(afs, k)
	}
	sort.Strings(afs)
	for _, k := range afs {
		v := viol[k]
		if why := atomicExempt(k); why != "" && v != nil {
			r.Note("atomic exempt %s: %s", k, why)
			v = nil
		}
		if v == nil {
			r.Check("atomic", k+" is only accessed through sync/atomic", true, "-", "")
		} else {
			r.Check("atomic", k+" is only accessed through sync/atomic", false, v.pos, fmt.Sprintf("%d plain loads/stores in %s: a plain access next to atomic ones is a data race", v.n, joinSorted(v.fns)))
		}
	}
	r.Floor("atomic", "fields accessed through sync/atomic functions", len(afs), 5)

	// ---- publish-immutability of DNS cache entries ----
	{
		n := 0
		for _, fn := range p.SrcFuncs() {
			for _, b := range fn.Blocks {
				for _, in := range b.Instrs {
					st, ok := in.(*ssa.Store)
					if !ok {
						continue
					}
					fa, ok := st.Addr.(*ssa.FieldAddr)
					if !ok || typeNameOf(fa.X) != "tcpAddrEntry" {
						continue
					}
					f := fieldName(fa.X.Type(), fa.Field)
					if f != "addrs" && f != "resolveTime" {
						continue
					}
					n++
					_, fresh := fa.X.(*ssa.Alloc)
					r.Check("publish", fmt.Sprintf("%s assigns tcpAddrEntry.%s only on a freshly allocated entry", funcName(fn), f), fresh, p.Pos(st.Pos()),
						"the payload of a DNS cache entry is written after the entry may already be visible to other goroutines, which read it without a lock: replace the entry instead of refreshing it in place")
				}
			}
		}
		r.Floor("publish", "payload assignments of tcpAddrEntry", n, 2)
	}
}

func atomicExempt(k string) string {
	switch k {
	}
	return ""
}
