package main

// C07 - size limits: limit-flow (E6).

import (
	"fmt"
	"go/token"
	"go/types"
	"sort"
	"strings"

	"golang.org/x/tools/go/ssa"
)

func init() {
	register(&propDef{
		id:      "C07",
		explain: "Structural necessary conditions of 'configured size limits bound what is buffered': (E6) limit-flow: starting from the fields Server.MaxRequestBodySize / HostClient.MaxResponseBodySize / RequestConfig.MaxRequestBodySize and the limit parameters of the exported *WithLimit / ReadLimitBody / ContinueReadBody entry points, every module function parameter that receives a limit is found by propagation through static calls; each such function either compares the limit in a branch condition, stores it into the N of an io.LimitedReader, or forwards it to a callee that itself does - a function that receives a limit and drops it is a violation; every function that compares a limit has a return of ErrBodyTooLarge (or of an error wrapping it) control-dependent on such a comparison; (R-default) in the serve loop the value handed to the body readers is, on every path of every iteration, the per-request override, the server limit, or the default - a value set while serving an earlier request is never read for a later one - and the connection-level value replaces a non-positive server limit by the default before the loop; (R-431) the default error handler answers 431 for a too-small read buffer, and the error response path sets Connection: close. (R-fwd) the value a limit-receiving function passes on to a limit-taking callee is the received limit on every path: it is never merged with a non-positive constant ('unlimited') except where the received limit itself was found non-positive. (R-cached) every successful return of MultipartFormWithLimit is reached only through a branch on the limit - a form parsed earlier is subject to it too; (R-full) headerError reports io.EOF only on paths that compared the read error with bufio.ErrBufferFull; (R-prefit) in a function that receives a body limit, the call that reads a multipart form ahead of the handler is reached only through a branch on that limit; (R-ident) BodyUncompressedWithLimit returns a body without Content-Encoding only on paths that compared something with the limit. Not decided: the numeric peak of buffered bytes; streamed bodies (unlimited by design).",
		run:     runC07,
	})
}

type limParam struct {
	fn  *ssa.Function
	idx int
}

func runC07(p *Prog, r *Report) {
	identityBodyLimited(p, r)
	preParseUnderTheLimit(p, r)
	fullBufferIsNeverEOF(p, r)
	cachedFormLimited(p, r)
	// ---- E6: find limit-receiving parameters ----
	lims := map[limParam]bool{}
	var work []limParam
	add := func(f *ssa.Function, i int) {
		if f == nil || !inModule(f) || f.Blocks == nil || i >= len(f.Params) || !isIntType(f.Params[i].Type()) {
			return
		}
		k := limParam{f, i}
		if !lims[k] {
			lims[k] = true
			work = append(work, k)
		}
	}
	limitFields := map[string]bool{"MaxRequestBodySize": true, "MaxResponseBodySize": true}
	// seeds: call arguments that are (derived from) a limit field, anywhere in the module
	derivesFromLimitField := func(v ssa.Value) bool {
		seen := map[ssa.Value]bool{}
		var walk func(v ssa.Value, d int) bool
		walk = func(v ssa.Value, d int) bool {
			if v == nil || seen[v] || d > 8 {
				return false
			}
			seen[v] = true
			if _, fv := loadedField(v); fv != nil && limitFields[fv.Name()] {
				return true
			}
			switch w := v.(type) {
			case *ssa.Phi:
				for _, e := range w.Edges {
					if walk(e, d+1) {
						return true
					}
				}
			case *ssa.Convert:
				return walk(w.X, d+1)
			case *ssa.BinOp:
				return walk(w.X, d+1) || walk(w.Y, d+1)
			}
			return false
		}
		return walk(v, 0)
	}
	for _, fn := range p.SrcFuncs() {
		allCalls(fn, func(b *ssa.BasicBlock, c ssa.CallInstruction) {
			f := c.Common().StaticCallee()
			if f == nil {
				return
			}
			for i, a := range c.Common().Args {
				if derivesFromLimitField(a) {
					add(f, i)
				}
			}
		})
		// exported entry points with a parameter named like a limit
		if isExportedAPI(fn) {
			for i, prm := range fn.Params {
				if strings.Contains(strings.ToLower(prm.Name()), "maxbodysize") || strings.Contains(strings.ToLower(prm.Name()), "maxrequestbodysize") {
					add(fn, i)
				}
			}
		}
	}
	derivesFromParam := func(v ssa.Value, prm ssa.Value) bool {
		seen := map[ssa.Value]bool{}
		var walk func(v ssa.Value, d int) bool
		walk = func(v ssa.Value, d int) bool {
			if v == nil || seen[v] || d > 8 {
				return false
			}
			seen[v] = true
			if v == prm {
				return true
			}
			switch w := v.(type) {
			case *ssa.Phi:
				for _, e := range w.Edges {
					if walk(e, d+1) {
						return true
					}
				}
			case *ssa.Convert:
				return walk(w.X, d+1)
			case *ssa.BinOp:
				return walk(w.X, d+1) || walk(w.Y, d+1)
			case *ssa.Call:
				if b, ok := w.Call.Value.(*ssa.Builtin); ok && (b.Name() == "min" || b.Name() == "max") {
					for _, a := range w.Call.Args {
						if walk(a, d+1) {
							return true
						}
					}
				}
			}
			return false
		}
		return walk(v, 0)
	}
	for len(work) > 0 {
		k := work[0]
		work = work[1:]
		prm := ssa.Value(k.fn.Params[k.idx])
		allCalls(k.fn, func(b *ssa.BasicBlock, c ssa.CallInstruction) {
			f := c.Common().StaticCallee()
			if f == nil {
				return
			}
			for i, a := range c.Common().Args {
				if derivesFromParam(a, prm) {
					add(f, i)
				}
			}
		})
	}
	r.Floor("E6", "limit-receiving parameters", len(lims), 25)
	type use struct{ compares, limitedReader, forwards, returnsTooLarge bool }
	norder := 0
	nfwd := 0
	ninv := 0
	var keys []limParam
	for k := range lims {
		keys = append(keys, k)
	}
	sort.Slice(keys, func(i, j int) bool {
		if keys[i].fn.Pos() != keys[j].fn.Pos() {
			return keys[i].fn.Pos() < keys[j].fn.Pos()
		}
		return keys[i].idx < keys[j].idx
	})
	for _, k := range keys {
		prm := ssa.Value(k.fn.Params[k.idx])
		var u use
		var cmpConds []ssa.Value
		for _, b := range k.fn.Blocks {
			for _, in := range b.Instrs {
				switch w := in.(type) {
				case *ssa.If:
					// the limit takes part in the condition
					var has func(v ssa.Value, d int) bool
					seen := map[ssa.Value]bool{}
					has = func(v ssa.Value, d int) bool {
						if v == nil || seen[v] || d > 10 {
							return false
						}
						seen[v] = true
						if derivesFromParam(v, prm) {
							return true
						}
						switch x := v.(type) {
						case *ssa.BinOp:
							return has(x.X, d+1) || has(x.Y, d+1)
						case *ssa.UnOp:
							return has(x.X, d+1)
						case *ssa.Phi:
							for _, e := range x.Edges {
								if has(e, d+1) {
									return true
								}
							}
						}
						return false
					}
					if has(w.Cond, 0) {
						u.compares = true
						cmpConds = append(cmpConds, w.Cond)
					}
				case *ssa.Store:
					if _, fv := fieldOfAddr(w.Addr); fv != nil && fv.Name() == "N" && derivesFromParam(w.Val, prm) {
						u.limitedReader = true
					}
				case ssa.CallInstruction:
					if f := w.Common().StaticCallee(); f != nil {
						for i, a := range w.Common().Args {
							if derivesFromParam(a, prm) && lims[limParam{f, i}] {
								u.forwards = true
							}
						}
					}
				}
			}
		}
		name := fmt.Sprintf("%s(%s)", funcName(k.fn), k.fn.Params[k.idx].Name())
		// R-inv: "is a limit configured at all" (a comparison with 0, the 'unlimited' sentinel) is asked of the limit
		// itself, not of a running remainder that is updated inside a loop - a remainder that reaches 0 would read
		// as 'unlimited' from then on.
		for _, cc := range cmpConds {
			bo, ok := cc.(*ssa.BinOp)
			if !ok {
				continue
			}
			for _, pair := range [][2]ssa.Value{{bo.X, bo.Y}, {bo.Y, bo.X}} {
				kk, isK := constInt(pair[1])
				if !isK || kk != 0 || !derivesFromParam(pair[0], prm) {
					continue
				}
				v := pair[0]
				for {
					if cv, ok := v.(*ssa.Convert); ok {
						v = cv.X
						continue
					}
					break
				}
				carried := false
				if ph, ok := v.(*ssa.Phi); ok {
					if h := loopHeaderOf(ph.Block()); h != nil && h == ph.Block() {
						carried = true
					}
				}
				ninv++
				r.Check("R-inv", fmt.Sprintf("%s: the 'unlimited' test compares the limit itself with 0, not a value updated in a loop", name), !carried, p.Pos(bo.Pos()),
					"the value compared with 0 is a running remainder of the limit carried around a loop: when the data read so far adds up to exactly the limit it becomes 0, which means 'no limit', and everything after that is buffered")
			}
		}
		// R-fwd: what is forwarded to a limit-taking callee is the received limit on every path - not the received
		// limit merged with the 'unlimited' constant on a path where the limit is positive (or untested)
		for _, b := range k.fn.Blocks {
			for _, in := range b.Instrs {
				w, ok := in.(ssa.CallInstruction)
				if !ok || w.Common().StaticCallee() == nil {
					continue
				}
				f := w.Common().StaticCallee()
				for i, a := range w.Common().Args {
					if !lims[limParam{f, i}] || !derivesFromParam(a, prm) {
						continue
					}
					nfwd++
					var bad []string
					seenV := map[ssa.Value]bool{}
					var leaves func(v ssa.Value)
					leaves = func(v ssa.Value) {
						if seenV[v] {
							return
						}
						seenV[v] = true
						switch x := v.(type) {
						case *ssa.Convert:
							leaves(x.X)
						case *ssa.Phi:
							for ei, e := range x.Edges {
								if kc, isK := constInt(e); isK && kc <= 0 {
									// harmless only where the limit is known not to be positive
									nonPositive := false
									for _, g := range guardsOfDepth(x.Block().Preds[ei], 0) {
										bo, isBo := g.Cond.(*ssa.BinOp)
										if !isBo || !derivesFromParam(bo.X, prm) {
											continue
										}
										if z, isZ := constInt(bo.Y); isZ && z == 0 {
											if (bo.Op == token.GTR && !g.Pol) || (bo.Op == token.LEQ && g.Pol) {
												nonPositive = true
											}
										}
									}
									if !nonPositive {
										bad = append(bad, fmt.Sprintf("the constant %d on the edge from %s", kc, p.Pos(firstPos(k.fn, x.Block().Preds[ei].Instrs[0].Pos()))))
									}
									continue
								}
								leaves(e)
							}
						}
					}
					leaves(a)
					sort.Strings(bad)
					r.Check("R-fwd", fmt.Sprintf("%s: the limit passed on to %s is the received limit on every path", name, shortType(calleeName(w))), len(bad) == 0, p.Pos(w.Pos()),
						"the forwarded value is merged with "+strings.Join(bad, ", ")+": on that path the callee runs without a limit although the caller was given a positive one (a size announced by the input itself - a gzip trailer, a header - is not a bound)")
				}
			}
		}
		r.Check("E6", name+": the limit it receives is compared, turned into a limited reader, or forwarded", u.compares || u.limitedReader || u.forwards, p.Pos(k.fn.Pos()),
			"the function receives a size limit and neither tests it nor passes it on: whatever it reads or grows is unbounded")
		returnsErr := false
		res := k.fn.Signature.Results()
		for i := 0; i < res.Len(); i++ {
			if strings.HasSuffix(res.At(i).Type().String(), "error") {
				returnsErr = true
			}
		}
		if (u.compares || u.limitedReader) && returnsErr {
			// some return of ErrBodyTooLarge (or an error built from it) is control-dependent on a limit comparison / limited-reader exhaustion
			found := false
			for _, b := range k.fn.Blocks {
				rt, ok := b.Instrs[len(b.Instrs)-1].(*ssa.Return)
				if !ok {
					continue
				}
				for _, rv := range returnResults(rt) {
					if mentionsGlobal(rv, "ErrBodyTooLarge", 0) {
						found = true
					}
				}
			}
			// or it maps the exhaustion through a helper that does (copyZeroAllocWithLimit pattern covered above); forwarders inherit
			if !found && u.forwards {
				found = true
			}
			r.Check("E6", name+": exceeding the limit is reported as ErrBodyTooLarge", found, p.Pos(k.fn.Pos()),
				"the function tests the limit but no return carries ErrBodyTooLarge: an oversized body would be truncated or accepted silently")
			// R-order: in a function that itself rejects oversized input, nothing is buffered from the reader before the
			// limit was used on that path. A buffering consumer is a call that is handed the reader and gives back data
			// (a slice, a form, an object) rather than a scalar or just an error.
			if found && !u.forwards || found && u.compares {
				var rd *ssa.Parameter
				for _, prm2 := range k.fn.Params {
					ts := prm2.Type().String()
					if strings.HasSuffix(ts, "bufio.Reader") || ts == "io.Reader" {
						rd = prm2
					}
				}
				if rd != nil {
					limitUse := func(i ssa.Instruction) bool {
						switch w := i.(type) {
						case *ssa.If:
							for _, cc := range cmpConds {
								if w.Cond == cc {
									return true
								}
							}
						case ssa.CallInstruction:
							for _, a := range w.Common().Args {
								if derivesFromParam(a, prm) {
									return true
								}
							}
						}
						return false
					}
					for _, b := range k.fn.Blocks {
						for _, in := range b.Instrs {
							c, ok := in.(*ssa.Call)
							if !ok {
								continue
							}
							usesReader := false
							for _, a := range c.Call.Args {
								if mi, ok := a.(*ssa.MakeInterface); ok {
									a = mi.X
								}
								if a == ssa.Value(rd) {
									usesReader = true
								}
							}
							if !usesReader || limitUse(in) {
								continue
							}
							buffers := false
							var rts []types.Type
							if tup, ok := c.Type().(*types.Tuple); ok {
								for i := 0; i < tup.Len(); i++ {
									rts = append(rts, tup.At(i).Type())
								}
							} else {
								rts = append(rts, c.Type())
							}
							for _, rt := range rts {
								switch rt.Underlying().(type) {
								case *types.Slice, *types.Pointer, *types.Map:
									buffers = true
								case *types.Interface:
									if !strings.HasSuffix(rt.String(), "error") {
										buffers = true
									}
								}
							}
							if !buffers {
								continue
							}
							norder++
							hit, path := reachAvoiding(k.fn, nil, func(i ssa.Instruction) bool { return i == ssa.Instruction(c) }, limitUse, nil)
							r.Check("R-order", fmt.Sprintf("%s: %s buffers from the reader only after the limit %s was used on that path", funcName(k.fn), shortType(calleeName(c)), k.fn.Params[k.idx].Name()), hit == nil, p.Pos(c.Pos()),
								"a call that reads and keeps data from the connection is reachable before any comparison with (or hand-over of) the size limit: on that path an oversized body is consumed and buffered, not rejected", blocksString(p, path)...)
						}
					}
				}
			}
		}
	}
	r.Floor("R-order", "buffering reads in limit-rejecting functions that do not receive the limit themselves", norder, 1)
	r.Floor("R-inv", "comparisons of a limit with the 'unlimited' sentinel 0", ninv, 5)
	r.Floor("R-fwd", "limits forwarded to limit-taking callees", nfwd, 15)

	// ---- R-default ----
	res := p.serveLoop("C07")
	res.report(r, "C07")
	if fn, _, header, why := findServeLoop(p); fn == nil {
		r.Undecided("R-default", "serve loop", why)
	} else {
		// the loop-carried variable handed to the body readers: its entry value merges the server field with a positive constant
		ok := false
		for _, in := range header.Instrs {
			ph, isPhi := in.(*ssa.Phi)
			if !isPhi {
				break
			}
			if !strings.Contains(strings.ToLower(ph.Comment), "maxrequestbodysize") {
				continue
			}
			for i, e := range ph.Edges {
				if inLoop(header, header.Preds[i]) {
					continue
				}
				if init, isInit := e.(*ssa.Phi); isInit {
					hasField, hasConst := false, false
					for _, ie := range init.Edges {
						if _, fv := loadedField(ie); fv != nil && fv.Name() == "MaxRequestBodySize" {
							hasField = true
						}
						if k, okc := constInt(ie); okc && k > 0 {
							hasConst = true
						}
					}
					ok = hasField && hasConst
				}
			}
		}
		r.Check("R-default", "serve loop: a non-positive Server.MaxRequestBodySize is replaced by the default before the first request", ok, p.Pos(fn.Pos()),
			"the connection-level body limit is not a merge of Server.MaxRequestBodySize with a positive default")
		// every body reader the loop calls gets that normalised value, never the raw configuration field: the readers
		// take a non-positive limit for 'unlimited', and the raw field is 0 in the default configuration
		nb := 0
		for _, b := range fn.Blocks {
			for _, in := range b.Instrs {
				c, isCall := in.(ssa.CallInstruction)
				if !isCall || c.Common().StaticCallee() == nil {
					continue
				}
				f := c.Common().StaticCallee()
				for i, a := range c.Common().Args {
					if !lims[limParam{f, i}] {
						continue
					}
					nb++
					_, fv := loadedField(a)
					raw := fv != nil && fv.Name() == "MaxRequestBodySize" && typeNameOf(rootOf(a)) != "RequestConfig"
					r.Check("R-default", fmt.Sprintf("serve loop: the limit given to %s (limit-taking call #%d) is the normalised per-request value", shortType(calleeName(c)), nb), !raw, p.Pos(in.Pos()),
						"the body reader is given the raw field Server.MaxRequestBodySize: it is 0 (or negative) unless configured, which the readers take for 'no limit' - on this path a body of any size is buffered, and a per-request override from HeaderReceived is ignored as well")
				}
			}
		}
		r.Floor("R-default", "limit-taking calls in the serve function", nb, 4)
	}

	// ---- R-431 ----
	if deh := p.Func("defaultErrorHandler"); deh != nil {
		codes := map[int64]bool{}
		allCalls(deh, func(b *ssa.BasicBlock, c ssa.CallInstruction) {
			f := c.Common().StaticCallee()
			if f == nil || f.Name() != "Error" || len(c.Common().Args) < 3 {
				return
			}
			if k, ok := constInt(c.Common().Args[2]); ok {
				// which error selects this branch
				for _, g := range guardsOf(b) {
					if strings.Contains(g.Atom, "ErrSmallBuffer") && g.Pol && k == 431 {
						codes[431] = true
					}
				}
				for _, g := range guardsOf(b) {
					if (strings.Contains(g.Atom, "ErrBodyTooLarge") || strings.Contains(g.Atom, "errors.Is")) && g.Pol && k == 413 {
						codes[413] = true
					}
				}
				if k == 431 || k == 413 {
					codes[k+1000] = true
				}
			}
		})
		r.Check("R-431", "defaultErrorHandler answers 431 for a too-small read buffer", codes[431], p.Pos(deh.Pos()),
			fmt.Sprintf("an Error(..., 431) call under the *ErrSmallBuffer type test: %v", codes[431]))
	} else {
		r.Undecided("R-431", "defaultErrorHandler", "not found")
	}
	if wer := p.Func("(*Server).writeErrorResponse"); wer != nil {
		hit, path := reachAvoiding(wer, nil, func(in ssa.Instruction) bool {
			c, ok := in.(ssa.CallInstruction)
			return ok && isCallTo(c, p.Func("writeResponse"))
		}, func(in ssa.Instruction) bool {
			c, ok := in.(ssa.CallInstruction)
			if !ok {
				return false
			}
			f := c.Common().StaticCallee()
			return f != nil && f.Name() == "SetConnectionClose"
		}, nil)
		r.Check("R-431", "writeErrorResponse sets Connection: close before it writes the error response", hit == nil, p.Pos(wer.Pos()), "the error response can be written without Connection: close", blocksString(p, path)...)
	} else {
		r.Undecided("R-431", "(*Server).writeErrorResponse", "not found")
	}
}

// mentionsGlobal: v is (an error built from) the package-level variable name.
func mentionsGlobal(v ssa.Value, name string, d int) bool {
	if v == nil || d > 8 {
		return false
	}
	if globalOf(v) == name {
		return true
	}
	switch w := v.(type) {
	case *ssa.Phi:
		for _, e := range w.Edges {
			if mentionsGlobal(e, name, d+1) {
				return true
			}
		}
	case *ssa.MakeInterface:
		return mentionsGlobal(w.X, name, d+1)
	case *ssa.Call:
		for _, a := range w.Call.Args {
			if mentionsGlobal(a, name, d+1) {
				return true
			}
		}
	case *ssa.Slice:
		// variadic argument slice: look at stores into the backing array
		if al, ok := w.X.(*ssa.Alloc); ok {
			for _, ref := range *al.Referrers() {
				if ia, ok := ref.(*ssa.IndexAddr); ok {
					for _, r2 := range *ia.Referrers() {
						if st, ok := r2.(*ssa.Store); ok && mentionsGlobal(st.Val, name, d+1) {
							return true
						}
					}
				}
			}
		}
	case *ssa.UnOp:
		if w.Op == token.MUL {
			return false
		}
	}
	return false
}

// identityBodyLimited (C07.R-ident): BodyUncompressedWithLimit bounds what it returns also when there is nothing to
// decompress: every return of the raw body (the result of Body()) with a nil error is control-dependent on a
// comparison that involves the limit parameter.
func identityBodyLimited(p *Prog, r *Report) {
	n := 0
	for _, name := range []string{"(*Request).BodyUncompressedWithLimit", "(*Response).BodyUncompressedWithLimit"} {
		fn := p.Func(name)
		if fn == nil {
			r.Undecided("R-ident", name, "not found")
			continue
		}
		var limit *ssa.Parameter
		for _, prm := range fn.Params {
			if prm.Type().String() == "int" {
				limit = prm
			}
		}
		for _, b := range fn.Blocks {
			rt, ok := b.Instrs[len(b.Instrs)-1].(*ssa.Return)
			if !ok {
				continue
			}
			rr := returnResults(rt)
			if len(rr) != 2 || !isNilConst(rr[1]) {
				continue
			}
			raw := false
			var walk func(v ssa.Value, d int)
			walk = func(v ssa.Value, d int) {
				if d > 4 {
					return
				}
				switch x := v.(type) {
				case *ssa.Call:
					if f := x.Call.StaticCallee(); f != nil && f.Name() == "Body" {
						raw = true
					}
				case *ssa.Phi:
					for _, e := range x.Edges {
						walk(e, d+1)
					}
				}
			}
			walk(rr[0], 0)
			if !raw {
				continue
			}
			n++
			// every path to this return passes a branch on a comparison that involves the limit
			limitTest := func(i ssa.Instruction) bool {
				iff, ok := i.(*ssa.If)
				if !ok || limit == nil {
					return false
				}
				bo, ok := iff.Cond.(*ssa.BinOp)
				return ok && (derivesFromValue(bo.X, limit) || derivesFromValue(bo.Y, limit))
			}
			hit, _ := reachAvoiding(fn, nil, func(i ssa.Instruction) bool { return i == ssa.Instruction(rt) }, limitTest, nil)
			dep := hit == nil
			r.Check("R-ident", funcName(fn)+": the body without Content-Encoding is returned only after a comparison with the limit", dep, p.Pos(rt.Pos()),
				"the raw Body() is returned with a nil error on a path that never compared anything with maxBodySize: a limit of 10 returns a 1000-byte identity body")
		}
	}
	r.Floor("R-ident", "returns of the raw body from BodyUncompressedWithLimit", n, 2)
}

// preParseUnderTheLimit (C07.R-prefit): reading a multipart form ahead of the handler buffers the whole body (values in
// memory, files up to 16 MiB in memory). In a function that receives a body limit, every path to the call that reads
// the form (readMultipartForm) passes a branch on a comparison that involves the limit.
func preParseUnderTheLimit(p *Prog, r *Report) {
	rm := p.Func("readMultipartForm")
	if rm == nil {
		r.Undecided("R-prefit", "readMultipartForm", "not found")
		return
	}
	n := 0
	for _, fn := range p.funcsIn("") {
		var limit *ssa.Parameter
		for _, prm := range fn.Params {
			if prm.Name() == "maxBodySize" && prm.Type().String() == "int" {
				limit = prm
			}
		}
		if limit == nil || fn.Blocks == nil {
			continue
		}
		allCalls(fn, func(b *ssa.BasicBlock, c ssa.CallInstruction) {
			if c.Common().StaticCallee() != rm {
				return
			}
			n++
			limitTest := func(i ssa.Instruction) bool {
				iff, ok := i.(*ssa.If)
				if !ok {
					return false
				}
				var dep func(v ssa.Value, d int) bool
				dep = func(v ssa.Value, d int) bool {
					if d > 5 {
						return false
					}
					switch x := v.(type) {
					case *ssa.BinOp:
						return derivesFromValue(x.X, limit) || derivesFromValue(x.Y, limit) || dep(x.X, d+1) || dep(x.Y, d+1)
					case *ssa.Phi:
						for _, e := range x.Edges {
							if dep(e, d+1) {
								return true
							}
						}
					case *ssa.UnOp:
						return dep(x.X, d+1)
					}
					return false
				}
				return dep(iff.Cond, 0)
			}
			hit, path := reachAvoiding(fn, nil, func(i ssa.Instruction) bool { return i == ssa.Instruction(c) }, limitTest, nil)
			r.Check("R-prefit", funcName(fn)+": a multipart form is read ahead of the handler only after a comparison with the body limit", hit == nil, p.Pos(c.Pos()),
				"readMultipartForm is reachable without any branch on maxBodySize: with StreamRequestBody a fixed-length multipart body of any size is read whole into memory (and temp files) before the handler runs, whatever MaxRequestBodySize says", blocksString(p, path)...)
		})
	}
	r.Floor("R-prefit", "form pre-parse calls in functions that receive a body limit", n, 1)
}

// fullBufferIsNeverEOF (C07.R-full): a request head that does not fit the read buffer is answered with 431. The
// routine that classifies a failed head read reports io.EOF (which the server takes for 'the peer is gone', closing
// without a response) only on paths that found the read error different from bufio.ErrBufferFull.
func fullBufferIsNeverEOF(p *Prog, r *Report) {
	fn := p.Func("headerError")
	if fn == nil {
		r.Undecided("R-full", "headerError", "not found")
		return
	}
	n := 0
	for _, b := range fn.Blocks {
		rt, ok := b.Instrs[len(b.Instrs)-1].(*ssa.Return)
		if !ok {
			continue
		}
		rr := returnResults(rt)
		if len(rr) != 1 || globalOf(rr[0]) != "EOF" {
			continue
		}
		n++
		tested := func(i ssa.Instruction) bool {
			iff, ok := i.(*ssa.If)
			if !ok {
				return false
			}
			bo, ok := iff.Cond.(*ssa.BinOp)
			return ok && (globalOf(bo.X) == "ErrBufferFull" || globalOf(bo.Y) == "ErrBufferFull")
		}
		hit, path := reachAvoiding(fn, nil, func(i ssa.Instruction) bool { return i == ssa.Instruction(rt) }, tested, nil)
		r.Check("R-full", "headerError reports io.EOF only after it compared the read error with bufio.ErrBufferFull", hit == nil, p.Pos(rt.Pos()),
			"the io.EOF return is reachable without a test of the read error against bufio.ErrBufferFull: a head of empty lines that fills the read buffer is taken for trailing CRLFs of a sloppy peer, and the connection is closed without the 431 every other oversized head gets", blocksString(p, path)...)
	}
	r.Floor("R-full", "io.EOF returns of headerError", n, 1)
}

// cachedFormLimited (C07.R-cached): MultipartFormWithLimit bounds what it returns also when the form was parsed
// before (by the server ahead of the handler, or by an earlier call): every return with a nil error is reached only
// through a branch on a comparison that involves the limit parameter.
func cachedFormLimited(p *Prog, r *Report) {
	fn := p.Func("(*Request).MultipartFormWithLimit")
	if fn == nil {
		r.Undecided("R-cached", "(*Request).MultipartFormWithLimit", "not found")
		return
	}
	var limit *ssa.Parameter
	for _, prm := range fn.Params {
		if prm.Type().String() == "int" {
			limit = prm
		}
	}
	limitTest := func(i ssa.Instruction) bool {
		iff, ok := i.(*ssa.If)
		if !ok || limit == nil {
			return false
		}
		bo, ok := iff.Cond.(*ssa.BinOp)
		return ok && (derivesFromValue(bo.X, limit) || derivesFromValue(bo.Y, limit))
	}
	n := 0
	for _, b := range fn.Blocks {
		rt, ok := b.Instrs[len(b.Instrs)-1].(*ssa.Return)
		if !ok {
			continue
		}
		rr := returnResults(rt)
		if len(rr) != 2 || !isNilConst(rr[1]) {
			continue
		}
		n++
		hit, path := reachAvoiding(fn, nil, func(i ssa.Instruction) bool { return i == ssa.Instruction(rt) }, limitTest, nil)
		r.Check("R-cached", "MultipartFormWithLimit: a form is returned only after a comparison with the limit", hit == nil, p.Pos(rt.Pos()),
			"a return with a nil error is reachable without any branch on maxBodySize: the form the server parsed ahead of the handler (or an earlier call cached) is handed out whatever the limit says", blocksString(p, path)...)
	}
	r.Floor("R-cached", "successful returns of MultipartFormWithLimit", n, 1)
}
