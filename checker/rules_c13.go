package main

// C13 - worker pool.

import (
	"fmt"
	"go/token"
	"strings"

	"golang.org/x/tools/go/ssa"
)

func init() {
	register(&propDef{
		id:      "C13",
		explain: "Structural necessary conditions of 'the worker pool never exceeds its bound, serves every accepted connection exactly once and leaves no worker behind after Stop': (E8) ready, workersCount and mustStop are only accessed with workerPool.lock held; (R1) a worker is created only under workersCount < MaxWorkersCount, with the increment in the same critical section, and the goroutine is started exactly on that path; every exit of workerFunc decrements workersCount under the lock; (R2) in each iteration of the worker loop WorkerFunc is called exactly once and followed by exactly one terminal action: Close + StateClosed, or StateHijacked on errHijacked; (R3) Serve sends the connection to exactly one worker channel when it returns true and to none when it returns false; (R4) release re-adds a worker to ready only when mustStop was found false in the same critical section; (R5) Stop detaches the ready list and sets mustStop within one critical section (no unlock in between on any path), so a worker finishing during Stop cannot re-enter ready unnoticed. workersCount is assigned only by getCh (+1) and by workerFunc (-1, at most once per path), by exactly one, from its own previous value; (R6) every path of release to the append that makes the worker idle stores a fresh clock reading into that worker's lastUseTime - the stamp the idle cleaner compares with MaxIdleWorkerDuration is the moment the worker became idle. Not decided: interleavings of Stop with the idle cleaner, the cleaner's own arithmetic.",
		run:     runC13,
	})
}

func runC13(p *Prog, r *Report) {
	tbl := &lockTable{
		guards: map[string]string{
			"workerPool.ready":        "workerPool.lock",
			"workerPool.workersCount": "workerPool.lock",
			"workerPool.mustStop":     "workerPool.lock",
		},
		exempt: map[string]string{},
	}
	checkLockset(p, r, "E8", tbl, func(fn *ssa.Function) bool { return true })

	getCh := p.Func("(*workerPool).getCh")
	workerFunc := p.Func("(*workerPool).workerFunc")
	serve := p.Func("(*workerPool).Serve")
	release := p.Func("(*workerPool).release")
	stop := p.Func("(*workerPool).Stop")
	for n, f := range map[string]*ssa.Function{"getCh": getCh, "workerFunc": workerFunc, "Serve": serve, "release": release, "Stop": stop} {
		if f == nil {
			r.Undecided("R1", "anchor workerPool."+n, "not found")
			return
		}
	}
	isFieldStore := func(in ssa.Instruction, field string) *ssa.Store {
		st, ok := in.(*ssa.Store)
		if !ok {
			return nil
		}
		if _, fv := fieldOfAddr(st.Addr); fv != nil && fv.Name() == field {
			return st
		}
		return nil
	}
	isUnlock := func(in ssa.Instruction) bool {
		c, ok := in.(ssa.CallInstruction)
		if !ok {
			return false
		}
		if _, isDefer := in.(*ssa.Defer); isDefer {
			return false
		}
		key, op, _ := lockOp(c)
		return op < 0 && key == "workerPool.lock"
	}
	isLock := func(in ssa.Instruction) bool {
		c, ok := in.(ssa.CallInstruction)
		if !ok {
			return false
		}
		key, op, _ := lockOp(c)
		return op > 0 && key == "workerPool.lock"
	}

	// ---- R1: creation bound ----
	ninc := 0
	for _, b := range getCh.Blocks {
		for _, in := range b.Instrs {
			st := isFieldStore(in, "workersCount")
			if st == nil {
				continue
			}
			ninc++
			at := map[string]bool{}
			for _, g := range guardsOf(b) {
				if g.Pol {
					at[g.Atom] = true
				}
			}
			r.Check("R1", "getCh increments workersCount only under workersCount < MaxWorkersCount", hasAtomContaining(at, "field:workerPool.workersCount") && hasAtomContaining(at, "field:workerPool.MaxWorkersCount"), p.Pos(st.Pos()),
				"guards of the increment: "+atomsList(at))
			// same critical section: no unlock between the comparison's load and the store
			var cmpLoad ssa.Instruction
			for _, bb := range getCh.Blocks {
				for _, i2 := range bb.Instrs {
					if u, ok := i2.(*ssa.UnOp); ok && u.Op == token.MUL {
						if _, fv := loadedField(u); fv != nil && fv.Name() == "workersCount" && cmpLoad == nil {
							cmpLoad = i2
						}
					}
				}
			}
			if cmpLoad != nil {
				hit, path := reachAvoiding(getCh, cmpLoad, isUnlock, func(i ssa.Instruction) bool { return i == ssa.Instruction(st) }, nil)
				_ = path
				// an unlock reachable from the load without passing the store is fine on the non-creating branch;
				// what must not happen is: load ... unlock ... store. Check: from any unlock, the store is not reachable without a new lock+load
				bad := false
				for _, bb := range getCh.Blocks {
					for _, i2 := range bb.Instrs {
						if isUnlock(i2) {
							if h2, _ := reachAvoiding(getCh, i2, func(i ssa.Instruction) bool { return i == ssa.Instruction(st) }, isLock, nil); h2 != nil {
								bad = true
							}
						}
					}
				}
				_ = hit
				r.Check("R1", "getCh: the bound comparison and the increment are in one critical section", !bad, p.Pos(st.Pos()), "the increment of workersCount is reachable after an unlock without re-locking: the bound can be exceeded by concurrent callers")
			}
		}
	}
	r.Floor("R1", "workersCount increments in getCh", ninc, 1)
	// the goroutine running workerFunc is started exactly when a worker was counted
	{
		var goIns *ssa.Go
		allCalls(getCh, func(b *ssa.BasicBlock, c ssa.CallInstruction) {
			if g, ok := c.(*ssa.Go); ok {
				goIns = g
			}
		})
		ok := false
		detail := "no go statement in getCh"
		if goIns != nil {
			// the closure must call workerFunc
			calls := false
			if mc, isMC := goIns.Call.Value.(*ssa.MakeClosure); isMC {
				if cf, isF := mc.Fn.(*ssa.Function); isF {
					allCalls(cf, func(b *ssa.BasicBlock, c ssa.CallInstruction) {
						if isCallTo(c, workerFunc) {
							calls = true
						}
					})
				}
			}
			// path-sensitive: go reached <=> createWorker true
			nGo, badGo, nRet, badRet := 0, 0, 0, 0
			const bInc, bGo uint64 = 1, 2
			x := NewExplorer(p, getCh, Hooks{
				Instr: func(x *Explorer, st *State, in ssa.Instruction) {
					if isFieldStore(in, "workersCount") != nil {
						st.Set(bInc)
					}
					if in == ssa.Instruction(goIns) {
						nGo++
						if !st.Has(bInc) {
							badGo++
						}
						st.Set(bGo)
					}
				},
				Exit: func(x *Explorer, st *State, ret *ssa.Return, pan *ssa.Panic) {
					if ret == nil {
						return
					}
					nRet++
					if st.Has(bInc) != st.Has(bGo) {
						badRet++
					}
				},
			})
			x.TrackAll = true
			x.Run(nil)
			ok = calls && nGo > 0 && badGo == 0 && badRet == 0
			detail = fmt.Sprintf("closure calls workerFunc: %v; %d of %d explored arrivals at the go statement had not counted a worker; %d of %d returns have counted-without-starting or started-without-counting", calls, badGo, nGo, badRet, nRet)
		}
		r.Check("R1", "getCh starts a worker goroutine exactly on the path that counted it", ok, p.Pos(getCh.Pos()), detail)
	}
	// every exit of workerFunc decrements workersCount
	{
		dec := func(in ssa.Instruction) bool { return isFieldStore(in, "workersCount") != nil }
		hit, path := reachAvoiding(workerFunc, nil, isReturn, dec, nil)
		r.Check("R1", "workerFunc decrements workersCount on every path to its return", hit == nil, p.Pos(workerFunc.Pos()), "a return of workerFunc is reachable without the decrement: the pool believes a worker exists forever and eventually refuses connections", blocksString(p, path)...)
	}

	// the count is kept by exactly two routines: the one that starts a worker adds one, the worker itself takes
	// one off when it exits (checked above, once per exit path); any other assignment counts a worker twice
	{
		n := 0
		for _, fn := range p.funcsIn("") {
			for _, b := range fn.Blocks {
				for _, in := range b.Instrs {
					st := isFieldStore(in, "workersCount")
					if st == nil {
						continue
					}
					if fa, ok := st.Addr.(*ssa.FieldAddr); !ok || typeNameOf(fa.X) != "workerPool" {
						continue
					}
					n++
					owner := fn == getCh || fn == workerFunc
					// exactly one step: old value +/- 1
					step := false
					if bo, ok := st.Val.(*ssa.BinOp); ok && (bo.Op == token.ADD || bo.Op == token.SUB) {
						if k, isK := constInt(bo.Y); isK && k == 1 {
							if _, fv := loadedField(bo.X); fv != nil && fv.Name() == "workersCount" {
								step = (bo.Op == token.ADD) == (fn == getCh)
							}
						}
					}
					r.Check("R1", fmt.Sprintf("%s: workersCount changes by one, +1 where a worker is started and -1 where the worker exits, nowhere else", funcName(fn)), owner && step, p.Pos(st.Pos()),
						"the worker count is assigned outside the start/exit pair (or by another amount): a worker is counted off twice, the count falls below the number of live workers and the MaxWorkersCount test admits more than the bound")
					// a second decrement on the same path
					if fn == workerFunc {
						me := in
						hit, path := reachAvoiding(fn, in, func(i ssa.Instruction) bool { return i != me && isFieldStore(i, "workersCount") != nil }, nil, nil)
						r.Check("R1", "workerFunc decrements workersCount at most once on any path", hit == nil, p.Pos(st.Pos()), "a second assignment of the count is reachable after the first", blocksString(p, path)...)
					}
				}
			}
		}
		r.Floor("R1", "assignments of workerPool.workersCount", n, 2)
	}

	workerLoopTerminalRule(p, r, workerFunc)

	// ---- R3: Serve sends to exactly one channel iff true ----
	{
		nret, bad := 0, 0
		x := NewExplorer(p, serve, Hooks{
			Instr: func(x *Explorer, st *State, in ssa.Instruction) {
				if _, ok := in.(*ssa.Send); ok {
					st.N[0]++
				}
			},
			Exit: func(x *Explorer, st *State, ret *ssa.Return, pan *ssa.Panic) {
				if ret == nil {
					return
				}
				nret++
				rr := returnResults(ret)
				switch x.Eval(st, rr[0]) {
				case True:
					if st.N[0] != 1 {
						bad++
					}
				case False:
					if st.N[0] != 0 {
						bad++
					}
				default:
					bad++
				}
			},
		})
		x.TrackAll = true
		x.Run(nil)
		r.Check("R3", "workerPool.Serve sends the connection to exactly one worker channel iff it returns true", bad == 0 && nret >= 2, p.Pos(serve.Pos()), fmt.Sprintf("%d of %d explored returns violate it", bad, nret))
	}

	// ---- R4: release appends only under !mustStop in the same critical section ----
	{
		n := 0
		for _, b := range release.Blocks {
			for _, in := range b.Instrs {
				st := isFieldStore(in, "ready")
				if st == nil {
					continue
				}
				n++
				okGuard := false
				for _, g := range guardsOf(b) {
					if !g.Pol && hasAtomContaining(map[string]bool{g.Atom: true}, "field:workerPool.mustStop") {
						okGuard = true
					}
				}
				// no unlock between the mustStop load and the append
				var load ssa.Instruction
				for _, bb := range release.Blocks {
					for _, i2 := range bb.Instrs {
						if u, ok := i2.(*ssa.UnOp); ok {
							if _, fv := loadedField(u); fv != nil && fv.Name() == "mustStop" {
								load = i2
							}
						}
					}
				}
				same := false
				if load != nil {
					hit, _ := reachAvoiding(release, load, func(i ssa.Instruction) bool { return i == ssa.Instruction(st) }, isUnlock, nil)
					same = hit != nil
					// and not reachable through an unlock
					for _, bb := range release.Blocks {
						for _, i2 := range bb.Instrs {
							if isUnlock(i2) {
								if h2, _ := reachAvoiding(release, i2, func(i ssa.Instruction) bool { return i == ssa.Instruction(st) }, isLock, nil); h2 != nil {
									same = false
								}
							}
						}
					}
				}
				r.Check("R4", "release re-adds the worker to ready only when mustStop is false, tested in the same critical section", okGuard && same, p.Pos(st.Pos()),
					fmt.Sprintf("guarded by !mustStop: %v; same critical section: %v", okGuard, same))
			}
		}
		r.Floor("R4", "stores to ready in release", n, 1)
	}

	// ---- R6: the stamp the idle cleaner compares is taken when the worker becomes idle ----
	// clean retires the workers whose lastUseTime is older than MaxIdleWorkerDuration, so the field must hold the
	// moment the worker went back to ready: every path of release to the append passes a store of a fresh clock
	// reading into the lastUseTime of the worker that is appended.
	{
		n := 0
		var ch ssa.Value
		for _, prm := range release.Params {
			if strings.HasSuffix(prm.Type().String(), "workerChan") {
				ch = prm
			}
		}
		stamps := func(i ssa.Instruction) bool {
			st, ok := i.(*ssa.Store)
			if !ok || ch == nil {
				return false
			}
			base, fv := fieldOfAddr(st.Addr)
			if fv == nil || fv.Name() != "lastUseTime" || base == nil || !derivesFromValue(base, ch) {
				return false
			}
			// a clock reading taken in this function: a call that returns a time.Time
			fresh := false
			var walk func(v ssa.Value, d int)
			walk = func(v ssa.Value, d int) {
				if d > 6 || fresh {
					return
				}
				switch x := v.(type) {
				case *ssa.Call:
					if strings.HasSuffix(x.Type().String(), "time.Time") {
						fresh = true
					}
				case *ssa.Phi:
					all := len(x.Edges) > 0
					for _, e := range x.Edges {
						fresh = false
						walk(e, d+1)
						all = all && fresh
					}
					fresh = all
				case *ssa.UnOp:
					if al, ok := x.X.(*ssa.Alloc); ok {
						for _, ref := range *al.Referrers() {
							if s2, ok := ref.(*ssa.Store); ok && s2.Addr == ssa.Value(al) {
								walk(s2.Val, d+1)
							}
						}
					}
				}
			}
			walk(st.Val, 0)
			return fresh
		}
		for _, b := range release.Blocks {
			for _, in := range b.Instrs {
				st := isFieldStore(in, "ready")
				if st == nil {
					continue
				}
				n++
				hit, path := reachAvoiding(release, nil, func(i ssa.Instruction) bool { return i == ssa.Instruction(st) }, stamps, nil)
				r.Check("R6", "release stamps the worker's lastUseTime with a fresh clock reading before it re-adds it to ready", hit == nil, p.Pos(st.Pos()),
					"the append to ready is reachable without a store of a clock reading into the appended worker's lastUseTime: the idle cleaner compares that field with now - MaxIdleWorkerDuration, so a worker whose stamp is older than its return to the idle list (taken when it was handed out, say) is retired although it has not been idle that long - after one long connection, at once", blocksString(p, path)...)
			}
		}
		r.Floor("R6", "stores to ready in release checked for the idle stamp", n, 1)
	}

	// ---- R5: Stop detaches ready and sets mustStop in one critical section ----
	{
		var readyLoad, mustStore ssa.Instruction
		for _, b := range stop.Blocks {
			for _, in := range b.Instrs {
				if u, ok := in.(*ssa.UnOp); ok && u.Op == token.MUL {
					if _, fv := loadedField(u); fv != nil && fv.Name() == "ready" && readyLoad == nil {
						readyLoad = in
					}
				}
				if st := isFieldStore(in, "mustStop"); st != nil {
					mustStore = in
				}
			}
		}
		if readyLoad == nil || mustStore == nil {
			r.Undecided("R5", "Stop: load of ready / store of mustStop", "not found")
		} else {
			hit, path := reachAvoiding(stop, readyLoad, isUnlock, func(i ssa.Instruction) bool { return i == mustStore }, nil)
			r.Check("R5", "Stop sets mustStop before it releases the lock under which it took the ready list", hit == nil, p.Pos(mustStore.Pos()),
				"an unlock of workerPool.lock is reachable after Stop read the ready list and before mustStop is set: a worker that finishes in that window finds mustStop false, re-enters ready and is never told to stop", blocksString(p, path)...)
		}
	}
}

// resolvesErrHijacked: what the path knows about "the error returned by call == errHijacked".
func (x *Explorer) resolvesErrHijacked(st *State, call *ssa.Call) Abs {
	// find comparisons of the call result (or a phi of it) with the global errHijacked
	res := Unknown
	for _, b := range x.Fn.Blocks {
		for _, in := range b.Instrs {
			bo, ok := in.(*ssa.BinOp)
			if !ok || (bo.Op != token.EQL && bo.Op != token.NEQ) {
				continue
			}
			if globalOf(bo.X) != "errHijacked" && globalOf(bo.Y) != "errHijacked" {
				continue
			}
			a := x.Eval(st, bo)
			if a == Unknown {
				continue
			}
			if bo.Op == token.NEQ {
				a = a.not()
			}
			res = a
		}
	}
	return res
}

// workerLoopTerminalRule (C13.R2, shared with C12): per iteration of the worker loop, exactly one terminal action for
// the connection that was served, chosen by this iteration's result.
func workerLoopTerminalRule(p *Prog, r *Report, workerFunc *ssa.Function) {
	{
		var wcall *ssa.Call
		allCalls(workerFunc, func(b *ssa.BasicBlock, c ssa.CallInstruction) {
			if cv, ok := c.(*ssa.Call); ok && cv.Call.StaticCallee() == nil && !cv.Call.IsInvoke() {
				if _, fv := loadedField(cv.Call.Value); fv != nil && fv.Name() == "WorkerFunc" {
					wcall = cv
				}
			}
		})
		if wcall == nil {
			r.Undecided("R2", "workerFunc: WorkerFunc dispatch", "not found")
		} else {
			header := loopHeaderOf(wcall.Block())
			const (
				bServed uint64 = 1 << iota
				bClosed
				bStClosed
				bStHijacked
			)
			n, bad := 0, 0
			var wit []string
			detail := ""
			endIter := func(x *Explorer, st *State, where string) {
				if !st.Has(bServed) {
					return
				}
				n++
				okClosed := st.Has(bClosed) && st.Has(bStClosed) && !st.Has(bStHijacked)
				okHij := st.Has(bStHijacked) && !st.Has(bClosed) && !st.Has(bStClosed)
				hij := x.resolvesErrHijacked(st, wcall)
				good := (okClosed && hij != True) || (okHij && hij != False)
				if !good {
					bad++
					if wit == nil {
						wit = x.Path(st)
						detail = fmt.Sprintf("%s: served=%v closed=%v StateClosed=%v StateHijacked=%v", where, st.Has(bServed), st.Has(bClosed), st.Has(bStClosed), st.Has(bStHijacked))
					}
				}
				st.Ev &^= bServed | bClosed | bStClosed | bStHijacked
			}
			x := NewExplorer(p, workerFunc, Hooks{
				Instr: func(x *Explorer, st *State, in ssa.Instruction) {
					c, ok := in.(ssa.CallInstruction)
					if !ok {
						return
					}
					switch {
					case in == ssa.Instruction(wcall):
						if st.Has(bServed) {
							endIter(x, st, "second dispatch in one iteration")
						}
						st.Set(bServed)
					case isInvoke(c, "Close") && typeIsNetConn(c.Common().Value.Type()):
						if st.Has(bClosed) {
							bad++
						}
						st.Set(bClosed)
					default:
						if _, fv := loadedField(c.Common().Value); fv != nil && fv.Name() == "connState" && len(c.Common().Args) == 2 {
							if k, okc := constInt(c.Common().Args[1]); okc {
								switch k {
								case 3: // StateHijacked
									st.Set(bStHijacked)
								case 4: // StateClosed
									st.Set(bStClosed)
								}
							}
						}
					}
				},
				Edge: func(x *Explorer, st *State, from, to *ssa.BasicBlock) {
					if header != nil && to == header && inLoop(header, from) {
						endIter(x, st, "loop continues")
					}
				},
				Exit: func(x *Explorer, st *State, ret *ssa.Return, pan *ssa.Panic) {
					if ret != nil {
						endIter(x, st, "worker exits")
					}
				},
			})
			x.TrackAll = true
			x.Filter = noIntFilter
			// the outcome of this iteration's comparison with errHijacked must still be known when the terminal
			// action is taken, however far from the comparison that happens (a flag carried across iterations is not it)
			for _, b := range workerFunc.Blocks {
				for _, in := range b.Instrs {
					if bo, ok := in.(*ssa.BinOp); ok && (bo.Op == token.EQL || bo.Op == token.NEQ) &&
						(globalOf(bo.X) == "errHijacked" || globalOf(bo.Y) == "errHijacked") {
						x.Track(bo)
					}
				}
			}
			x.Run(nil)
			r.Check("R2", "workerFunc: each served connection gets exactly one terminal action (Close+StateClosed, or StateHijacked iff errHijacked)", bad == 0 && n > 0, p.Pos(wcall.Pos()),
				fmt.Sprintf("%d of %d explored iteration ends violate it (%s)", bad, n, detail), wit...)
		}
	}
	// constants used above must match the declared ConnState values
	for name, want := range map[string]int64{"StateHijacked": 3, "StateClosed": 4} {
		if v, ok := constOfObj(p.byPath[rootPkg].Types, name); ok {
			r.Check("R2", "ConnState constant "+name+" has the value the rule assumes", v.ExactString() == fmt.Sprint(want), "-", "value "+v.ExactString())
		} else {
			r.Undecided("R2", "ConnState constant "+name, "not found")
		}
	}

}
