package main

// C12 - server limits and counters: every increment of Server.concurrency,
// Server.open and the per-IP count is matched by exactly one decrement on every
// path (with the documented ownership hand-offs), and admission is dominated by
// the comparison with the limit.

import (
	"fmt"
	"go/token"
	"strings"

	"golang.org/x/tools/go/ssa"
)

func init() {
	register(&propDef{
		id:      "C12",
		explain: "Structural necessary conditions of 'the concurrency, open-connection and per-IP counters are exact and the limits are enforced', decided per function on every path by exploration with counters in the abstract state (deferred calls applied at function exit): tryAcquireConcurrency nets +1 exactly when it returns true; ServeConn nets 0 on concurrency and open at every return; serveConnCounted nets 0 on concurrency and -1 on open (it gives back the unit its caller took) at every return; Serve gives back the open unit on the rejection branch of workerPool.Serve and keeps its own listener unit balanced; wrapPerIPConn registers exactly one unit when it returns a per-IP wrapper and none otherwise; perIPConn.Close / perIPTLSConn.Close unregister exactly once - on the call that finds the wrapper not closed yet (a 'closed' flag, or the connection taken out of the wrapper) - and never otherwise. Admission: the success return of tryAcquireConcurrency and the wrapper return of wrapPerIPConn are control-dependent on the comparison with the limit; the rejection paths write 503 / 429 and close the connection; Serve raises and lowers the count of listening Serve calls together with the open unit it holds, and GetOpenConnectionsCount corrects the open count by that counter, not by a constant. (R-wrap) a per-IP accounting wrapper taken from its pool has every field (the counted address above all) assigned on every path of the acquiring function that hands it out, so Close gives the count back for the address that was counted. (R2, shared with C13) per iteration of the worker loop every served connection that was not hijacked in that iteration is closed (which gives its per-IP unit back); (R-reject) writeFastError, with which the accept loop answers a connection it turns away, arms a deadline on the connection before its first write. Not decided: peak concurrent service under schedules, IPv6 (not counted by design).",
		run:     runC12,
	})
}

func runC12(p *Prog, r *Report) {
	runC12x(p, r, false)
	perIPWrapperRule(p, r)
	rejectionCannotBlock(p, r)
	// the per-IP unit of a served connection is given back by Close, which the worker loop owes every connection that
	// was not hijacked - decided per iteration (shared with C13.R2): a hijack decision that outlives its iteration
	// leaves later connections unclosed and their address counted for ever
	if wf := p.Func("(*workerPool).workerFunc"); wf != nil {
		workerLoopTerminalRule(p, r, wf)
	} else {
		r.Undecided("R2", "(*workerPool).workerFunc", "not found")
	}
}

// runC12x: openOnly restricts the run to the obligations on Server.open (used by C15: Shutdown waits for open == 0).
func runC12x(p *Prog, r *Report, openOnly bool) {
	if !openOnly {
		openCountReportRule(p, r)
	}
	F := func(spec string) *ssa.Function {
		f := p.Func(spec)
		if f == nil {
			r.Undecided("E1", "anchor "+spec, "function not found")
		}
		return f
	}
	fTry := F("(*Server).tryAcquireConcurrency")
	fRel := F("(*Server).releaseConcurrency")
	fCleanup := F("(*Server).serveConnCleanup")
	fServeCounted := F("(*Server).serveConnCounted")
	fServeConn := F("(*Server).ServeConn")
	fServe := F("(*Server).Serve")
	fWrap := F("wrapPerIPConn")
	fAcqPIC := F("acquirePerIPConn")
	fReg := F("(*perIPConnCounter).Register")
	fUnreg := F("(*perIPConnCounter).Unregister")
	fWPServe := F("(*workerPool).Serve")
	fFastErr := F("(*Server).writeFastError")
	for _, f := range []*ssa.Function{fTry, fRel, fCleanup, fServeCounted, fServeConn, fServe, fWrap, fAcqPIC, fReg, fUnreg, fWPServe, fFastErr} {
		if f == nil {
			return
		}
	}
	const (
		tConc = 0
		tOpen = 1
		tIP   = 2
	)
	names := [4]string{"Server.concurrency", "Server.open", "per-IP registration", "Server.serving (listening Serve calls)"}
	// effect of primitive counter operations and of the callees whose contract is checked below
	base := func(x *Explorer, st *State, c ssa.CallInstruction) (pairDelta, bool) {
		var d pairDelta
		if k, ok := atomicAddDelta(c, "concurrency"); ok {
			d[tConc] = k
			return d, true
		}
		if k, ok := atomicAddDelta(c, "open"); ok {
			d[tOpen] = k
			return d, true
		}
		if k, ok := atomicAddDelta(c, "serving"); ok {
			d[3] = k // the count of listening Serve calls, which GetOpenConnectionsCount subtracts
			return d, true
		}
		switch {
		case isCallTo(c, fRel):
			d[tConc] = -1
			return d, true
		case isCallTo(c, fReg):
			d[tIP] = 1
			return d, true
		case isCallTo(c, fUnreg):
			d[tIP] = -1
			return d, true
		case isCallTo(c, fCleanup):
			d[tOpen] = -1
			switch x.Eval(st, c.Common().Args[1]) {
			case True:
				d[tConc] = -1
			case False:
			default:
				d[tConc] = -100 // forces a range violation: the flag must be known on every path
			}
			return d, true
		case isCallTo(c, fServeCounted):
			d[tOpen] = -1 // contract of serveConnCounted, checked separately
			return d, true
		}
		return d, false
	}
	run := func(sp *pairSpec) {
		sp.rule = "E1"
		sp.tokens = names
		if sp.effect == nil {
			sp.effect = base
		}
		if sp.min == 0 && sp.max == 0 {
			sp.min, sp.max = -1, 2
		}
		runPairing(p, sp).report(p, r, sp)
	}
	all := [4]bool{true, true, true, false}

	// releaseConcurrency is one decrement
	run(&pairSpec{what: "releaseConcurrency decrements Server.concurrency exactly once", fn: fRel,
		effect: func(x *Explorer, st *State, c ssa.CallInstruction) (pairDelta, bool) {
			var d pairDelta
			if k, ok := atomicAddDelta(c, "concurrency"); ok {
				d[tConc] = k
				return d, true
			}
			return d, false
		},
		expect: func(x *Explorer, st *State, ret *ssa.Return) (pairDelta, [4]bool, bool) {
			return pairDelta{-1, 0, 0, 0}, all, true
		}})
	// tryAcquireConcurrency: +1 iff true
	run(&pairSpec{what: "tryAcquireConcurrency holds one unit of Server.concurrency exactly when it returns true", fn: fTry,
		expect: func(x *Explorer, st *State, ret *ssa.Return) (pairDelta, [4]bool, bool) {
			rr := returnResults(ret)
			if len(rr) != 1 {
				return pairDelta{}, all, false
			}
			switch x.Eval(st, rr[0]) {
			case True:
				return pairDelta{1, 0, 0, 0}, all, true
			case False:
				return pairDelta{0, 0, 0, 0}, all, true
			}
			return pairDelta{-99, 0, 0, 0}, all, true // undetermined result: report
		}})
	// serveConnCleanup(count): open -1, concurrency -1 iff count
	run(&pairSpec{what: "serveConnCleanup gives back one open unit and, iff asked, one concurrency unit", fn: fCleanup,
		track: []ssa.Value{fCleanup.Params[1]},
		expect: func(x *Explorer, st *State, ret *ssa.Return) (pairDelta, [4]bool, bool) {
			want := pairDelta{0, -1, 0, 0}
			if len(fCleanup.Params) >= 2 {
				switch x.Eval(st, fCleanup.Params[1]) {
				case True:
					want[tConc] = -1
				case False:
				default:
					// the flag was not tested on this path: then concurrency must be untouched
				}
			}
			return want, all, true
		}})
	// serveConnCounted: concurrency net 0, open net -1
	run(&pairSpec{what: "serveConnCounted leaves Server.concurrency balanced and gives back the caller's open unit at every return", fn: fServeCounted,
		filter: func(k string) bool { return strings.Contains(k, "countConcurrency") },
		track:  []ssa.Value{fServeCounted.Params[2]},
		expect: func(x *Explorer, st *State, ret *ssa.Return) (pairDelta, [4]bool, bool) {
			return pairDelta{0, -1, 0, 0}, [4]bool{true, true, false, false}, true
		}})
	// ServeConn: everything balanced
	run(&pairSpec{what: "ServeConn leaves Server.concurrency and Server.open balanced at every return", fn: fServeConn,
		branch: func(x *Explorer, st *State, cond ssa.Value, taken bool, from *ssa.BasicBlock) {
			pos, v := stripNot(cond)
			if c, ok := v.(*ssa.Call); ok && isCallTo(c, fTry) && taken == pos {
				st.N[tConc]++
			}
		},
		expect: func(x *Explorer, st *State, ret *ssa.Return) (pairDelta, [4]bool, bool) {
			return pairDelta{0, 0, 0, 0}, [4]bool{true, true, false, false}, true
		}})
	// the function Serve installs as the pool's WorkerFunc: gives back the slot and the open unit the accept loop took
	{
		var worker *ssa.Function
		for _, b := range fServe.Blocks {
			for _, in := range b.Instrs {
				st, ok := in.(*ssa.Store)
				if !ok {
					continue
				}
				if _, fv := fieldOfAddr(st.Addr); fv == nil || fv.Name() != "WorkerFunc" {
					continue
				}
				if mc, ok := stripConv(st.Val).(*ssa.MakeClosure); ok {
					if bf, ok := mc.Fn.(*ssa.Function); ok {
						if f := p.Func("(*Server)." + strings.TrimSuffix(bf.Name(), "$bound")); f != nil {
							worker = f
						}
					}
				}
			}
		}
		if worker == nil {
			r.Undecided("E1", "Serve: the method installed as workerPool.WorkerFunc", "not found")
		} else {
			run(&pairSpec{what: worker.Name() + " (the worker function of Serve) gives back the concurrency slot and the open unit of its connection at every return", fn: worker,
				expect: func(x *Explorer, st *State, ret *ssa.Return) (pairDelta, [4]bool, bool) {
					return pairDelta{-1, -1, 0, 0}, [4]bool{true, true, false, false}, true
				}})
		}
	}
	// Serve: listener unit balanced at return; per accepted connection: hand-off or give back
	{
		var wpCall *ssa.Call
		allCalls(fServe, func(b *ssa.BasicBlock, c ssa.CallInstruction) {
			if cv, ok := c.(*ssa.Call); ok && isCallTo(cv, fWPServe) {
				wpCall = cv
			}
		})
		if wpCall == nil {
			r.Undecided("E1", "Serve: workerPool.Serve call", "not found")
		} else {
			header := loopHeaderOf(wpCall.Block())
			nback, badBack, nreject := 0, 0, 0
			nhand, badHand := 0, 0
			var wit, witHand []string
			sp := &pairSpec{what: "Serve keeps its listener unit of Server.open balanced", fn: fServe,
				branch: func(x *Explorer, st *State, cond ssa.Value, taken bool, from *ssa.BasicBlock) {
					pos, v := stripNot(cond)
					if v == ssa.Value(wpCall) {
						if taken == pos {
							st.N[tOpen]-- // ownership of the unit moves to the worker (serveConn gives it back)
							st.N[tConc]-- // and so does the concurrency slot the accept loop took
						} else {
							nreject++
						}
					}
					if c, ok := v.(*ssa.Call); ok && isCallTo(c, fTry) && taken == pos {
						st.N[tConc]++
					}
				},
				expect: func(x *Explorer, st *State, ret *ssa.Return) (pairDelta, [4]bool, bool) {
					return pairDelta{0, 0, 0, 0}, [4]bool{true, true, false, true}, true
				}}
			sp.instr = func(x *Explorer, st *State, in ssa.Instruction) {}
			sp.rule, sp.tokens, sp.effect, sp.min, sp.max = "E1", names, base, -1, 3
			// back-edge obligation through the Edge hook: wrap runPairing's explorer by checking in instr at loop header entry
			first := true
			sp.instr = func(x *Explorer, st *State, in ssa.Instruction) {
				if in == ssa.Instruction(wpCall) {
					nhand++
					if st.N[tConc] != 1 {
						badHand++
						if witHand == nil {
							witHand = x.Path(st)
						}
					}
				}
				if header != nil && in.Block() == header && in == firstNonPhi(header) {
					if first {
						first = false
					}
					// every arrival at the loop header holds exactly the listener unit
					nback++
					if st.N[tOpen] != 1 || st.N[3] != 1 || st.N[tConc] != 0 {
						badBack++
						if wit == nil {
							wit = x.Path(st)
						}
					}
				}
			}
			res := runPairing(p, sp)
			res.report(p, r, sp)
			r.Check("E1", "Serve: every accepted connection's open unit is handed to a worker or given back before the next accept", badBack == 0 && nback >= 1 && nreject >= 1, p.Pos(wpCall.Pos()),
				fmt.Sprintf("%d of %d explored arrivals at the accept loop header hold a Server.open count different from the listener's own unit (or still hold a concurrency slot): a rejected connection's unit is never given back (Shutdown would wait forever) or is given back twice", badBack, nback), wit...)
			// R-admit: Concurrency bounds the Server, not one worker pool. The accept loop hands a connection to its pool
			// only while it holds a slot of the shared gauge (tryAcquireConcurrency returned true on this path) - the
			// same gauge ServeConn and every other Serve call of the Server take their slots from.
			r.Check("R-admit", "Serve: a connection is handed to the worker pool only on paths that hold a slot of the Server-wide concurrency gauge", badHand == 0 && nhand >= 1, p.Pos(wpCall.Pos()),
				fmt.Sprintf("%d of %d explored arrivals at workerPool.Serve do not hold exactly one unit taken through tryAcquireConcurrency: admission is then bounded per worker pool only, and two Serve calls (two listeners) or Serve plus ServeConn together serve more than Concurrency connections at once", badHand, nhand), witHand...)
		}
	}
	// wrapPerIPConn
	if openOnly {
		return
	}
	run(&pairSpec{what: "wrapPerIPConn keeps one per-IP registration exactly when it returns a per-IP wrapper", fn: fWrap,
		expect: func(x *Explorer, st *State, ret *ssa.Return) (pairDelta, [4]bool, bool) {
			rr := returnResults(ret)
			want := pairDelta{}
			if len(rr) == 1 && isCallResultOf(stripMakeIface(rr[0]), fAcqPIC) {
				want[tIP] = 1
			}
			return want, [4]bool{false, false, true, false}, true
		}})
	// Close of both wrappers
	nclose := 0
	for _, typ := range []string{"perIPConn", "perIPTLSConn"} {
		fn := p.Func("(*" + typ + ").Close")
		if fn == nil {
			r.Undecided("E1", typ+".Close", "not found")
			continue
		}
		nclose++
		// the value taken out of the wrapper: the load of field Conn that precedes the store of nil
		var taken ssa.Value
		for _, b := range fn.Blocks {
			for _, in := range b.Instrs {
				if u, ok := in.(*ssa.UnOp); ok {
					if _, fv := loadedField(u); fv != nil && fv.Name() == "Conn" && taken == nil {
						taken = u
					}
				}
			}
		}
		// or: a 'closed' flag remembers whether Close ran before (the embedded connection stays in place)
		var flag ssa.Value
		for _, b := range fn.Blocks {
			for _, in := range b.Instrs {
				if u, ok := in.(*ssa.UnOp); ok && isBool(u.Type()) {
					if _, fv := loadedField(u); fv != nil && fv.Name() == "closed" && flag == nil {
						flag = u
					}
				}
			}
		}
		if flag != nil {
			fl := flag
			run(&pairSpec{what: typ + ".Close unregisters the per-IP unit exactly once: on the call that finds the wrapper not closed yet, on every path", fn: fn,
				track: []ssa.Value{fl},
				expect: func(x *Explorer, st *State, ret *ssa.Return) (pairDelta, [4]bool, bool) {
					want := pairDelta{}
					switch x.Eval(st, fl) {
					case False:
						want[tIP] = -1
					case True:
					default:
						want[tIP] = -99
					}
					return want, [4]bool{false, false, true, false}, true
				}})
			continue
		}
		if taken == nil {
			r.Undecided("E1", typ+".Close", "no load of the embedded Conn field")
			continue
		}
		tk := taken
		run(&pairSpec{what: typ + ".Close unregisters the per-IP unit exactly once when it took the connection out of the wrapper, on every path", fn: fn,
			track: []ssa.Value{tk},
			expect: func(x *Explorer, st *State, ret *ssa.Return) (pairDelta, [4]bool, bool) {
				want := pairDelta{}
				switch x.Eval(st, tk) {
				case True:
					want[tIP] = -1
				case False:
				default:
					want[tIP] = -99
				}
				return want, [4]bool{false, false, true, false}, true
			}})
	}
	r.Floor("E1", "per-IP wrapper Close methods", nclose, 2)

	// ---- admission is dominated by the limit comparison; rejections answer and close ----
	// tryAcquireConcurrency: "return true" is control-dependent on a comparison of the Add result with getConcurrency()
	for _, b := range fTry.Blocks {
		rt, ok := b.Instrs[len(b.Instrs)-1].(*ssa.Return)
		if !ok {
			continue
		}
		rr := returnResults(rt)
		if len(rr) == 1 && staticAbs(rr[0]) == True {
			at := map[string]bool{}
			for _, g := range guardsOf(b) {
				at[g.Atom] = true
			}
			r.Check("R-limit", "tryAcquireConcurrency admits only under a comparison of the incremented count with the concurrency limit",
				hasAtomContaining(at, "getConcurrency") && hasAtomContaining(at, "Add"), p.Pos(rt.Pos()), "guards of 'return true': "+atomsList(at))
		}
	}
	// wrapPerIPConn: the wrapper return is control-dependent on Register's result compared with MaxConnsPerIP; the reject path writes 429 and closes
	allCalls(fWrap, func(b *ssa.BasicBlock, c ssa.CallInstruction) {
		if isCallTo(c, fAcqPIC) {
			at := map[string]bool{}
			for _, g := range guardsOf(b) {
				at[g.Atom] = true
			}
			r.Check("R-limit", "wrapPerIPConn hands out a wrapper only under a comparison of the registered count with MaxConnsPerIP",
				hasAtomContaining(at, "field:Server.MaxConnsPerIP") && hasAtomContaining(at, "Register"), p.Pos(c.Pos()), "guards: "+atomsList(at))
		}
	})
	rejectRule := func(fn *ssa.Function, name string, status int64, from ssa.Instruction) {
		// from the rejection decision every path to a return passes writeFastError(status) and a Close of the connection
		wrote := func(in ssa.Instruction) bool {
			c, ok := in.(ssa.CallInstruction)
			if !ok || !isCallTo(c, fFastErr) {
				return false
			}
			k, okc := constInt(c.Common().Args[2])
			return okc && k == status
		}
		closed := func(in ssa.Instruction) bool {
			c, ok := in.(ssa.CallInstruction)
			return ok && isInvoke(c, "Close")
		}
		h1, p1 := reachAvoiding(fn, from, isReturn, wrote, nil)
		h2, p2 := reachAvoiding(fn, from, isReturn, closed, nil)
		r.Check("R-limit", fmt.Sprintf("%s: the rejection path answers %d", name, status), h1 == nil, p.Pos(from.Pos()), "a return is reachable from the rejection branch without writeFastError of that status", blocksString(p, p1)...)
		r.Check("R-limit", name+": the rejection path closes the connection", h2 == nil, p.Pos(from.Pos()), "a return is reachable from the rejection branch without closing the connection", blocksString(p, p2)...)
	}
	// wrapPerIPConn rejection = after the Unregister call
	allCalls(fWrap, func(b *ssa.BasicBlock, c ssa.CallInstruction) {
		if isCallTo(c, fUnreg) {
			rejectRule(fWrap, "wrapPerIPConn", 429, c.(ssa.Instruction))
		}
	})
	// ServeConn rejection = the false edge of tryAcquireConcurrency
	allCalls(fServeConn, func(b *ssa.BasicBlock, c ssa.CallInstruction) {
		cv, ok := c.(*ssa.Call)
		if !ok || !isCallTo(cv, fTry) {
			return
		}
		for _, ref := range *cv.Referrers() {
			var ifi *ssa.If
			neg := false
			switch w := ref.(type) {
			case *ssa.If:
				ifi = w
			case *ssa.UnOp:
				neg = true
				for _, r2 := range *w.Referrers() {
					if i2, ok := r2.(*ssa.If); ok {
						ifi = i2
					}
				}
			}
			if ifi == nil {
				continue
			}
			rej := ifi.Block().Succs[1]
			if neg {
				rej = ifi.Block().Succs[0]
			}
			rejectRule(fServeConn, "ServeConn", 503, rej.Instrs[0])
		}
	})
}

func firstNonPhi(b *ssa.BasicBlock) ssa.Instruction {
	for _, in := range b.Instrs {
		if _, ok := in.(*ssa.Phi); !ok {
			return in
		}
	}
	return nil
}

func stripMakeIface(v ssa.Value) ssa.Value {
	for i := 0; i < 4; i++ {
		switch w := v.(type) {
		case *ssa.MakeInterface:
			v = w.X
		case *ssa.ChangeInterface:
			v = w.X
		case *ssa.ChangeType:
			v = w.X
		default:
			return v
		}
	}
	return v
}

// openCountReportRule (C12.R-report): Serve holds one unit of Server.open per listening call. What
// GetOpenConnectionsCount takes off for that has to be the number of listening calls - a counter that Serve raises
// and lowers together with its unit (paired in E1) - not a constant: a constant is wrong as soon as the Server is
// used with no Serve call (ServeConn only) or with more than one.
func openCountReportRule(p *Prog, r *Report) {
	fn := p.Func("(*Server).GetOpenConnectionsCount")
	if fn == nil {
		r.Undecided("R-report", "(*Server).GetOpenConnectionsCount", "not found")
		return
	}
	n, bad := 0, false
	pos := p.Pos(fn.Pos())
	for _, b := range fn.Blocks {
		rt, ok := b.Instrs[len(b.Instrs)-1].(*ssa.Return)
		if !ok {
			continue
		}
		for _, rv := range returnResults(rt) {
			n++
			seen := map[ssa.Value]bool{}
			var walk func(v ssa.Value, d int)
			walk = func(v ssa.Value, d int) {
				if v == nil || seen[v] || d > 6 {
					return
				}
				seen[v] = true
				switch w := v.(type) {
				case *ssa.BinOp:
					for _, o := range []ssa.Value{w.X, w.Y} {
						if k, isK := constInt(o); isK && k != 0 && (w.Op == token.SUB || w.Op == token.ADD) {
							bad = true
							pos = p.Pos(w.Pos())
						}
						walk(o, d+1)
					}
				case *ssa.Phi:
					for _, e := range w.Edges {
						walk(e, d+1)
					}
				case *ssa.Convert:
					walk(w.X, d+1)
				}
			}
			walk(rv, 0)
		}
	}
	r.Check("R-report", "GetOpenConnectionsCount corrects the open count by a counter of listening Serve calls, not by a constant", !bad && n > 0, pos,
		"the reported count is the internal counter plus or minus a constant: it assumes exactly one listening Serve call, so a server used through ServeConn alone reports -1 at rest and one with two listeners reports 1")
}

// rejectionCannotBlock (C12.R-reject): the answer to a connection that is not going to be served is written by the
// accept loop itself. writeFastError arms a deadline on the connection (when its writer is one) before its first
// Write: on a TLS connection that Write runs the handshake, and a silent client would otherwise stop the server from
// accepting anybody else.
func rejectionCannotBlock(p *Prog, r *Report) {
	fn := p.Func("(*Server).writeFastError")
	if fn == nil {
		r.Undecided("R-reject", "(*Server).writeFastError", "not found")
		return
	}
	var assertIf *ssa.BasicBlock
	var okSucc *ssa.BasicBlock
	for _, b := range fn.Blocks {
		iff, ok := b.Instrs[len(b.Instrs)-1].(*ssa.If)
		if !ok {
			continue
		}
		ex, ok := iff.Cond.(*ssa.Extract)
		if !ok || ex.Index != 1 {
			continue
		}
		if ta, ok := ex.Tuple.(*ssa.TypeAssert); ok && ta.CommaOk && typeIsNetConn(ta.AssertedType) {
			assertIf, okSucc = b, b.Succs[0]
		}
	}
	armed := false
	if okSucc != nil {
		for _, b := range fn.Blocks {
			if b != okSucc && !okSucc.Dominates(b) {
				continue
			}
			for _, in := range b.Instrs {
				if c, ok := in.(ssa.CallInstruction); ok && c.Common().IsInvoke() {
					if nm := c.Common().Method.Name(); nm == "SetDeadline" || nm == "SetWriteDeadline" {
						armed = true
					}
				}
			}
		}
	}
	nw, early := 0, 0
	for _, b := range fn.Blocks {
		for _, in := range b.Instrs {
			c, ok := in.(ssa.CallInstruction)
			if !ok || !c.Common().IsInvoke() || c.Common().Method.Name() != "Write" {
				continue
			}
			nw++
			if assertIf == nil || !(assertIf.Dominates(b) && assertIf != b) {
				early++
			}
		}
	}
	r.Floor("R-reject", "writes in writeFastError", nw, 1)
	r.Check("R-reject", "writeFastError arms a deadline on the connection before its first write", armed && early == 0, p.Pos(fn.Pos()),
		fmt.Sprintf("deadline armed under 'the writer is a net.Conn': %v; writes not preceded by that test: %d - the 503/429 for a turned-away connection is written by the accept loop; on a TLS listener the write runs the handshake, and a client that never sends its ClientHello blocks the loop forever", armed, early))
}
