package main

// C22 - compression: the "queue full" result of a stackless function is never
// dropped (E9 result-use), the four body compressors agree (sibling
// cross-check), and a coder is picked only under its own Accept-Encoding test.

import (
	"fmt"
	"go/token"
	"go/constant"
	"go/types"
	"sort"
	"strings"

	"golang.org/x/tools/go/ssa"
)

func init() {
	register(&propDef{
		id:      "C22",
		explain: "Structural necessary conditions of 'compressed bodies decode to the original': (R1) every call of a function value produced by stackless.NewFunc has its 'queue full' bool result tested, and on the false outcome the wrapped function is run inline (or the bool is returned to a caller for which the same holds) - so work is never silently skipped under load; (R2) the body compressors (methods of Response that install a compressed body stream) agree on their guards, on resetting Content-Length for streams and on the epilogue, and each one's encoding token, one-shot compressor and stream compressor reach the same compression package, and none gives the buffer that holds the uncompressed body back to its pool before the one-shot compressor has read it; (R3) each is called only under a true HasAcceptEncodingBytes test of the token it stores; (R5) wherever a codec constructor's rejection of a compression level ends in a panic, the level has passed a normaliser whose every return lies in the codec's valid range (constants of the codec package), so no caller-supplied level crashes the process. (R6) a pooled codec goes back where it came from: at every call of a helper that puts its argument into a codec pool, the argument is the result of the helper that takes from the same pool global, released with the level it was acquired with - the pools share one interface type, so the compiler accepts a zstd encoder in the deflate pool. (R7) the helper that adds Accept-Encoding to Vary leaves the header alone only after a whole-member match over the comma-separated list (not a substring search). (R10) a brotli reader is returned to its pool only under a test that found the error of the read nil (its Reset keeps buffered input, so a reader that stopped early poisons the next stream); (R8) in each body compressor every path to the call that announces the encoding has stored the compressed stream or the compressed buffer into the response - no 'keep the original' path reaches the announcement. Not decided: decode(encode(x)) = x, the codecs themselves.",
		run:     runC22,
	})
}

func runC22(p *Prog, r *Report) {
	newFunc := p.Func("stackless.NewFunc")
	if newFunc == nil {
		r.Undecided("R1", "anchor stackless.NewFunc", "function not found")
		return
	}
	// --- R1: result use -------------------------------------------------
	type slot struct {
		g       *ssa.Global
		wrapped *ssa.Function
	}
	var slots []slot
	for _, fn := range p.SrcFuncs() {
		allCalls(fn, func(b *ssa.BasicBlock, c ssa.CallInstruction) {
			cv, ok := c.(*ssa.Call)
			if !ok || !isCallTo(cv, newFunc) {
				return
			}
			wrapped, _ := cv.Call.Args[0].(*ssa.Function)
			if wrapped == nil {
				if mc, ok := cv.Call.Args[0].(*ssa.MakeClosure); ok {
					wrapped, _ = mc.Fn.(*ssa.Function)
				}
			}
			stored := false
			for _, ref := range *cv.Referrers() {
				if st, ok := ref.(*ssa.Store); ok {
					if g, ok := st.Addr.(*ssa.Global); ok {
						slots = append(slots, slot{g, wrapped})
						stored = true
					}
				}
			}
			if !stored {
				r.Undecided("R1", "stackless.NewFunc result in "+funcName(fn), "the function value is not stored in a package-level variable; this rule follows package-level slots only")
			}
		})
	}
	r.Floor("R1", "stackless function slots", len(slots), 5)
	nsites := 0
	var checkBoolUse func(call *ssa.Call, wrapped *ssa.Function, what string, depth int)
	checkBoolUse = func(call *ssa.Call, wrapped *ssa.Function, what string, depth int) {
		nsites++
		fn := call.Parent()
		construct := fmt.Sprintf("%s called in %s", what, funcName(fn))
		refs := call.Referrers()
		tested := reachesBranch(call)
		returned := false
		for _, ref := range *refs {
			if rt, ok := ref.(*ssa.Return); ok {
				_ = rt
				returned = true
			}
		}
		// spilled return (function with defers)
		for _, ref := range *refs {
			if st, ok := ref.(*ssa.Store); ok {
				if _, isAlloc := st.Addr.(*ssa.Alloc); isAlloc {
					for _, b := range fn.Blocks {
						if rt, ok := b.Instrs[len(b.Instrs)-1].(*ssa.Return); ok {
							for _, rv := range returnResults(rt) {
								if rv == ssa.Value(call) {
									returned = true
								}
							}
						}
					}
				}
			}
		}
		switch {
		case tested:
			// on the false outcome the wrapped function must run inline (or an error be returned)
			ok := true
			detail := "bool result is tested"
			var wit []string
			if wrapped != nil {
				for _, ref := range *refs {
					neg := false
					var cond ssa.Value = call
					if u, isU := ref.(*ssa.UnOp); isU {
						neg = true
						cond = u
					}
					for _, rr := range *cond.Referrers() {
						ifi, isIf := rr.(*ssa.If)
						if !isIf {
							continue
						}
						falseSucc := ifi.Block().Succs[1]
						if neg {
							falseSucc = ifi.Block().Succs[0]
						}
						// search from the top of the "queue full" successor
						start := falseSucc.Instrs[0]
						inline := callTo(wrapped)
						if inline(start) {
							continue
						}
						errReturned := false
						hit, path := reachAvoiding(fn, start, func(in ssa.Instruction) bool {
							rt, isRet := in.(*ssa.Return)
							if !isRet {
								return false
							}
							// returning a non-nil error constant/global is an honest failure report
							// (provided no caller drops it, checked below)
							for _, rv := range returnResults(rt) {
								if strings.HasSuffix(rv.Type().String(), "error") && !isNilConst(rv) {
									if _, isPhi := rv.(*ssa.Phi); !isPhi {
										errReturned = true
										return false
									}
								}
							}
							return true
						}, inline, nil)
						if hit == nil && errReturned {
							for _, cf := range p.SrcFuncs() {
								allCalls(cf, func(b *ssa.BasicBlock, c ssa.CallInstruction) {
									if !isCallTo(c, fn) {
										return
									}
									cv, isCall := c.(*ssa.Call)
									if !isCall || cv.Referrers() == nil || len(*cv.Referrers()) == 0 {
										ok = false
										detail = "when the stackless queue is full " + funcName(fn) + " reports an error instead of doing the work, and " + funcName(cf) + " drops that error: the operation is silently skipped under load"
										wit = []string{"dropped at " + p.Pos(c.Pos())}
									}
								})
							}
						}
						if hit != nil {
							ok = false
							detail = "when the stackless queue is full (bool result false) a path returns without running " + funcName(wrapped) + " inline and without reporting an error: the work is silently skipped"
							wit = blocksString(p, path)
						}
					}
				}
			}
			r.Check("R1", construct, ok, p.Pos(call.Pos()), detail, wit...)
		case returned:
			// the enclosing function forwards the bool: every static caller must satisfy the rule
			if depth > 3 {
				r.Undecided("R1", construct, "bool forwarded through more than 3 wrappers")
				return
			}
			ncall := 0
			for _, cf := range p.SrcFuncs() {
				allCalls(cf, func(b *ssa.BasicBlock, c ssa.CallInstruction) {
					if cv, ok := c.(*ssa.Call); ok && isCallTo(cv, fn) {
						ncall++
						checkBoolUse(cv, wrapped, funcName(fn)+" (forwards "+what+")", depth+1)
					} else if ok2 := isCallTo(c, fn); ok2 {
						ncall++
						r.Check("R1", fmt.Sprintf("%s called by go/defer in %s", funcName(fn), funcName(cf)), false, p.Pos(c.Pos()), "the bool result of a stackless wrapper is dropped by a go/defer statement")
					}
				})
			}
			r.Check("R1", construct, true, p.Pos(call.Pos()), fmt.Sprintf("bool result returned to %d callers, each checked", ncall))
		default:
			r.Check("R1", construct, false, p.Pos(call.Pos()), "the bool result ('false' = queue full, nothing was done) is discarded: under load the operation is silently skipped")
		}
	}
	for _, sl := range slots {
		for _, fn := range p.SrcFuncs() {
			allCalls(fn, func(b *ssa.BasicBlock, c ssa.CallInstruction) {
				cc := c.Common()
				if cc.StaticCallee() != nil || cc.IsInvoke() {
					return
				}
				u, ok := cc.Value.(*ssa.UnOp)
				if !ok {
					return
				}
				if g, ok := u.X.(*ssa.Global); !ok || g != sl.g {
					return
				}
				cv, isCall := c.(*ssa.Call)
				if !isCall {
					r.Check("R1", "stackless slot "+sl.g.Name()+" called by go/defer in "+funcName(fn), false, p.Pos(c.Pos()), "result dropped")
					return
				}
				checkBoolUse(cv, sl.wrapped, "stackless slot "+sl.g.Name(), 0)
			})
		}
	}
	r.Floor("R1", "stackless call sites (incl. forwarded)", nsites, 6)

	// --- R4: whichever way the operation ran, its buffered output is forwarded ----
	runC22Forward(p, r)

	// --- R2: sibling agreement of the body compressors --------------------
	newCBS := p.Func("newCompressedBodyStream")
	setCE := p.Func("(*ResponseHeader).SetContentEncodingBytes")
	addVary := p.Func("(*ResponseHeader).addVaryBytes")
	setCL := p.Func("(*ResponseHeader).SetContentLength")
	hasAE := p.Func("(*RequestHeader).HasAcceptEncodingBytes")
	for n, f := range map[string]*ssa.Function{"newCompressedBodyStream": newCBS, "SetContentEncodingBytes": setCE, "addVaryBytes": addVary, "SetContentLength": setCL, "HasAcceptEncodingBytes": hasAE} {
		if f == nil {
			r.Undecided("R2", "anchor "+n, "function not found")
			return
		}
	}
	type sib struct {
		fn       *ssa.Function
		guards   map[string]bool
		token    string // global name passed to SetContentEncodingBytes
		tokenVal string
		oneShot  *ssa.Function
		streamFn *ssa.Function
		setsCL   bool
		vary     bool
	}
	var sibs []*sib
	for _, fn := range p.funcsIn("") {
		if recvTypeName(fn) != "Response" {
			continue
		}
		isSib := false
		allCalls(fn, func(b *ssa.BasicBlock, c ssa.CallInstruction) {
			if isCallTo(c, newCBS) {
				isSib = true
			}
		})
		if !isSib {
			continue
		}
		s := &sib{fn: fn, guards: map[string]bool{}}
		// guards: callees whose result decides an early return
		for _, b := range fn.Blocks {
			ifi, ok := b.Instrs[len(b.Instrs)-1].(*ssa.If)
			if !ok {
				continue
			}
			early := false
			for _, su := range b.Succs {
				if _, isRet := su.Instrs[len(su.Instrs)-1].(*ssa.Return); isRet && len(su.Instrs) <= 2 {
					early = true
				}
			}
			if !early {
				continue
			}
			for a := range condAtoms(ifi.Cond) {
				if strings.HasPrefix(a, "call:") || strings.HasPrefix(a, "builtin:") || strings.HasPrefix(a, "field:") {
					// normalise away receiver paths
					if i := strings.Index(a, "["); i > 0 {
						a = a[:i]
					}
					s.guards[a] = true
				}
			}
		}
		allCalls(fn, func(b *ssa.BasicBlock, c ssa.CallInstruction) {
			cc := c.Common()
			switch {
			case isCallTo(c, setCE):
				s.token = globalOf(cc.Args[1])
				if g := p.Root().Var(s.token); g != nil {
					s.tokenVal = globalBytesValue(p, g)
				}
			case isCallTo(c, addVary):
				s.vary = globalOf(cc.Args[1]) == "strAcceptEncoding"
			case isCallTo(c, setCL):
				if k, ok := constInt(cc.Args[1]); ok && k == -1 {
					s.setsCL = true
				}
			case isCallTo(c, newCBS):
				if f, ok := stripConv(cc.Args[2]).(*ssa.Function); ok {
					s.streamFn = f
				}
			default:
				if f := cc.StaticCallee(); f != nil && strings.HasPrefix(f.Name(), "Append") && strings.HasSuffix(f.Name(), "BytesLevel") {
					s.oneShot = f
				}
			}
		})
		sibs = append(sibs, s)
	}
	r.Floor("R2", "body compressor siblings", len(sibs), 4)
	// the siblings assign the same Response fields: a compressor that swaps in the compressed buffer but leaves
	// the zero-copy alias (bodyRaw) of the uncompressed body in place sends the raw bytes under Content-Encoding
	{
		stored := map[*ssa.Function]map[string]bool{}
		union := map[string]bool{}
		for _, sb := range sibs {
			m := map[string]bool{}
			for _, b := range sb.fn.Blocks {
				for _, in := range b.Instrs {
					if st, ok := in.(*ssa.Store); ok {
						if fa, ok := st.Addr.(*ssa.FieldAddr); ok && typeNameOf(fa.X) == "Response" {
							m[fieldName(fa.X.Type(), fa.Field)] = true
							union[fieldName(fa.X.Type(), fa.Field)] = true
						}
					}
				}
			}
			stored[sb.fn] = m
		}
		for _, sb := range sibs {
			var missing []string
			for f := range union {
				if !stored[sb.fn][f] {
					missing = append(missing, f)
				}
			}
			sort.Strings(missing)
			r.Check("R2", funcName(sb.fn)+": assigns the same Response fields as its sibling compressors", len(missing) == 0, p.Pos(sb.fn.Pos()),
				"not assigned here but by the siblings: "+strings.Join(missing, ", ")+" - e.g. a body set with SetBodyRaw stays in bodyRaw, which Write prefers over the swapped-in compressed buffer: the raw bytes go out under the declared Content-Encoding")
		}
	}
	// package each coder must reach, by the token it announces
	wantPkg := map[string][]string{"gzip": {"/gzip"}, "deflate": {"/flate", "/zlib"}, "br": {"/brotli"}, "zstd": {"/zstd"}}
	reachesPkg := func(f *ssa.Function, sufs []string) bool {
		if f == nil {
			return false
		}
		for g := range p.reachableFuncs([]*ssa.Function{f}, 8) {
			q := g
			for q.Parent() != nil {
				q = q.Parent()
			}
			path := ""
			if q.Pkg != nil {
				path = q.Pkg.Pkg.Path()
			} else if o := q.Object(); o != nil && o.Pkg() != nil {
				path = o.Pkg().Path()
			}
			for _, s := range sufs {
				if strings.HasSuffix(path, s) {
					return true
				}
			}
		}
		return false
	}
	tokOf := map[*ssa.Function]string{}
	for _, s := range sibs {
		name := funcName(s.fn)
		tokOf[s.fn] = s.token
		r.Check("R2", name+": announces an encoding token and adds Vary: Accept-Encoding", s.token != "" && s.vary, p.Pos(s.fn.Pos()), "token="+s.token+" vary="+fmt.Sprint(s.vary))
		// R8: the announcement follows the installation. Every path to the call that stores the encoding token has
		// installed the compressed representation: a store of the compressed stream into bodyStream, or of the buffer
		// the one-shot compressor filled into body. A path that keeps the original bytes ("did not shrink") and still
		// reaches the announcement labels uncompressed data as compressed.
		{
			installs := func(i ssa.Instruction) bool {
				st, ok := i.(*ssa.Store)
				if !ok {
					return false
				}
				base, fv := fieldOfAddr(st.Addr)
				if fv == nil || base == nil || typeNameOf(base) != "Response" {
					return false
				}
				return fv.Name() == "bodyStream" || fv.Name() == "body"
			}
			var hit ssa.Instruction
			var path []*ssa.BasicBlock
			ncall := 0
			allCalls(s.fn, func(b *ssa.BasicBlock, c ssa.CallInstruction) {
				if c.Common().StaticCallee() != setCE || hit != nil {
					return
				}
				ncall++
				hit, path = reachAvoiding(s.fn, nil, func(i ssa.Instruction) bool { return i == ssa.Instruction(c) }, installs, nil)
			})
			r.Check("R8", name+": the encoding is announced only on paths that installed the compressed body", hit == nil && ncall > 0, p.Pos(s.fn.Pos()),
				"SetContentEncodingBytes is reachable without a store of the compressed stream or buffer into the response: the original bytes go out labelled with the encoding, and the peer fails to decode them (or decodes garbage)", blocksString(p, path)...)
		}
		// the source bytes of the one-shot compression live in the response's own body buffer: that buffer goes back
		// to its pool only after the compressor has read it (a pooled buffer is handed to the next Get at once)
		if s.oneShot != nil {
			isPut := func(i ssa.Instruction) bool {
				c, ok := i.(ssa.CallInstruction)
				if !ok {
					return false
				}
				f := c.Common().StaticCallee()
				if f == nil || f.Name() != "Put" {
					return false
				}
				for _, a := range c.Common().Args {
					if _, fv := loadedField(a); fv != nil && fv.Name() == "body" {
						return true
					}
				}
				return false
			}
			bad := false
			var wit []string
			for _, b := range s.fn.Blocks {
				for _, in := range b.Instrs {
					if !isPut(in) {
						continue
					}
					if hit, path := reachAvoiding(s.fn, in, func(i ssa.Instruction) bool {
						c, ok := i.(ssa.CallInstruction)
						return ok && c.Common().StaticCallee() == s.oneShot
					}, nil, nil); hit != nil {
						bad = true
						wit = blocksString(p, path)
					}
				}
			}
			r.Check("R2", name+": the old body buffer goes back to its pool only after the one-shot compressor has read it", !bad, p.Pos(s.fn.Pos()),
				"the buffer holding the uncompressed body is Put into the pool and the compressor reads it afterwards: a concurrent Get overwrites the source, and the response decodes to bytes the handler never produced", wit...)
		}
		r.Check("R2", name+": stream branch resets Content-Length to -1", s.setsCL, p.Pos(s.fn.Pos()), "a compressed stream has unknown length; keeping the old Content-Length frames the response wrongly")
		sufs, known := wantPkg[s.tokenVal]
		if !known {
			r.Check("R2", name+": encoding token is one of gzip/deflate/br/zstd", false, p.Pos(s.fn.Pos()), "token value "+fmt.Sprintf("%q", s.tokenVal))
		} else {
			r.Check("R2", name+": one-shot compressor reaches the package of its token", reachesPkg(s.oneShot, sufs), p.Pos(s.fn.Pos()), fmt.Sprintf("token %q, one-shot %s", s.tokenVal, funcName(s.oneShot)))
			r.Check("R2", name+": stream compressor reaches the package of its token", reachesPkg(s.streamFn, sufs), p.Pos(s.fn.Pos()), fmt.Sprintf("token %q, stream %s", s.tokenVal, funcName(s.streamFn)))
		}
		for _, o := range sibs {
			if o == s {
				continue
			}
			for g := range o.guards {
				if !s.guards[g] {
					r.Check("R2", name+": has the guard "+g+" that sibling "+funcName(o.fn)+" has", false, p.Pos(s.fn.Pos()), "guards of "+name+": "+joinSorted(s.guards))
				}
			}
		}
		r.Check("R2", name+": guard set agrees with all siblings", true, p.Pos(s.fn.Pos()), joinSorted(s.guards))
	}

	// --- R3: a coder is called only under its own Accept-Encoding test -----
	nsel := 0
	for _, fn := range p.SrcFuncs() {
		allCalls(fn, func(b *ssa.BasicBlock, c ssa.CallInstruction) {
			f := c.Common().StaticCallee()
			tok, isSib := tokOf[f]
			if !isSib || tok == "" {
				return
			}
			// only where a request is in scope; Response.WriteGzipLevel & co. are
			// explicit API through which the caller names the coding
			hasReq := false
			for _, prm := range fn.Params {
				if strings.HasSuffix(prm.Type().String(), "RequestCtx") {
					hasReq = true
				}
			}
			for _, fv := range fn.FreeVars {
				if strings.HasSuffix(fv.Type().String(), "RequestCtx") {
					hasReq = true
				}
			}
			if !hasReq {
				r.Note("R3 exempt: %s calls %s without a request in scope (explicit API, caller names the coding)", funcName(fn), funcName(f))
				return
			}
			nsel++
			ok := false
			seen := ""
			for _, g := range guardsOf(b) {
				if cv, isCall := g.Cond.(*ssa.Call); isCall && isCallTo(cv, hasAE) && g.Pol {
					seen = globalOf(cv.Call.Args[1])
					if seen == tok {
						ok = true
					}
				}
			}
			r.Check("R3", fmt.Sprintf("%s selected in %s under HasAcceptEncodingBytes(%s)", funcName(f), funcName(fn), tok), ok, p.Pos(c.Pos()),
				fmt.Sprintf("the call is not control-dependent on a true HasAcceptEncodingBytes(%s) test (found: %q): a client that did not offer this coding would receive it", tok, seen))
		})
	}
	r.Floor("R3", "coder selection sites", nsel, 7)
	runC22Levels(p, r)
	runC22PoolFamily(p, r)
	runC22Vary(p, r)
	runC22SyncEncoder(p, r)
	runC22CleanReaderPooled(p, r)
}

// runC22Levels (R5): a compression level comes from the caller and may be
// anything. Where a codec constructor can fail for an invalid level and that
// failure ends in a panic, the level handed to it has passed a normaliser all
// of whose returns lie inside the codec's valid range (decided in the zone
// domain against the constants of the codec package); where the failure is
// handled (clamped and retried) nothing more is required.
func runC22Levels(p *Prog, r *Report) {
	type rng struct{ lo, hi string }
	valid := map[string]rng{ // codec package path suffix -> names of its lowest / highest valid level
		"compress/zstd": {"SpeedFastest", "SpeedBestCompression"},
		"compress/gzip": {"HuffmanOnly", "BestCompression"},
		"compress/zlib": {"HuffmanOnly", "BestCompression"},
	}
	n := 0
	for _, fn := range p.funcsIn("") {
		for _, b := range fn.Blocks {
			for _, in := range b.Instrs {
				c, ok := in.(*ssa.Call)
				if !ok {
					continue
				}
				f := c.Call.StaticCallee()
				if f == nil || f.Pkg == nil || inModule(f) || !strings.HasPrefix(f.Name(), "NewWriter") {
					continue
				}
				var vr rng
				found := false
				for suf, v := range valid {
					if strings.HasSuffix(f.Pkg.Pkg.Path(), suf) {
						vr, found = v, true
					}
				}
				tup, isTup := c.Type().(*types.Tuple)
				if !found || !isTup || tup.Len() != 2 {
					continue
				}
				n++
				name := fmt.Sprintf("%s: %s.%s", funcName(fn), f.Pkg.Pkg.Name(), f.Name())
				hit, _ := reachAvoiding(fn, in, func(i ssa.Instruction) bool { _, isP := i.(*ssa.Panic); return isP }, nil, nil)
				if hit == nil {
					r.Check("R5", name+" cannot turn an invalid compression level into a panic", true, p.Pos(c.Pos()), "the constructor's error is handled")
					continue
				}
				// the level that reaches the constructor: a normaliser call in this function
				lo, okl := constOfObj(f.Pkg.Pkg, vr.lo)
				hi, okh := constOfObj(f.Pkg.Pkg, vr.hi)
				if !okl || !okh {
					r.Undecided("R5", name, "level constants "+vr.lo+"/"+vr.hi+" not found in the codec package")
					continue
				}
				lov, _ := constant.Int64Val(lo)
				hiv, _ := constant.Int64Val(hi)
				var norm *ssa.Function
				allCalls(fn, func(bb *ssa.BasicBlock, cc ssa.CallInstruction) {
					if g := cc.Common().StaticCallee(); g != nil && inModule(g) && len(g.Params) == 1 && isIntType(g.Params[0].Type()) &&
						g.Signature.Results().Len() == 1 && isIntType(g.Signature.Results().At(0).Type()) && dominatesInstr(cc.(ssa.Instruction), in) {
						norm = g
					}
				})
				if norm == nil {
					r.Check("R5", name+" cannot turn an invalid compression level into a panic", false, p.Pos(c.Pos()),
						"a panic is reachable after the constructor and the level is not normalised in this function")
					continue
				}
				res := zoneWalk(p, norm, nil, func(rt *ssa.Return) bool { return true }, func(z *zone, rt *ssa.Return) (bool, string) {
					rv := returnResults(rt)[0]
					a, oa := z.term(rv)
					if !z.entails(0, lov, a, oa, 0) { // lo <= rv
						return false, fmt.Sprintf("a return of %s is not shown to be >= %s (%d)", funcName(norm), vr.lo, lov)
					}
					if !z.entails(a, oa, 0, hiv, 0) { // rv <= hi
						return false, fmt.Sprintf("a return of %s is not shown to be <= %s (%d)", funcName(norm), vr.hi, hiv)
					}
					return true, ""
				}, nil)
				if res.undecided != "" {
					r.Undecided("R5", name, res.undecided)
					continue
				}
				r.Check("R5", name+" cannot turn an invalid compression level into a panic", res.bad == 0 && res.successReturns > 0, p.Pos(c.Pos()),
					fmt.Sprintf("a panic is reachable when the constructor rejects the level, and %s: a caller-supplied level outside the codec's range crashes the process (the panic is raised on a worker goroutine)", res.detail), res.witness...)
			}
		}
	}
	r.Floor("R5", "fallible codec constructors", n, 3)
}

// globalBytesValue evaluates a package-level `var x = []byte("...")` by
// reading the package initialiser.
func globalBytesValue(p *Prog, g *ssa.Global) string {
	init := g.Pkg.Func("init")
	if init == nil {
		return ""
	}
	for _, b := range init.Blocks {
		for _, in := range b.Instrs {
			st, ok := in.(*ssa.Store)
			if !ok || st.Addr != ssa.Value(g) {
				continue
			}
			v := st.Val
			for i := 0; i < 4; i++ {
				if s, ok := stringConst(v); ok {
					return s
				}
				switch w := v.(type) {
				case *ssa.Convert:
					v = w.X
				case *ssa.ChangeType:
					v = w.X
				default:
					i = 4
				}
			}
		}
	}
	return ""
}

// runC22Forward: in the stackless writer's dispatch function (the caller of the
// stackless slot whose wrapped function fills an intermediate buffer), every
// return either reports a non-nil error or follows the epilogue that forwards
// the buffer to the destination and resets it. An early "return w.err" after
// running the operation inline would drop the compressed bytes silently.
func runC22Forward(p *Prog, r *Report) {
	do := p.Func("stackless.(*writer).do")
	xreset := p.Func("stackless.(*xWriter).Reset")
	if do == nil || xreset == nil {
		r.Undecided("R4", "anchor stackless.(*writer).do / (*xWriter).Reset", "function not found")
		return
	}
	const bFwd uint64 = 1
	nret, bad := 0, 0
	var wit []string
	pos := ""
	sawWrite := false
	allCalls(do, func(b *ssa.BasicBlock, c ssa.CallInstruction) {
		if isInvoke(c, "Write") {
			sawWrite = true
		}
	})
	x := NewExplorer(p, do, Hooks{
		Instr: func(x *Explorer, st *State, in ssa.Instruction) {
			if c, ok := in.(ssa.CallInstruction); ok && isCallTo(c, xreset) {
				st.Set(bFwd)
			}
		},
		Exit: func(x *Explorer, st *State, ret *ssa.Return, pan *ssa.Panic) {
			if ret == nil {
				return
			}
			nret++
			rr := returnResults(ret)
			nonNilErr := len(rr) == 1 && x.Eval(st, rr[0]) == True
			if !st.Has(bFwd) && !nonNilErr {
				bad++
				if wit == nil {
					wit = x.Path(st)
					pos = p.Pos(ret.Pos())
				}
			}
		},
	})
	x.TrackAll = true
	x.Run(nil)
	r.Counts["R4 stackless writer.do return arrivals"] = nret
	r.Check("R4", "stackless writer.do forwards the buffered output before every non-error return", bad == 0 && nret > 0 && sawWrite, pos,
		fmt.Sprintf("%d of %d explored return arrivals leave (*writer).do without passing the forward-and-reset epilogue and without a known non-nil error (destination Write present: %v): compressed bytes produced by the operation stay in the intermediate buffer", bad, nret, sawWrite), wit...)
}

// ---- R6: a pooled codec goes back to the pool it came from ---------------
//
// Every stackless-writer pool holds values of the one interface type
// stackless.Writer, and the real-writer pools are handed out through
// type assertions, so the compiler does not notice a zstd encoder put into
// the deflate pool: the next deflate stream would be written by it. For
// every call of a helper that puts its argument into a codec pool, the
// argument - followed back through merges and conversions - is the result of
// the helper that takes from the same pool (same global), and is released
// with the level it was acquired with.

// codecPools: the sync.Pool-carrying globals a function reads.
func codecPools(fn *ssa.Function) map[string]bool {
	out := map[string]bool{}
	for _, b := range fn.Blocks {
		for _, in := range b.Instrs {
			for _, op := range in.Operands(nil) {
				if g, ok := (*op).(*ssa.Global); ok && strings.Contains(g.Type().String(), "sync.Pool") {
					out[g.Name()] = true
				}
			}
		}
	}
	return out
}

func callsPoolMethod(fn *ssa.Function, name string) bool {
	found := false
	allCalls(fn, func(b *ssa.BasicBlock, c ssa.CallInstruction) {
		if f := c.Common().StaticCallee(); f != nil && f.Name() == name && recvTypeName(f) == "Pool" && f.Pkg != nil && f.Pkg.Pkg.Path() == "sync" {
			found = true
		}
	})
	return found
}

func runC22PoolFamily(p *Prog, r *Report) {
	inCodecFile := func(fn *ssa.Function) bool {
		f := p.Pos(fn.Pos())
		return strings.HasPrefix(f, "compress.go:") || strings.HasPrefix(f, "brotli.go:") || strings.HasPrefix(f, "zstd.go:")
	}
	releases := map[*ssa.Function]map[string]bool{}
	acquires := map[*ssa.Function]map[string]bool{}
	for _, fn := range p.funcsIn("") {
		if !inCodecFile(fn) || fn.Blocks == nil {
			continue
		}
		pools := codecPools(fn)
		if len(pools) == 0 {
			continue
		}
		if callsPoolMethod(fn, "Put") && fn.Signature.Results().Len() == 0 {
			releases[fn] = pools
		}
		if callsPoolMethod(fn, "Get") && fn.Signature.Results().Len() > 0 {
			acquires[fn] = pools
		}
	}
	r.Floor("R6", "codec pool release helpers", len(releases), 6)
	r.Floor("R6", "codec pool acquire helpers", len(acquires), 6)
	var origins func(v ssa.Value, seen map[ssa.Value]bool, out map[*ssa.Call]bool, unknown *bool)
	origins = func(v ssa.Value, seen map[ssa.Value]bool, out map[*ssa.Call]bool, unknown *bool) {
		if seen[v] {
			return
		}
		seen[v] = true
		switch v := v.(type) {
		case *ssa.Phi:
			for _, e := range v.Edges {
				origins(e, seen, out, unknown)
			}
		case *ssa.TypeAssert:
			origins(v.X, seen, out, unknown)
		case *ssa.ChangeInterface:
			origins(v.X, seen, out, unknown)
		case *ssa.MakeInterface:
			origins(v.X, seen, out, unknown)
		case *ssa.Extract:
			origins(v.Tuple, seen, out, unknown)
		case *ssa.Call:
			out[v] = true
		case *ssa.Const:
		default:
			*unknown = true
		}
	}
	n := 0
	for _, fn := range p.funcsIn("") {
		for _, b := range fn.Blocks {
			for _, in := range b.Instrs {
				c, ok := in.(ssa.CallInstruction)
				if !ok {
					continue
				}
				rel := c.Common().StaticCallee()
				want, isRel := releases[rel]
				if !isRel || len(c.Common().Args) == 0 {
					continue
				}
				n++
				out := map[*ssa.Call]bool{}
				unknown := false
				origins(c.Common().Args[0], map[ssa.Value]bool{}, out, &unknown)
				construct := fmt.Sprintf("%s: the codec given to %s was taken from the same pool", funcName(fn), rel.Name())
				if len(out) == 0 {
					// a parameter or a field: the owner that stored it is judged where it acquires
					r.Check("R6", construct, true, p.Pos(c.Pos()), "the value is not acquired in this function")
					continue
				}
				var bad []string
				for oc := range out {
					acq := oc.Call.StaticCallee()
					got, isAcq := acquires[acq]
					switch {
					case !isAcq:
						bad = append(bad, fmt.Sprintf("comes from %s, which is not a pool helper", calleeName(oc)))
					case !sameSet(got, want):
						bad = append(bad, fmt.Sprintf("was taken from %s by %s but is put into %s", joinSorted(got), acq.Name(), joinSorted(want)))
					default:
						// same level on both sides
						la, lr := oc.Call.Args[len(oc.Call.Args)-1], c.Common().Args[len(c.Common().Args)-1]
						if isIntType(la.Type()) && isIntType(lr.Type()) && len(acq.Params) > 1 && len(rel.Params) > 1 && la != lr {
							ka, oka := constInt(la)
							kr, okr := constInt(lr)
							ba, fa := loadedField(la)
							br, fr := loadedField(lr)
							sameField := fa != nil && fa == fr && ba == br && !storesField(fn, fa)
							if !(oka && okr && ka == kr) && !(globalOfValue(la) != "" && globalOfValue(la) == globalOfValue(lr)) && !sameField {
								bad = append(bad, fmt.Sprintf("is acquired with level %s and released with level %s", la.Name(), lr.Name()))
							}
						}
					}
				}
				sort.Strings(bad)
				r.Check("R6", construct, len(bad) == 0, p.Pos(c.Pos()),
					"the codec "+strings.Join(bad, "; ")+": the pool's next taker gets a coder of another format (or level) behind the shared interface type, and what it writes does not decode per the Content-Encoding it is sent with")
			}
		}
	}
	r.Floor("R6", "codec release call sites", n, 12)
}

func sameSet(a, b map[string]bool) bool {
	if len(a) != len(b) {
		return false
	}
	for k := range a {
		if !b[k] {
			return false
		}
	}
	return true
}

func globalOfValue(v ssa.Value) string {
	if u, ok := v.(*ssa.UnOp); ok {
		if g, ok := u.X.(*ssa.Global); ok {
			return g.Name()
		}
	}
	return ""
}

// storesField: fn itself assigns the field (then two loads of it need not agree).
func storesField(fn *ssa.Function, f *types.Var) bool {
	for _, b := range fn.Blocks {
		for _, in := range b.Instrs {
			if st, ok := in.(*ssa.Store); ok {
				if fa, ok := st.Addr.(*ssa.FieldAddr); ok && fieldVar(fa.X.Type(), fa.Field) == f {
					return true
				}
			}
		}
	}
	return false
}

// ---- R7: Vary membership is decided token-wise -----------------------------
//
// addVaryBytes adds Accept-Encoding to the Vary list unless it is already a
// member. "Already a member" has to be a whole-token test over the
// comma-separated list: with a substring search a handler-set
// "Vary: X-Accept-Encoding-Hint" passes for membership and the compressed
// response goes out without the Accept-Encoding member caches rely on.
// Every return of the function that has not written the Vary header follows a
// true answer of a list-member matcher (a function that walks the list with
// headerValueScanner and compares whole members).
func runC22Vary(p *Prog, r *Report) {
	fn := p.Func("(*ResponseHeader).addVaryBytes")
	next := p.Func("(*headerValueScanner).next")
	if fn == nil || next == nil {
		r.Undecided("R7", "ResponseHeader.addVaryBytes / headerValueScanner.next", "anchor not found")
		return
	}
	isMatcher := func(f *ssa.Function) bool {
		if f == nil || f.Blocks == nil || !isBool1(f) {
			return false
		}
		walks, compares := false, false
		allCalls(f, func(b *ssa.BasicBlock, c ssa.CallInstruction) {
			switch cal := c.Common().StaticCallee(); {
			case cal == next:
				walks = true
			case cal != nil && (cal.Name() == "caseInsensitiveCompare" || cal.Name() == "EqualFold" || cal.Name() == "Equal"):
				compares = true
			}
		})
		return walks && compares
	}
	const (
		bSet uint64 = 1 << iota
		bMember
	)
	n, bad := 0, 0
	var wit []string
	x := NewExplorer(p, fn, Hooks{
		Instr: func(x *Explorer, st *State, in ssa.Instruction) {
			if c, ok := in.(ssa.CallInstruction); ok {
				if f := c.Common().StaticCallee(); f != nil && recvTypeName(f) == "ResponseHeader" && strings.HasPrefix(f.Name(), "Set") {
					st.Set(bSet)
				}
			}
		},
		Branch: func(x *Explorer, st *State, cond ssa.Value, taken bool, from *ssa.BasicBlock) {
			pos, v := stripNot(cond)
			if c, ok := v.(*ssa.Call); ok && isMatcher(c.Call.StaticCallee()) && taken == pos {
				st.Set(bMember)
			}
		},
		Exit: func(x *Explorer, st *State, ret *ssa.Return, pan *ssa.Panic) {
			if ret == nil {
				return
			}
			n++
			if !st.Has(bSet) && !st.Has(bMember) {
				bad++
				if wit == nil {
					wit = x.Path(st)
				}
			}
		},
	})
	x.Run(nil)
	r.Check("R7", "ResponseHeader.addVaryBytes: a return that leaves the Vary header as it was follows a whole-member match of the list", bad == 0 && n > 0 && !x.Aborted, p.Pos(fn.Pos()),
		fmt.Sprintf("%d of %d explored returns leave Vary untouched without a list-member match (a substring search also 'finds' Accept-Encoding inside another member's name): the compressed response lacks Vary: Accept-Encoding", bad, n), wit...)
}

func isBool1(f *ssa.Function) bool {
	res := f.Signature.Results()
	return res.Len() == 1 && isBool(res.At(0).Type())
}

// runC22SyncEncoder (R9): the stackless writer runs one operation of the wrapped compressor at a time and, when the
// operation has returned, reads what the compressor wrote into its destination buffer and resets that buffer. That
// only works for a compressor that has finished writing to its destination when Write / Flush / Close return. The
// zstd encoder of klauspost/compress does not, unless it is built with WithEncoderConcurrency(1) ("for streams,
// setting a value of 1 will disable async compression"): by default finished blocks are written from the encoder's
// own goroutines after Write returned, race with the reset, and are lost - the compressed stream fails its CRC.
// Every zstd.NewWriter call in the module passes WithEncoderConcurrency with the constant 1.
func runC22SyncEncoder(p *Prog, r *Report) {
	isZstd := func(f *ssa.Function, name string) bool {
		return f != nil && f.Name() == name && f.Pkg != nil && strings.HasSuffix(f.Pkg.Pkg.Path(), "klauspost/compress/zstd")
	}
	n := 0
	for _, fn := range p.funcsIn("") {
		allCalls(fn, func(b *ssa.BasicBlock, c ssa.CallInstruction) {
			if !isZstd(c.Common().StaticCallee(), "NewWriter") {
				return
			}
			n++
			sync := false
			args := c.Common().Args
			if len(args) >= 2 {
				if sl, ok := args[len(args)-1].(*ssa.Slice); ok {
					if al, ok := sl.X.(*ssa.Alloc); ok {
						for _, ref := range *al.Referrers() {
							ia, ok := ref.(*ssa.IndexAddr)
							if !ok {
								continue
							}
							for _, r2 := range *ia.Referrers() {
								st, ok := r2.(*ssa.Store)
								if !ok {
									continue
								}
								if oc, ok := stripConv(st.Val).(*ssa.Call); ok && isZstd(oc.Call.StaticCallee(), "WithEncoderConcurrency") && len(oc.Call.Args) == 1 {
									if k, isK := constInt(oc.Call.Args[0]); isK && k == 1 {
										sync = true
									}
								}
							}
						}
					}
				}
			}
			r.Check("R9", funcName(fn)+": the zstd encoder is built synchronous (WithEncoderConcurrency(1))", sync, p.Pos(c.Pos()),
				"zstd.NewWriter without WithEncoderConcurrency(1): the encoder writes finished blocks to its destination from its own goroutines after Write has returned; behind the stackless writer, which reads and resets that destination between operations, blocks are lost and the stream does not decode (CRC check failed)")
		})
	}
	r.Floor("R9", "zstd.NewWriter calls", n, 1)
}

// runC22CleanReaderPooled (R10): brotli.Reader.Reset does not drop the input a reader has buffered, so a reader that
// stopped before the end of its stream (a size limit, a corrupt stream, a caller that wanted only the first bytes)
// decodes the next stream it is given behind those leftovers. Every call that returns a brotli reader to its pool is
// control-dependent on a test that found the error of the read nil.
func runC22CleanReaderPooled(p *Prog, r *Report) {
	rel := p.Func("releaseBrotliReader")
	if rel == nil {
		r.Undecided("R10", "releaseBrotliReader", "not found")
		return
	}
	n := 0
	for _, fn := range p.funcsIn("") {
		allCalls(fn, func(b *ssa.BasicBlock, c ssa.CallInstruction) {
			if c.Common().StaticCallee() != rel {
				return
			}
			n++
			clean := false
			for _, g := range guardsOf(b) {
				bo, ok := g.Cond.(*ssa.BinOp)
				if !ok || !(bo.Op == token.EQL || bo.Op == token.NEQ) {
					continue
				}
				if (isNilConst(bo.Y) && strings.HasSuffix(bo.X.Type().String(), "error")) || (isNilConst(bo.X) && strings.HasSuffix(bo.Y.Type().String(), "error")) {
					ev := bo.X
					if isNilConst(bo.X) {
						ev = bo.Y
					}
					// the error of the read, not the one of taking the reader from the pool
					if ex, ok := ev.(*ssa.Extract); ok {
						if cl, ok := ex.Tuple.(*ssa.Call); ok && cl.Call.StaticCallee() != nil && strings.HasPrefix(cl.Call.StaticCallee().Name(), "acquire") {
							continue
						}
					}
					if (bo.Op == token.EQL) == g.Pol {
						clean = true
					}
				}
			}
			r.Check("R10", funcName(fn)+": a brotli reader goes back to its pool only after its stream was read without an error", clean, p.Pos(c.Pos()),
				"releaseBrotliReader is not under a test that found the read error nil: a reader stopped by the size limit (or by a corrupt stream) keeps its buffered input across Reset, and the next, unrelated brotli body fails to decode")
		})
	}
	r.Floor("R10", "places that return a brotli reader to its pool", n, 1)
}
