package main

// C04 (responses belong to their request), C18 (HostClient pool accounting),
// C38 (pipeline deadlines): typestate / pairing rules on the client.

import (
	"fmt"
	"go/token"
	"go/types"
	"sort"
	"strings"

	"golang.org/x/tools/go/ssa"
)

func init() {
	register(&propDef{
		id:      "C04",
		explain: "Structural necessary conditions of 'a client call returns the response to its own request': (R1) in the transport's RoundTrip a connection obtained from AcquireConn is, on every path, closed, released to the pool, or handed to the stream-close closure exactly once; (R2) it is released to the pool only on paths where the response was read without error; (R3) inside the stream-close closure the connection is pooled only under a condition that depends on the body having been read to its end (and on the close decision and the caller's error); (R4) in the pipelining client a work item is given back to the pool by the caller only when it was never queued or its completion was received - never after a timeout while the connection goroutines still hold it; the pipeline writer hands every request it wrote either to the reader queue or completes it with an error and stops; (R5) response-header fields that closure consults live and that the transport did not also capture when it built the closure (recomputed on every run; none on today's tree, where the stream remembers its declared length and the close flag is captured) are never reset before the body stream of the same Response is closed, in any function of the module; (R6) the connection's buffered reader is returned to its pool by RoundTrip itself exactly on the paths on which no body stream reading through it is handed to the caller (there the stream-close callback returns it); (R7) every client function that reads a response off a connection for a request has consulted the request's IsHead() on every path to that read and stores SkipBody = true under it - a HEAD response announces a length but carries no body, and reading one would take the next response's bytes for it. (R8) where the client itself raises Response.SkipBody on the caller's Response (HEAD exchanges), the caller's value is stored back on every path before the function returns or signals completion, so the flag cannot stick to a reused Response object and leave a later GET body unread on the connection. (R9) in the pipeline connection worker the pending-response queue is drained only on paths that have received the end of both the writer and the reader goroutine (select cases and plain receives on the two completion channels), so no item can enter the queue after the drain and survive into the re-dialled connection. (R10) the pipeline worker does not return, once both its goroutines have stopped, before it found the pending queue empty; (R13) in requestStream.Read an error of the chunk-size parser is returned only after it was compared with io.EOF - a chunked body cut off at a chunk boundary is not a complete one; (R12) the pipeline reader reads each response with SkipBody computed from the request's method and StreamBody off - the caller's flags cannot leave a body in the shared reader; (R11) the close-or-release decision at the end of RoundTrip depends on the caller's Response.SkipBody: a body the caller asked not to read is still on the connection. Not decided: interleavings, slow or partial servers, byte-level framing of responses (C03's mirror).",
		run:     runC04,
	})
	register(&propDef{
		id:      "C18",
		explain: "Structural necessary conditions of 'HostClient never exceeds MaxConns, its connection count is exact, and waiters are served': (E1) connsCount pairing on every path: AcquireConn keeps one unit exactly when it returns a freshly dialled connection; decConnsCount gives back one unit or hands it to exactly one dial goroutine for a waiter; dialConnFor gives the inherited unit back on every dial failure and keeps it with the connection otherwise; CloseConn gives back exactly one unit; (R-bound) the increment is control-dependent on connsCount < maxConns in the same critical section, where maxConns is the configured value or the default; (E8) conns, connsCount, connsWait and connsCleanerRun are only accessed under connsLock, wantConn.conn/err under wantConn.mu; (R-idle) a connection taken from the idle list is removed from it in the same critical section. (R-wait) in AcquireConn every return reached after a waiter was queued either hands out what the waiter received or has cancelled it (explicitly or through a deferred closure registered before the waiter was queued), so an abandoned waiter never receives a connection or a slot. (R-cancel) wantConn.cancel has no return before it took the waiter's mutex, reads the delivered connection inside that critical section, and on every path from that read to a return on which the value can be non-nil passes it to ReleaseConn/CloseConn - a delivered connection is never dropped on an unlocked look at the waiter. (R-cleaner) every append to the idle list is followed, in its critical section, by something that makes sure the idle cleaner runs; (R-close) CloseConn closes the connection before it gives the slot back (the freed slot starts the next dial); (R-timer) initTimer, which re-arms the pooled wait timer, contains no explicit panic. Not decided: waiter fairness, deadline timing, interleavings.",
		run:     runC18,
	})
	register(&propDef{
		id:      "C38",
		explain: "Structural necessary conditions of 'pipelined calls with a deadline return by the deadline': in the deadline call path of the pipelining client every blocking channel operation is a select that includes the call's timer (or has a default); once the timer case of a select was taken no further blocking channel operation is executed before the function returns, the returned error is ErrTimeout, and a work item that was never queued is given back; the queue-overflow error of the non-deadline call is only produced on the default branch of a non-blocking send. a queued work item is given back to the pool only after its completion was received (never on the timeout branch, where the connection goroutines still own it - the next caller would get it and receive the late answer to the timed-out request); (R4) every value the connection's writer and reader goroutines store into a work item's error field is non-nil on the path of the store (a sentinel, or a value a branch found non-nil), so a failed item never looks answered. Not decided: actual latency, server stalls, goroutine scheduling.",
		run:     runC38,
	})
}

// ---------------------------------------------------------------- C04

func runC04(p *Prog, r *Report) {
	rt := p.Func("(*transport).RoundTrip")
	acq := p.Func("(*HostClient).AcquireConn")
	closeC := p.Func("(*HostClient).CloseConn")
	relC := p.Func("(*HostClient).ReleaseConn")
	readLB := p.Func("(*Response).ReadLimitBody")
	if rt == nil || acq == nil || closeC == nil || relC == nil || readLB == nil {
		r.Undecided("R1", "anchors RoundTrip / AcquireConn / CloseConn / ReleaseConn / ReadLimitBody", "not found")
	} else {
		var acqCall, readCall *ssa.Call
		allCalls(rt, func(b *ssa.BasicBlock, c ssa.CallInstruction) {
			if cv, ok := c.(*ssa.Call); ok {
				if isCallTo(cv, acq) {
					acqCall = cv
				}
				if isCallTo(cv, readLB) {
					readCall = cv
				}
			}
		})
		if acqCall == nil || readCall == nil {
			r.Undecided("R1", "RoundTrip: AcquireConn / ReadLimitBody calls", "not found")
		} else {
			var ccVal, acqErr ssa.Value
			for _, ref := range *acqCall.Referrers() {
				if ex, ok := ref.(*ssa.Extract); ok {
					if ex.Index == 0 {
						ccVal = ex
					} else {
						acqErr = ex
					}
				}
			}
			nret, bad, nrel, badRel := 0, 0, 0, 0
			var wit, witRel []string
			detail := ""
			nrd, badRd := 0, 0
			var witRd []string
			detailRd := ""
			x := NewExplorer(p, rt, Hooks{
				Instr: func(x *Explorer, st *State, in ssa.Instruction) {
					switch w := in.(type) {
					case *ssa.Call:
						switch {
						case w == acqCall:
							st.N[0] = 0
							st.Set(1)
						case isCallTo(w, closeC) && len(w.Call.Args) == 2 && sameVar(w.Call.Args[1], ccVal):
							st.N[0]++
						case isCallTo(w, relC) && len(w.Call.Args) == 2 && sameVar(w.Call.Args[1], ccVal):
							st.N[0]++
							nrel++
							if x.Eval(st, readCall) != False {
								badRel++
								if witRel == nil {
									witRel = x.Path(st)
								}
							}
						}
					case *ssa.MakeClosure:
						for _, b := range w.Bindings {
							if b == ccVal || holdsVar(b, ccVal) {
								st.N[0]++ // ownership moves to the stream-close closure
								st.Set(2) // ... and with it the reader the handed-out stream reads through
							}
						}
					}
					// the buffered reader of the connection: N[2] counts its releases in this frame
					if cv, ok := in.(*ssa.Call); ok {
						if f := cv.Call.StaticCallee(); f != nil && f.Name() == "AcquireReader" && recvTypeName(f) == "HostClient" {
							st.Set(4)
							st.N[2] = 0
						}
						if f := cv.Call.StaticCallee(); f != nil && f.Name() == "ReleaseReader" && recvTypeName(f) == "HostClient" {
							st.N[2]++
						}
					}
				},
				Exit: func(x *Explorer, st *State, ret *ssa.Return, pan *ssa.Panic) {
					if ret == nil || !st.Has(1) {
						return
					}
					nret++
					want := int8(1)
					if acqErr != nil && x.Eval(st, acqErr) == True {
						want = 0 // acquisition failed: nothing to dispose of
					}
					if st.N[0] != want {
						bad++
						if wit == nil {
							wit = x.Path(st)
							detail = fmt.Sprintf("disposals on this path: %d, expected %d", st.N[0], want)
						}
					}
					// R6: the reader goes back to its pool in this frame exactly when no stream that reads through it was handed out
					if st.Has(4) {
						nrd++
						wantRd := int8(1)
						if st.Has(2) {
							wantRd = 0
						}
						if st.N[2] != wantRd {
							badRd++
							if witRd == nil {
								witRd = x.Path(st)
								detailRd = fmt.Sprintf("ReleaseReader calls in RoundTrip's own frame on this path: %d, expected %d (stream handed out: %v)", st.N[2], wantRd, st.Has(2))
							}
						}
					}
				},
			})
			x.Filter = noIntFilter
			x.Track(readCall)
			if acqErr != nil {
				x.Track(acqErr)
			}
			x.Run(nil)
			r.Check("R1", "RoundTrip: the acquired connection is closed, pooled or handed to the stream closer exactly once on every path", bad == 0 && nret > 0, p.Pos(acqCall.Pos()),
				fmt.Sprintf("%d of %d explored returns violate it (%s): a leaked connection keeps a pool slot forever, a double disposal lets two requests share one connection", bad, nret, detail), wit...)
			r.Check("R6", "RoundTrip: the connection's buffered reader is given back in this frame exactly when no body stream reading through it was handed to the caller", badRd == 0 && nrd > 0, p.Pos(acqCall.Pos()),
				fmt.Sprintf("%d of %d explored returns violate it (%s): a reader that is pooled while a streamed body still reads through it is reset onto another connection by the next request, which then feeds its response bytes to the first caller", badRd, nrd, detailRd), witRd...)
			r.Check("R2", "RoundTrip: the connection goes back to the pool only when the response was read without error", badRel == 0 && nrel > 0, p.Pos(readCall.Pos()),
				fmt.Sprintf("%d of %d explored ReleaseConn arrivals are on paths where the error of ReadLimitBody is not known to be nil: a connection with a half-read response would serve the next request", badRel, nrel), witRel...)
			// R3: the closure
			ncl := 0
			for _, an := range rt.AnonFuncs {
				allCalls(an, func(b *ssa.BasicBlock, c ssa.CallInstruction) {
					if !isCallTo(c, relC) {
						return
					}
					ncl++
					at := map[string]bool{}
					for _, g := range guardsOf(b) {
						at[g.Atom] = true
					}
					need := []string{"requestStream.fullyRead", "ConnectionClose"}
					ok := true
					for _, nd := range need {
						if !hasAtomContaining(at, nd) {
							ok = false
						}
					}
					// the caller's error (wErr parameter) must be part of the decision too
					if !hasAtomPrefix(at, "param:") {
						ok = false
					}
					r.Check("R3", "stream-close closure: the connection is pooled only when the streamed body was read to its end, no close was requested and the caller reported no error", ok, p.Pos(c.Pos()),
						"the guard of ReleaseConn inside the stream-close closure depends on: "+atomsList(at))
				})
			}
			r.Floor("R3", "ReleaseConn sites in stream-close closures", ncl, 1)
			// R5: the header state that closure consults is still intact when it runs
			for _, an := range rt.AnonFuncs {
				has := false
				allCalls(an, func(b *ssa.BasicBlock, c ssa.CallInstruction) {
					if isCallTo(c, relC) {
						has = true
					}
				})
				if has {
					closeInputsRule(p, r, an)
				}
			}
		}
	}
	headSkipsBodyRule(p, r)
	skipBodyRestoredRule(p, r)
	pendingDrainedAfterBothStopped(p, r)
	skippedBodyClosesConn(p, r)
	pipelinedBodyLeavesTheReader(p, r)
	chunkBoundaryEOFIsAnError(p, r)
	// R4a: pipelineWork typestate in the callers
	runPipelineCaller(p, r, "C04")
	// R4b: the writer
	if wfn := p.Func("(*pipelineConnClient).writer"); wfn != nil {
		const (
			bHave uint64 = 1 << iota
			bWritten
			bQueued
			bDone
		)
		n, bad := 0, 0
		var wit []string
		detail := ""
		end := func(x *Explorer, st *State, where string, returning bool) {
			if !st.Has(bHave) {
				return
			}
			n++
			ok := st.Has(bQueued) != st.Has(bDone) // exactly one of: handed to the reader, completed
			if st.Has(bDone) && st.Has(bWritten) && !returning {
				ok = false // a request that went out must be awaited by the reader unless the connection is torn down
			}
			if !ok {
				bad++
				if wit == nil {
					wit = x.Path(st)
					detail = fmt.Sprintf("%s: written=%v queuedForRead=%v completed=%v", where, st.Has(bWritten), st.Has(bQueued), st.Has(bDone))
				}
			}
			st.Ev &^= bHave | bWritten | bQueued | bDone
		}
		chanName := func(v ssa.Value) string {
			if ph, ok := v.(*ssa.Phi); ok {
				return ph.Comment
			}
			if u, ok := v.(*ssa.UnOp); ok {
				if _, fv := loadedField(u); fv != nil {
					return fv.Name()
				}
			}
			return v.Name()
		}
		x := NewExplorer(p, wfn, Hooks{
			Instr: func(x *Explorer, st *State, in ssa.Instruction) {
				switch w := in.(type) {
				case *ssa.Send:
					if chanName(w.Chan) == "done" {
						if st.Has(bDone) {
							bad++
						}
						st.Set(bDone)
					}
				case *ssa.Call:
					if f := w.Call.StaticCallee(); f != nil && f.Name() == "Write" && recvTypeName(f) == "Request" {
						st.Set(bWritten)
					}
				}
			},
			Branch: func(x *Explorer, st *State, cond ssa.Value, taken bool, from *ssa.BasicBlock) {
				sel, idx, ok := selectCase(cond, taken)
				if !ok {
					return
				}
				stt := sel.States[idx]
				name := chanName(stt.Chan)
				switch {
				case stt.Dir == 2 /* recv */ && (name == "chW" || strings.HasSuffix(name, "chW")):
					end(x, st, "next work item received", false)
					st.Set(bHave)
				case stt.Dir == 1 /* send */ && (name == "chR" || strings.HasSuffix(name, "chR")):
					st.Set(bQueued)
				}
			},
			Exit: func(x *Explorer, st *State, ret *ssa.Return, pan *ssa.Panic) {
				if ret != nil {
					end(x, st, "writer returns", true)
				}
			},
		})
		x.Filter = func(k string) bool {
			return strings.HasPrefix(k, "ex0(") || strings.HasPrefix(k, "(") || strings.HasPrefix(k, "v<")
		}
		x.TrackAll = true
		x.Run(nil)
		r.Check("R4", "pipeline writer: every work item it takes is handed to the reader queue or completed exactly once; a written request is only completed by the writer when it tears the connection down", bad == 0 && n > 0, p.Pos(wfn.Pos()),
			fmt.Sprintf("%d of %d explored item ends violate it (%s)", bad, n, detail), wit...)
	} else {
		r.Undecided("R4", "(*pipelineConnClient).writer", "not found")
	}
}

// selectCase: cond is "index-of-select == k" (or !=) and the edge taken means case k was chosen.
func selectCase(cond ssa.Value, taken bool) (*ssa.Select, int, bool) {
	pos, v := stripNot(cond)
	bo, ok := v.(*ssa.BinOp)
	if !ok || (bo.Op != token.EQL && bo.Op != token.NEQ) {
		return nil, 0, false
	}
	ex, ok := bo.X.(*ssa.Extract)
	k, okc := constInt(bo.Y)
	if !ok || !okc || ex.Index != 0 {
		return nil, 0, false
	}
	sel, ok := ex.Tuple.(*ssa.Select)
	if !ok {
		return nil, 0, false
	}
	chosen := (taken == pos) == (bo.Op == token.EQL)
	if !chosen || k < 0 || int(k) >= len(sel.States) {
		return nil, 0, false
	}
	return sel, int(k), true
}

// runPipelineCaller: typestate of the pooled work item in the pipelining client's call paths.
func runPipelineCaller(p *Prog, r *Report, prop string) {
	rel := p.Func("(*pipelineConnClient).releasePipelineWork")
	if rel == nil {
		r.Undecided("R4", "(*pipelineConnClient).releasePipelineWork", "not found")
		return
	}
	nf := 0
	for _, spec := range []string{"(*pipelineConnClient).DoDeadline", "(*pipelineConnClient).Do"} {
		fn := p.Func(spec)
		if fn == nil {
			continue
		}
		nf++
		const (
			bQueued uint64 = 1 << iota
			bDone
			bTimer
			bReleased
		)
		chanKind := func(v ssa.Value) string {
			fp := fieldPath(v)
			switch {
			case strings.HasSuffix(fp, "chW"):
				return "chW"
			case strings.HasSuffix(fp, "done"):
				return "done"
			case strings.HasSuffix(fp, "t.C") || strings.HasSuffix(fp, ".C"):
				return "timer"
			}
			return fp
		}
		type tal struct {
			n, bad int
			wit    []string
			pos    string
		}
		obs := map[string]*tal{}
		note := func(x *Explorer, st *State, key string, ok bool, pos token.Pos) {
			t := obs[key]
			if t == nil {
				t = &tal{}
				obs[key] = t
			}
			t.n++
			if !ok {
				t.bad++
				if t.wit == nil {
					t.wit = x.Path(st)
					t.pos = p.Pos(pos)
				}
			}
		}
		nsel, nselTimer := 0, 0
		x := NewExplorer(p, fn, Hooks{
			Instr: func(x *Explorer, st *State, in ssa.Instruction) {
				switch w := in.(type) {
				case *ssa.Select:
					if w.Blocking {
						hasTimer := false
						for _, s := range w.States {
							if chanKind(s.Chan) == "timer" {
								hasTimer = true
							}
						}
						if prop == "C38" && spec == "(*pipelineConnClient).DoDeadline" {
							note(x, st, "every blocking select of the deadline call includes the call's timer", hasTimer, w.Pos())
							note(x, st, "no blocking channel operation follows a fired timer", !st.Has(bTimer), w.Pos())
						}
					}
				case *ssa.Send:
					if prop == "C38" && spec == "(*pipelineConnClient).DoDeadline" {
						note(x, st, "the call path has no bare blocking send", false, w.Pos())
					}
				case *ssa.UnOp:
					if w.Op == token.ARROW {
						if chanKind(w.X) == "done" {
							st.Set(bDone)
						}
						if prop == "C38" && spec == "(*pipelineConnClient).DoDeadline" {
							note(x, st, "the call path has no bare blocking receive", false, w.Pos())
						}
					}
				case *ssa.Call:
					if isCallTo(w, rel) {
						if prop == "C04" || prop == "C38" || prop == "C37" {
							note(x, st, "the work item is given back to the pool only if it was never queued or its completion was received", !st.Has(bQueued) || st.Has(bDone), w.Pos())
						}
						st.Set(bReleased)
					}
				}
			},
			Branch: func(x *Explorer, st *State, cond ssa.Value, taken bool, from *ssa.BasicBlock) {
				sel, idx, ok := selectCase(cond, taken)
				if !ok {
					return
				}
				s := sel.States[idx]
				switch chanKind(s.Chan) {
				case "chW":
					if s.Dir == 1 { // a send on the write queue
						st.Set(bQueued)
					}
				case "done":
					st.Set(bDone)
				case "timer":
					st.Set(bTimer)
				}
			},
			Exit: func(x *Explorer, st *State, ret *ssa.Return, pan *ssa.Panic) {
				if ret == nil {
					return
				}
				rr := returnResults(ret)
				if prop == "C38" && spec == "(*pipelineConnClient).DoDeadline" && st.Has(bTimer) {
					isTO := len(rr) == 1 && (globalOf(rr[0]) == "ErrTimeout" || x.resolvesToGlobal(st, rr[0], "ErrTimeout"))
					note(x, st, "a fired timer makes the call return ErrTimeout", isTO, ret.Pos())
					if !st.Has(bQueued) {
						note(x, st, "a work item that was never queued is given back when the timer fires", st.Has(bReleased), ret.Pos())
					}
				}
				if (prop == "C04" || prop == "C38" || prop == "C37") && st.Has(bQueued) && !st.Has(bDone) {
					note(x, st, "a queued work item whose completion was not received is left to the connection goroutines", !st.Has(bReleased), ret.Pos())
				}
			},
		})
		_ = nsel
		_ = nselTimer
		x.Filter = func(k string) bool {
			return strings.HasPrefix(k, "ex0(") || strings.HasPrefix(k, "(") || strings.HasPrefix(k, "v<") || strings.HasPrefix(k, "call<")
		}
		x.TrackAll = true
		// remember where the returned error came from
		x.AliasPhis = map[*ssa.Phi]bool{}
		for _, b := range fn.Blocks {
			for _, in := range b.Instrs {
				if ph, ok := in.(*ssa.Phi); ok && strings.HasSuffix(ph.Type().String(), "error") {
					x.AliasPhis[ph] = true
				}
			}
		}
		x.Run(nil)
		var keys []string
		for k := range obs {
			keys = append(keys, k)
		}
		for _, k := range sortedKeys(obs) {
			t := obs[k]
			rule := "R4"
			if prop == "C38" {
				rule = "R1"
			}
			if prop == "C37" {
				rule = "R-item"
			}
			r.Check(rule, funcName(fn)+": "+k, t.bad == 0, t.pos, fmt.Sprintf("%d of %d explored arrivals violate it", t.bad, t.n), t.wit...)
		}
		_ = keys
		if prop == "C04" {
			if obs["the work item is given back to the pool only if it was never queued or its completion was received"] == nil {
				r.Undecided("R4", funcName(fn)+": release typestate", "no releasePipelineWork call was reached")
			}
		}
		if prop == "C38" && spec == "(*pipelineConnClient).DoDeadline" {
			for _, k := range []string{"every blocking select of the deadline call includes the call's timer", "a fired timer makes the call return ErrTimeout"} {
				if obs[k] == nil {
					r.Undecided("R1", funcName(fn)+": "+k, "not reached")
				}
			}
		}
	}
	if nf == 0 {
		r.Undecided("R4", "pipelineConnClient call paths", "not found")
	}
}

func runC38(p *Prog, r *Report) {
	timerArmedWithCheckedDuration(p, r)
	failureCarriesError(p, r)
	runPipelineCaller(p, r, "C38")
	// a request that was written and not answered when its connection ended is completed with an error by the worker
	// (drain only after both goroutines stopped, and no return without the drain) - shared with C04.R9/R10
	pendingDrainedAfterBothStopped(p, r)
	// the overflow error of the non-deadline call comes only from the default branch of a non-blocking send
	fn := p.Func("(*pipelineConnClient).Do")
	if fn == nil {
		r.Undecided("R2", "(*pipelineConnClient).Do", "not found")
		return
	}
	n := 0
	for _, b := range fn.Blocks {
		for _, in := range b.Instrs {
			st, ok := in.(*ssa.Store)
			_ = st
			_ = ok
		}
		rt, ok := b.Instrs[len(b.Instrs)-1].(*ssa.Return)
		if !ok {
			continue
		}
		for _, rv := range returnResults(rt) {
			if globalOf(rv) == "ErrPipelineOverflow" {
				n++
				// guarded by a select index == -1 ... i.e. reached from a non-blocking select's default
				okd := false
				for _, g := range guardsOf(b) {
					if bo, isBo := g.Cond.(*ssa.BinOp); isBo {
						if ex, isEx := bo.X.(*ssa.Extract); isEx {
							if sel, isSel := ex.Tuple.(*ssa.Select); isSel && !sel.Blocking {
								okd = true
							}
						}
					}
				}
				r.Check("R2", "pipelineConnClient.Do reports queue overflow only from the default branch of a non-blocking send", okd, p.Pos(rt.Pos()), "ErrPipelineOverflow is returned on a path that is not the default branch of a non-blocking select: work that was (or may be) transmitted would be reported as never sent")
			}
		}
	}
	r.Floor("R2", "ErrPipelineOverflow returns", n, 1)
}

// ---------------------------------------------------------------- C18

func runC18(p *Prog, r *Report) {
	waiterCancelledOnGiveUp(p, r)
	cancelReturnsDeliveredConn(p, r)
	socketClosedBeforeSlotFreed(p, r)
	idleConnsExpire(p, r)
	timerReuseCannotPanic(p, r, "R-timer")
	acq := p.Func("(*HostClient).AcquireConn")
	dec := p.Func("(*HostClient).decConnsCount")
	dialFor := p.Func("(*HostClient).dialConnFor")
	closeC := p.Func("(*HostClient).CloseConn")
	relC := p.Func("(*HostClient).ReleaseConn")
	dialHard := p.Func("(*HostClient).dialHostHard")
	acqCC := p.Func("acquireClientConn")
	for n, f := range map[string]*ssa.Function{"AcquireConn": acq, "decConnsCount": dec, "dialConnFor": dialFor, "CloseConn": closeC, "ReleaseConn": relC, "dialHostHard": dialHard, "acquireClientConn": acqCC} {
		if f == nil {
			r.Undecided("E1", "anchor "+n, "not found")
			return
		}
	}
	names := [4]string{"HostClient.connsCount", "", "", ""}
	// +1 / -1 stores to connsCount
	countDelta := func(in ssa.Instruction) (int8, bool) {
		st, ok := in.(*ssa.Store)
		if !ok {
			return 0, false
		}
		if _, fv := fieldOfAddr(st.Addr); fv == nil || fv.Name() != "connsCount" {
			return 0, false
		}
		bo, ok := st.Val.(*ssa.BinOp)
		if !ok {
			return 0, false
		}
		k, okc := constInt(bo.Y)
		if !okc || k != 1 {
			return 0, false
		}
		switch bo.Op {
		case token.ADD:
			return 1, true
		case token.SUB:
			return -1, true
		}
		return 0, false
	}
	mk := func(fn *ssa.Function, what string, expect func(x *Explorer, st *State, ret *ssa.Return) (pairDelta, [4]bool, bool), track []ssa.Value) {
		sp := &pairSpec{rule: "E1", what: what, fn: fn, tokens: names, min: -2, max: 2, track: track,
			effect: func(x *Explorer, st *State, c ssa.CallInstruction) (pairDelta, bool) {
				var d pairDelta
				switch {
				case isCallTo(c, dec):
					d[0] = -1
					return d, true
				case isCallTo(c, dialFor):
					// "go c.dialConnFor(w)": the unit moves to the dial goroutine
					d[0] = -1
					return d, true
				case isCallTo(c, closeC):
					d[0] = -1
					return d, true
				}
				return d, false
			},
			instr: func(x *Explorer, st *State, in ssa.Instruction) {
				if k, ok := countDelta(in); ok {
					st.N[0] += k
				}
			},
			expect: expect,
		}
		runPairing(p, sp).report(p, r, sp)
	}
	only0 := [4]bool{true, false, false, false}
	mk(acq, "AcquireConn keeps one connsCount unit exactly when it returns a freshly dialled connection", func(x *Explorer, st *State, ret *ssa.Return) (pairDelta, [4]bool, bool) {
		rr := returnResults(ret)
		want := pairDelta{}
		if len(rr) == 2 && isCallResultOf(rr[0], acqCC) {
			want[0] = 1
		}
		return want, only0, true
	}, nil)
	mk(dec, "decConnsCount gives back exactly one unit or hands it to exactly one dial goroutine", func(x *Explorer, st *State, ret *ssa.Return) (pairDelta, [4]bool, bool) {
		return pairDelta{-1, 0, 0, 0}, only0, true
	}, nil)
	mk(closeC, "CloseConn gives back exactly one unit", func(x *Explorer, st *State, ret *ssa.Return) (pairDelta, [4]bool, bool) {
		return pairDelta{-1, 0, 0, 0}, only0, true
	}, nil)
	{
		var derr ssa.Value
		allCalls(dialFor, func(b *ssa.BasicBlock, c ssa.CallInstruction) {
			if cv, ok := c.(*ssa.Call); ok && isCallTo(cv, dialHard) {
				for _, ref := range *cv.Referrers() {
					if ex, ok := ref.(*ssa.Extract); ok && ex.Index == 1 {
						derr = ex
					}
				}
			}
		})
		if derr == nil {
			r.Undecided("E1", "dialConnFor: error of dialHostHard", "not found")
		} else {
			mk(dialFor, "dialConnFor gives the inherited unit back on every dial failure and keeps it with the connection otherwise", func(x *Explorer, st *State, ret *ssa.Return) (pairDelta, [4]bool, bool) {
				switch x.Eval(st, derr) {
				case True:
					return pairDelta{-1, 0, 0, 0}, only0, true
				case False:
					return pairDelta{0, 0, 0, 0}, only0, true
				}
				return pairDelta{-99, 0, 0, 0}, only0, true
			}, []ssa.Value{derr})
		}
	}
	// CloseConn also closes the connection
	{
		hit, path := reachAvoiding(closeC, nil, isReturn, func(in ssa.Instruction) bool {
			c, ok := in.(ssa.CallInstruction)
			return ok && isInvoke(c, "Close")
		}, nil)
		r.Check("E1", "CloseConn closes the network connection on every path", hit == nil, p.Pos(closeC.Pos()), "a return of CloseConn is reachable without closing the connection", blocksString(p, path)...)
	}
	// ---- bound ----
	for _, b := range acq.Blocks {
		for _, in := range b.Instrs {
			if k, ok := countDelta(in); ok && k == 1 {
				at := map[string]bool{}
				for _, g := range guardsOf(b) {
					if g.Pol {
						at[g.Atom] = true
					}
				}
				r.Check("R-bound", "AcquireConn creates a connection only under connsCount < maxConns (configured MaxConns or the default)", hasAtomContaining(at, "field:HostClient.connsCount") && hasAtomContaining(at, "field:HostClient.MaxConns"), p.Pos(in.Pos()),
					"guards of the increment: "+atomsList(at))
				// same critical section
				isUnlock := func(i ssa.Instruction) bool {
					c, ok := i.(ssa.CallInstruction)
					if !ok {
						return false
					}
					if _, isD := i.(*ssa.Defer); isD {
						return false
					}
					key, op, _ := lockOp(c)
					return op < 0 && key == "HostClient.connsLock"
				}
				isLock := func(i ssa.Instruction) bool {
					c, ok := i.(ssa.CallInstruction)
					if !ok {
						return false
					}
					key, op, _ := lockOp(c)
					return op > 0 && key == "HostClient.connsLock"
				}
				bad := false
				for _, bb := range acq.Blocks {
					for _, i2 := range bb.Instrs {
						if isUnlock(i2) {
							if h2, _ := reachAvoiding(acq, i2, func(i ssa.Instruction) bool { return i == in }, isLock, nil); h2 != nil {
								bad = true
							}
						}
					}
				}
				r.Check("R-bound", "AcquireConn: the bound comparison and the increment are in one critical section", !bad, p.Pos(in.Pos()), "the increment is reachable after an unlock of connsLock without re-locking")
			}
		}
	}
	// ---- lockset ----
	tbl := &lockTable{
		guards: map[string]string{
			"HostClient.conns":           "HostClient.connsLock",
			"HostClient.connsCount":      "HostClient.connsLock",
			"HostClient.connsWait":       "HostClient.connsLock",
			"HostClient.connsCleanerRun": "HostClient.connsLock",
			"wantConn.conn":              "wantConn.mu",
			"wantConn.err":               "wantConn.mu",
		},
		exempt: map[string]string{
			"(*HostClient).AcquireConn": "reads w.conn / w.err after <-w.ready: the close of ready in tryDeliver (under mu) happens-before the receive; all other accesses in this function hold connsLock (checked: the exemption is only needed for the two wantConn reads)",
		},
		heldOnEntry: map[string][]string{},
	}
	// helpers named ...Locked run with connsLock held (analysed with the lock held; every call site is checked to hold it)
	for _, fn := range p.funcsIn("") {
		if recvTypeName(fn) == "HostClient" && strings.HasSuffix(fn.Name(), "Locked") {
			tbl.heldOnEntry[funcName(fn)] = []string{"HostClient.connsLock"}
		}
	}
	checkLockset(p, r, "E8", tbl, nil)
	// the exemption above must not hide pool-field accesses: check AcquireConn's HostClient fields separately
	tbl2 := &lockTable{guards: map[string]string{
		"HostClient.conns":           "HostClient.connsLock",
		"HostClient.connsCount":      "HostClient.connsLock",
		"HostClient.connsCleanerRun": "HostClient.connsLock",
	}, exempt: map[string]string{}}
	checkLockset(p, r, "E8-acquire", tbl2, func(fn *ssa.Function) bool { return fn == acq })
	// ---- idle list removal in the same critical section ----
	{
		n := 0
		for _, b := range acq.Blocks {
			for _, in := range b.Instrs {
				u, ok := in.(*ssa.UnOp)
				if !ok || u.Op != token.MUL {
					continue
				}
				ia, ok := u.X.(*ssa.IndexAddr)
				if !ok {
					continue
				}
				if _, fv := loadedField(ia.X); fv == nil || fv.Name() != "conns" {
					continue
				}
				n++
				// from this load to the unlock: a store to HostClient.conns (shortening) is passed
				isUnlock := func(i ssa.Instruction) bool {
					c, ok := i.(ssa.CallInstruction)
					if !ok {
						return false
					}
					key, op, _ := lockOp(c)
					return op < 0 && key == "HostClient.connsLock"
				}
				shorten := func(i ssa.Instruction) bool {
					st, ok := i.(*ssa.Store)
					if !ok {
						return false
					}
					_, fv := fieldOfAddr(st.Addr)
					return fv != nil && fv.Name() == "conns"
				}
				hit, path := reachAvoiding(acq, in, isUnlock, shorten, nil)
				r.Check("R-idle", "AcquireConn removes the connection it takes from the idle list before releasing connsLock", hit == nil, p.Pos(in.Pos()),
					"the unlock is reachable after reading an idle connection without shortening the idle list: two callers could get the same connection", blocksString(p, path)...)
			}
		}
		r.Floor("R-idle", "idle list reads in AcquireConn", n, 2)
	}
}

// sameVar: a is the value v, or a load of the local variable (alloc) that v was stored into.
func sameVar(a, v ssa.Value) bool {
	if a == v {
		return true
	}
	if u, ok := a.(*ssa.UnOp); ok && u.Op == token.MUL {
		return holdsVar(u.X, v)
	}
	return false
}

// holdsVar: addr is an alloc into which v is stored.
func holdsVar(addr, v ssa.Value) bool {
	al, ok := addr.(*ssa.Alloc)
	if !ok {
		return false
	}
	for _, ref := range *al.Referrers() {
		if st, ok := ref.(*ssa.Store); ok && st.Addr == addr && st.Val == v {
			return true
		}
	}
	return false
}

// closeInputsRule (C04.R5): the stream-close closure installed by the transport
// decides between pooling and closing the connection from state of the
// response header (Connection: close, Content-Length through
// requestStream.fullyRead). That decision is only right while the header still
// describes the response whose body is being abandoned. So in every function of
// the module: once a call has overwritten all of those header fields of some
// Response (Header.Reset, Header.Read ...), no call that may close the body
// stream of the same Response follows on any path - the stream has to be
// closed first.
func closeInputsRule(p *Prog, r *Report, closure *ssa.Function) {
	respHdr := p.NamedType("ResponseHeader")
	if respHdr == nil {
		r.Undecided("R5", "type ResponseHeader", "not found")
		return
	}
	isHdr := func(v ssa.Value) bool {
		n := typeNameOf(v)
		return n == "ResponseHeader" || n == "header" // the shared part is an embedded struct
	}
	inputs := map[*types.Var]bool{}
	seen := map[*ssa.Function]bool{}
	var reads func(f *ssa.Function, depth int)
	reads = func(f *ssa.Function, depth int) {
		if f == nil || seen[f] || depth > 4 || !inModule(f) {
			return
		}
		seen[f] = true
		for _, b := range f.Blocks {
			for _, in := range b.Instrs {
				if u, ok := in.(*ssa.UnOp); ok && u.Op == token.MUL {
					if fa, ok := u.X.(*ssa.FieldAddr); ok && isHdr(fa.X) {
						inputs[fieldVar(fa.X.Type(), fa.Field)] = true
					}
				}
				c, ok := in.(ssa.CallInstruction)
				if !ok {
					continue
				}
				if g := c.Common().StaticCallee(); g != nil {
					reads(g, depth+1)
				} else if c.Common().IsInvoke() {
					// the stream reads its framing through an interface; the transport installs it over &resp.Header
					if m := p.Func("(*ResponseHeader)." + c.Common().Method.Name()); m != nil {
						reads(m, depth+1)
					}
				}
			}
		}
	}
	reads(closure, 0)
	nread := len(inputs)
	// a field whose value the transport also captured when it built the closure (a bool computed from the same
	// accessor before the stream was handed out) is not an input in this sense: resetting the header later only
	// takes away the second, live look - the captured value still decides. (C10.R5 requires that capture.)
	var eager []string
	if par := closure.Parent(); par != nil {
		idxOf := map[*ssa.FreeVar]int{}
		for i, fv := range closure.FreeVars {
			idxOf[fv] = i
		}
		for _, b := range par.Blocks {
			for _, in := range b.Instrs {
				mc, ok := in.(*ssa.MakeClosure)
				if !ok || mc.Fn != ssa.Value(closure) {
					continue
				}
				for _, bind := range mc.Bindings {
					vals := []ssa.Value{bind}
					if al, ok := bind.(*ssa.Alloc); ok {
						for _, ref := range *al.Referrers() {
							if st, ok := ref.(*ssa.Store); ok && st.Addr == ssa.Value(al) {
								vals = append(vals, st.Val)
							}
						}
					}
					for _, v := range vals {
						if !isBool(v.Type()) {
							continue
						}
						for a := range condAtoms(v) {
							for fv := range inputs {
								if strings.Contains(strings.ToLower(a), strings.ToLower(fv.Name())) && strings.Contains(a, "Response") {
									eager = append(eager, fv.Name())
									delete(inputs, fv)
								}
							}
						}
					}
				}
			}
		}
	}
	var inNames []string
	for fv := range inputs {
		inNames = append(inNames, fv.Name())
	}
	sort.Strings(inNames)
	sort.Strings(eager)
	r.Counts["R5 response header fields the stream-close closure reads"] = nread
	r.Note("R5: header fields the stream-close closure reads live and that were not also captured when it was built: [%s]; captured as well (a later reset is harmless): [%s]", strings.Join(inNames, ","), strings.Join(eager, ","))
	if len(inputs) == 0 {
		return
	}
	mods := p.modInfo()
	clobbers := func(g *ssa.Function) bool {
		if g == nil || !inModule(g) || (recvTypeName(g) != "ResponseHeader" && recvTypeName(g) != "header") {
			return false
		}
		// must-write: every consulted field is assigned on every path of g (a reset or a re-parse, not a setter)
		w := fieldsWritten(p, g, 0, 4)
		for fv := range inputs {
			if !coveredBy(w, "header."+fv.Name()) && !coveredBy(w, fv.Name()) {
				return false
			}
		}
		// ... and to the zero value somewhere below g: a setter that raises a flag (SetConnectionClose) only pushes
		// the decision towards closing the connection, which is the safe side
		zeroed := map[*types.Var]bool{}
		seenF := map[*ssa.Function]bool{}
		var visit func(f *ssa.Function, d int)
		visit = func(f *ssa.Function, d int) {
			if f == nil || seenF[f] || d > 4 || !inModule(f) {
				return
			}
			seenF[f] = true
			for _, b := range f.Blocks {
				for _, in := range b.Instrs {
					switch w := in.(type) {
					case *ssa.Store:
						if _, fv := fieldOfAddr(w.Addr); fv != nil && inputs[fv] {
							if c, isC := w.Val.(*ssa.Const); isC && (c.Value == nil || c.Value.ExactString() == "false" || c.Value.ExactString() == "0") {
								zeroed[fv] = true
							}
						}
					case ssa.CallInstruction:
						visit(w.Common().StaticCallee(), d+1)
					}
				}
			}
		}
		visit(g, 0)
		for fv := range inputs {
			if !zeroed[fv] {
				return false
			}
		}
		return true
	}
	closer := p.Func("(*Response).closeBodyStream")
	if closer == nil {
		r.Undecided("R5", "(*Response).closeBodyStream", "not found")
		return
	}
	mayClose := map[*ssa.Function]int8{}
	var closes func(g *ssa.Function, depth int) bool
	closes = func(g *ssa.Function, depth int) bool {
		if g == closer {
			return true
		}
		if g == nil || !inModule(g) || depth > 5 {
			return false
		}
		if v, ok := mayClose[g]; ok {
			return v == 1
		}
		mayClose[g] = 0
		res := false
		allCalls(g, func(b *ssa.BasicBlock, c ssa.CallInstruction) {
			if h := c.Common().StaticCallee(); h != nil && recvTypeName(h) == "Response" && closes(h, depth+1) {
				res = true
			}
		})
		if res {
			mayClose[g] = 1
		}
		return res
	}
	var sameAddr func(a, b ssa.Value, d int) bool
	sameAddr = func(a, b ssa.Value, d int) bool {
		if a == b {
			return true
		}
		if d > 4 {
			return false
		}
		fa, ok1 := a.(*ssa.FieldAddr)
		fb, ok2 := b.(*ssa.FieldAddr)
		if ok1 && ok2 {
			return fa.Field == fb.Field && sameAddr(fa.X, fb.X, d+1)
		}
		ua, ok1 := a.(*ssa.UnOp)
		ub, ok2 := b.(*ssa.UnOp)
		if ok1 && ok2 && ua.Op == token.MUL && ub.Op == token.MUL {
			return sameAddr(ua.X, ub.X, d+1)
		}
		return false
	}
	nclob := 0
	for _, fn := range p.SrcFuncs() {
		for _, b := range fn.Blocks {
			for _, in := range b.Instrs {
				ca, ok := in.(ssa.CallInstruction)
				if !ok || !clobbers(ca.Common().StaticCallee()) || len(ca.Common().Args) == 0 {
					continue
				}
				hfa, ok := ca.Common().Args[0].(*ssa.FieldAddr)
				if ok && typeNameOf(hfa.X) == "ResponseHeader" {
					hfa, ok = hfa.X.(*ssa.FieldAddr) // method of the embedded part
				}
				if !ok || typeNameOf(hfa.X) != "Response" {
					continue
				}
				nclob++
				resp := hfa.X
				hit, path := reachAvoiding(fn, in, func(i ssa.Instruction) bool {
					cb, ok := i.(ssa.CallInstruction)
					if !ok || len(cb.Common().Args) == 0 {
						return false
					}
					g := cb.Common().StaticCallee()
					return g != nil && recvTypeName(g) == "Response" && closes(g, 0) && sameAddr(cb.Common().Args[0], resp, 0)
				}, nil, nil)
				if hit == nil {
					r.Check("R5", fmt.Sprintf("%s: the response header is not overwritten (%s) before the body stream of the same response is closed", funcName(fn), shortType(calleeName(ca))), true, p.Pos(in.Pos()), "")
					continue
				}
				// the stream is already gone when a closer of the same response dominates the overwrite and nothing installs a stream in between
				closedBefore := false
				for _, bb := range fn.Blocks {
					for _, i0 := range bb.Instrs {
						c0, ok := i0.(ssa.CallInstruction)
						if !ok || len(c0.Common().Args) == 0 || i0 == in {
							continue
						}
						g := c0.Common().StaticCallee()
						if g == nil || recvTypeName(g) != "Response" || !closes(g, 0) || !sameAddr(c0.Common().Args[0], resp, 0) || !dominatesInstr(i0, in) {
							continue
						}
						inst, _ := reachAvoiding(fn, i0, func(i ssa.Instruction) bool {
							if i == hit {
								return false
							}
							if st, ok := i.(*ssa.Store); ok {
								if _, fv := fieldOfAddr(st.Addr); fv != nil && fv.Name() == "bodyStream" && !isNilConst(st.Val) {
									return true
								}
							}
							if cc, ok := i.(ssa.CallInstruction); ok && i != in {
								if g2 := cc.Common().StaticCallee(); g2 != nil && inModule(g2) {
									for fv := range mods.of(g2) {
										if fv.Name() == "bodyStream" {
											return true
										}
									}
								}
							}
							return false
						}, func(i ssa.Instruction) bool { return i == hit }, nil)
						if inst == nil {
							closedBefore = true
						}
					}
				}
				r.Check("R5", fmt.Sprintf("%s: the response header is not overwritten (%s) before the body stream of the same response is closed", funcName(fn), shortType(calleeName(ca))), closedBefore, p.Pos(hit.Pos()),
					fmt.Sprintf("%s overwrites %s and a later call (%s) may still close the body stream: the stream-close callback of the client then decides from a reset header that the body was read to its end and pools a connection with unread response bytes", calleeName(ca), strings.Join(inNames, ","), calleeName(hit.(ssa.CallInstruction))), blocksString(p, path)...)
			}
		}
	}
	r.Counts["R5 calls overwriting the header of a Response"] = nclob
}

// timerArmedWithCheckedDuration (C38.R3): acquirePipelineWork arms the work's
// timer only for a positive duration (zero or less means "no deadline", which
// is how the non-deadline call uses it). In the deadline call the duration it
// is given must therefore be the very value whose positivity was tested on the
// way - a duration computed again later can have run out in between, and the
// call then waits without any timer.
func timerArmedWithCheckedDuration(p *Prog, r *Report) {
	acq := p.Func("(*pipelineConnClient).acquirePipelineWork")
	if acq == nil {
		r.Undecided("R3", "(*pipelineConnClient).acquirePipelineWork", "not found")
		return
	}
	n := 0
	for _, fn := range p.funcsIn("") {
		if !strings.Contains(fn.Name(), "Deadline") {
			continue
		}
		allCalls(fn, func(b *ssa.BasicBlock, c ssa.CallInstruction) {
			if !isCallTo(c, acq) || len(c.Common().Args) != 2 {
				return
			}
			n++
			d := c.Common().Args[1]
			checked := false
			if k, isC := constInt(d); isC && k > 0 {
				checked = true
			}
			for _, g := range guardsOf(b) {
				bo, ok := g.Cond.(*ssa.BinOp)
				if !ok {
					continue
				}
				for _, pair := range [][2]ssa.Value{{bo.X, bo.Y}, {bo.Y, bo.X}} {
					if pair[0] != d {
						continue
					}
					if _, isC := constInt(pair[1]); !isC {
						continue
					}
					z := newZone()
					z.assumeCmp(bo.Op, bo.X, bo.Y, g.Pol)
					nd, od := z.term(d)
					if !z.infeasible() && z.entails(0, 1, nd, od, 0) { // 1 <= d
						checked = true
					}
				}
			}
			r.Check("R3", funcName(fn)+": the duration that arms the work's timer is a value found positive on every path to the call", checked, p.Pos(c.Pos()),
				"acquirePipelineWork treats a non-positive duration as 'no deadline'; the duration handed over here is not the one whose positivity was tested, so a deadline that runs out in between leaves the call waiting for the response with no timer at all")
		})
	}
	r.Floor("R3", "timer-arming acquisitions in deadline calls", n, 1)
}

// headSkipsBodyRule (C04.R7): see the explanation text.
func headSkipsBodyRule(p *Prog, r *Report) {
	n := 0
	for _, fn := range p.funcsIn("") {
		file := p.Fset.Position(fn.Pos()).Filename
		if !strings.HasSuffix(file, "client.go") {
			continue
		}
		var reads []*ssa.Call
		allCalls(fn, func(b *ssa.BasicBlock, c ssa.CallInstruction) {
			cv, ok := c.(*ssa.Call)
			f := c.Common().StaticCallee()
			if !ok || f == nil || recvTypeName(f) != "Response" || !(f.Name() == "Read" || f.Name() == "ReadLimitBody") {
				return
			}
			for _, a := range c.Common().Args {
				if strings.HasSuffix(a.Type().String(), "bufio.Reader") {
					reads = append(reads, cv)
				}
			}
		})
		for _, rd := range reads {
			n++
			isHeadTest := func(i ssa.Instruction) bool {
				if st, ok := i.(*ssa.Store); ok { // the body is skipped anyway (the caller asked for it)
					if _, fv := fieldOfAddr(st.Addr); fv != nil && fv.Name() == "SkipBody" {
						if c, isC := st.Val.(*ssa.Const); isC && c.Value != nil && c.Value.ExactString() == "true" {
							return true
						}
						// SkipBody = IsHead(): the method decides directly
						if cv, isCall := st.Val.(*ssa.Call); isCall && cv.Call.StaticCallee() != nil && cv.Call.StaticCallee().Name() == "IsHead" {
							return true
						}
					}
				}
				iff, ok := i.(*ssa.If)
				return ok && hasAtomContaining(condAtoms(iff.Cond), "IsHead")
			}
			hit, path := reachAvoiding(fn, nil, func(i ssa.Instruction) bool { return i == ssa.Instruction(rd) }, isHeadTest, nil)
			// a store of true to Response.SkipBody guarded by that test
			stores := false
			for _, b := range fn.Blocks {
				for _, in := range b.Instrs {
					st, ok := in.(*ssa.Store)
					if !ok {
						continue
					}
					if _, fv := fieldOfAddr(st.Addr); fv == nil || fv.Name() != "SkipBody" {
						continue
					}
					if cv, isCall := st.Val.(*ssa.Call); isCall && cv.Call.StaticCallee() != nil && cv.Call.StaticCallee().Name() == "IsHead" {
						stores = true
					}
					if c, isC := st.Val.(*ssa.Const); !isC || c.Value == nil || c.Value.ExactString() != "true" {
						continue
					}
					for _, g := range guardsOf(b) {
						if strings.Contains(g.Atom, "IsHead") {
							stores = true
						}
					}
					// 'if custom || IsHead()': the block is entered from the branch that tested IsHead
					for _, pr := range b.Preds {
						if iff, ok := pr.Instrs[len(pr.Instrs)-1].(*ssa.If); ok && pr.Succs[0] == b && hasAtomContaining(condAtoms(iff.Cond), "IsHead") {
							stores = true
						}
					}
				}
			}
			r.Check("R7", fmt.Sprintf("%s: the request's IsHead() is consulted before the response is read, and SkipBody is set under it", funcName(fn)), hit == nil && stores, p.Pos(rd.Pos()),
				"a response is read without the reader having been told that the request was a HEAD: a HEAD response with a Content-Length makes it take the following response's bytes for a body, and the caller gets them with a nil error", blocksString(p, path)...)
		}
	}
	r.Floor("R7", "response reads in the client", n, 2)
}

// skipBodyRestoredRule (C04.R8): Response.SkipBody is a caller-owned setting.
// Where the client raises it itself (for the exchange of a HEAD request), the
// caller's value is put back before the response is handed back: no return and
// no send on a channel (the pipeline client signals completion that way) is
// reachable from the raising store without a store of a value that was loaded
// from the same field. Otherwise the flag sticks to the Response object and a
// later GET through the same object leaves its body unread on the keep-alive
// connection, where it is taken for the response to the next request.
func skipBodyRestoredRule(p *Prog, r *Report) {
	n := 0
	for _, fn := range p.funcsIn("") {
		if !strings.HasSuffix(p.Fset.Position(fn.Pos()).Filename, "client.go") {
			continue
		}
		for _, b := range fn.Blocks {
			for _, in := range b.Instrs {
				st, ok := in.(*ssa.Store)
				if !ok {
					continue
				}
				_, fv := fieldOfAddr(st.Addr)
				if fv == nil || fv.Name() != "SkipBody" {
					continue
				}
				raising := false
				if c, isC := st.Val.(*ssa.Const); isC && c.Value != nil && c.Value.ExactString() == "true" {
					raising = true
				}
				if cv, isCall := st.Val.(*ssa.Call); isCall && cv.Call.StaticCallee() != nil && cv.Call.StaticCallee().Name() == "IsHead" {
					raising = true // SkipBody = IsHead(): raised for a HEAD exchange
				}
				if !raising {
					continue
				}
				n++
				restores := func(i ssa.Instruction) bool {
					s2, ok := i.(*ssa.Store)
					if !ok {
						return false
					}
					if _, f2 := fieldOfAddr(s2.Addr); f2 != fv {
						return false
					}
					return loadsFieldThroughPhis(s2.Val, fv, map[ssa.Value]bool{})
				}
				// a deferred closure that stores into the field restores it for every return
				deferred := false
				allCalls(fn, func(b2 *ssa.BasicBlock, c2 ssa.CallInstruction) {
					d, isDefer := c2.(*ssa.Defer)
					if !isDefer {
						return
					}
					if mc, ok := d.Call.Value.(*ssa.MakeClosure); ok {
						if cf, ok := mc.Fn.(*ssa.Function); ok {
							for _, cb := range cf.Blocks {
								for _, ci := range cb.Instrs {
									if s2, ok := ci.(*ssa.Store); ok {
										if _, f2 := fieldOfAddr(s2.Addr); f2 == fv {
											if _, isC := s2.Val.(*ssa.Const); !isC {
												deferred = true
											}
										}
									}
								}
							}
						}
					}
				})
				handsBack := func(i ssa.Instruction) bool {
					if isReturn(i) {
						return !deferred
					}
					_, isSend := i.(*ssa.Send)
					return isSend
				}
				hit, path := reachAvoiding(fn, st, handsBack, restores, nil)
				pos := st.Pos()
				r.Check("R8", fmt.Sprintf("%s: after raising Response.SkipBody itself the client puts the caller's value back before handing the response back", funcName(fn)), hit == nil, p.Pos(pos),
					"the flag stays raised on the caller's Response object: reused for a GET, the body is not read and stays on the keep-alive connection, where it is parsed as the response to the next request", blocksString(p, path)...)
			}
		}
	}
	r.Floor("R8", "places where the client raises Response.SkipBody", n, 2)
}

// loadsFieldThroughPhis: v is a load of the given field (possibly merged).
func loadsFieldThroughPhis(v ssa.Value, fv *types.Var, seen map[ssa.Value]bool) bool {
	if seen[v] {
		return true
	}
	seen[v] = true
	switch v := v.(type) {
	case *ssa.UnOp:
		_, f := loadedField(v)
		return f == fv
	case *ssa.Phi:
		for _, e := range v.Edges {
			if !loadsFieldThroughPhis(e, fv, seen) {
				return false
			}
		}
		return true
	}
	return false
}

// failureCarriesError (C38.R4): a call of the pipelining client ends with its
// response or with an error. The connection's writer and reader goroutines
// report a failed work item by storing the error into the item and signalling
// its done channel; a nil stored there makes the caller take the item for
// answered and return an empty response with a nil error. Every value stored
// into pipelineWork.err by those goroutines is known to be non-nil on the path
// of the store: a package-level sentinel, or a value a branch found non-nil.
func failureCarriesError(p *Prog, r *Report) {
	n := 0
	for _, spec := range []string{"(*pipelineConnClient).writer", "(*pipelineConnClient).reader"} {
		fn := p.Func(spec)
		if fn == nil {
			r.Undecided("R4", spec, "not found")
			continue
		}
		type res struct {
			n, bad int
			wit    []string
		}
		var order []*ssa.Store
		by := map[*ssa.Store]*res{}
		x := NewExplorer(p, fn, Hooks{
			Instr: func(x *Explorer, st *State, in ssa.Instruction) {
				sto, ok := in.(*ssa.Store)
				if !ok {
					return
				}
				fa, ok := sto.Addr.(*ssa.FieldAddr)
				if !ok || typeNameOf(fa.X) != "pipelineWork" || fieldName(fa.X.Type(), fa.Field) != "err" {
					return
				}
				rr := by[sto]
				if rr == nil {
					rr = &res{}
					by[sto] = rr
					order = append(order, sto)
				}
				rr.n++
				good := globalOf(sto.Val) != "" || x.sentinelOf(st, sto.Val) != nil || x.Eval(st, sto.Val) == True
				if !good {
					rr.bad++
					if rr.wit == nil {
						rr.wit = x.Path(st)
					}
				}
			},
		})
		x.Filter = noIntFilter
		x.TrackAll = true
		x.Run(nil)
		if x.Aborted {
			r.Undecided("R4", spec, "state budget exhausted")
			continue
		}
		sort.Slice(order, func(i, j int) bool { return order[i].Pos() < order[j].Pos() })
		for i, sto := range order {
			n++
			rr := by[sto]
			r.Check("R4", fmt.Sprintf("%s: error store #%d into the work item carries a non-nil error", strings.TrimPrefix(spec, "(*pipelineConnClient)."), i+1), rr.bad == 0, p.Pos(sto.Pos()),
				fmt.Sprintf("%d of %d explored arrivals store a value that is nil or not known to be an error: the waiting call takes the item for answered and returns a blank response with a nil error although its request was sent and never answered", rr.bad, rr.n), rr.wit...)
		}
	}
	r.Floor("R4", "error stores of the pipeline writer and reader", n, 7)
}

// pendingDrainedAfterBothStopped (C04.R9): when a pipelined connection ends,
// the work items still waiting in the pending-response queue are failed. That
// may only happen once BOTH connection goroutines are gone: while the writer
// still runs it keeps moving items from the request queue into the pending
// queue, and an item that arrives after the drain stays there - the reader of
// the re-dialled connection pairs it with the first response it reads, which
// belongs to somebody else's request. In pipelineConnClient.worker every
// receive from the pending queue (directly or in a closure it calls) is
// reached only on paths that have received from both completion channels.
func pendingDrainedAfterBothStopped(p *Prog, r *Report) {
	fn := p.Func("(*pipelineConnClient).worker")
	if fn == nil {
		r.Undecided("R9", "(*pipelineConnClient).worker", "not found")
		return
	}
	// completion channels: made here, sent to by a goroutine started here
	done := map[ssa.Value]int{}
	for _, b := range fn.Blocks {
		for _, in := range b.Instrs {
			g, ok := in.(*ssa.Go)
			if !ok {
				continue
			}
			mc, ok := g.Call.Value.(*ssa.MakeClosure)
			if !ok {
				continue
			}
			cf := mc.Fn.(*ssa.Function)
			for _, cb := range cf.Blocks {
				for _, ci := range cb.Instrs {
					if s, ok := ci.(*ssa.Send); ok {
						ch := s.Chan
						if u, ok := ch.(*ssa.UnOp); ok && u.Op == token.MUL {
							ch = u.X // the channel variable is captured by reference
						}
						if fvr, ok := ch.(*ssa.FreeVar); ok {
							for i, fv := range cf.FreeVars {
								if fv == fvr && i < len(mc.Bindings) {
									if _, seen := done[mc.Bindings[i]]; !seen {
										done[mc.Bindings[i]] = len(done)
									}
								}
							}
						}
					}
				}
			}
		}
	}
	if len(done) < 2 {
		r.Undecided("R9", "worker: completion channels of the writer and reader goroutines", fmt.Sprintf("found %d", len(done)))
		return
	}
	chanOf := func(v ssa.Value) (int, bool) {
		// the binding is the channel value itself, or the address of the local that holds it
		for {
			if i, ok := done[v]; ok {
				return i, true
			}
			if u, ok := v.(*ssa.UnOp); ok && u.Op == token.MUL {
				v = u.X
				continue
			}
			return 0, false
		}
	}
	recvsPending := func(f *ssa.Function) bool {
		found := false
		for _, g := range funcAndClosures(f) {
			if g != f && f == fn {
				continue
			}
			for _, b := range g.Blocks {
				for _, in := range b.Instrs {
					if u, ok := in.(*ssa.UnOp); ok && u.Op == token.ARROW {
						if _, fv := loadedField(u.X); fv != nil && fv.Name() == "chR" {
							found = true
						}
					}
				}
			}
		}
		return found
	}
	n, bad := 0, 0
	var wit []string
	var pos token.Pos
	x := NewExplorer(p, fn, Hooks{
		Instr: func(x *Explorer, st *State, in ssa.Instruction) {
			target := false
			switch w := in.(type) {
			case *ssa.UnOp:
				if w.Op == token.ARROW {
					if i, ok := chanOf(w.X); ok {
						st.Set(1 << uint(i))
					}
					if _, fv := loadedField(w.X); fv != nil && fv.Name() == "chR" {
						target = true
					}
				}
			case *ssa.Call:
				if mc, ok := w.Call.Value.(*ssa.MakeClosure); ok {
					if cf, ok := mc.Fn.(*ssa.Function); ok && recvsPending(cf) {
						target = true
					}
				}
			}
			if target {
				n++
				all := uint64(1)<<uint(len(done)) - 1
				if st.Ev&all != all {
					bad++
					if wit == nil {
						wit = x.Path(st)
						pos = in.Pos()
					}
				}
			}
		},
		Branch: func(x *Explorer, st *State, cond ssa.Value, taken bool, from *ssa.BasicBlock) {
			// select index == i taken: state i of the select was received
			bo, ok := cond.(*ssa.BinOp)
			if !ok || bo.Op != token.EQL || !taken {
				return
			}
			ex, ok := bo.X.(*ssa.Extract)
			if !ok || ex.Index != 0 {
				return
			}
			sel, ok := ex.Tuple.(*ssa.Select)
			if !ok {
				return
			}
			if k, okk := constInt(bo.Y); okk && int(k) < len(sel.States) && sel.States[k].Dir == types.RecvOnly {
				if i, ok := chanOf(sel.States[k].Chan); ok {
					st.Set(1 << uint(i))
				}
			}
		},
	})
	// the dual (R10): once both goroutines have stopped, the worker does not return before it found the queue empty
	const bEmpty = uint64(1) << 20
	nret, badRet := 0, 0
	var witRet []string
	var posRet token.Pos
	allDone := uint64(1)<<uint(len(done)) - 1
	prevBranch := x.H.Branch
	x.H.Branch = func(x *Explorer, st *State, cond ssa.Value, taken bool, from *ssa.BasicBlock) {
		prevBranch(x, st, cond, taken, from)
		bo, ok := cond.(*ssa.BinOp)
		if !ok || st.Ev&allDone != allDone {
			return
		}
		isLenQ := func(v ssa.Value) bool {
			c, ok := v.(*ssa.Call)
			if !ok {
				return false
			}
			bi, ok := c.Call.Value.(*ssa.Builtin)
			if !ok || bi.Name() != "len" || len(c.Call.Args) != 1 {
				return false
			}
			_, fv := loadedField(c.Call.Args[0])
			return fv != nil && fv.Name() == "chR"
		}
		k, isK := constInt(bo.Y)
		if !isLenQ(bo.X) || !isK || k != 0 {
			return
		}
		if (bo.Op == token.GTR && !taken) || (bo.Op == token.EQL && taken) || (bo.Op == token.NEQ && !taken) || (bo.Op == token.LEQ && taken) {
			st.Set(bEmpty)
		}
	}
	x.H.Exit = func(x *Explorer, st *State, ret *ssa.Return, pan *ssa.Panic) {
		if ret == nil || st.Ev&allDone != allDone {
			return
		}
		nret++
		if !st.Has(bEmpty) {
			badRet++
			if witRet == nil {
				witRet, posRet = x.Path(st), ret.Pos()
			}
		}
	}
	x.Filter = noIntFilter
	x.Run(nil)
	if x.Aborted || n == 0 {
		r.Undecided("R9", "worker: the pending queue is drained only after both goroutines stopped", "no receive from the pending queue was reached")
		return
	}
	if nret == 0 {
		r.Undecided("R10", "worker: returns after both goroutines stopped", "none explored")
	} else {
		r.Check("R10", "worker: after the writer and the reader goroutine have stopped, the worker returns only after it found the pending-response queue empty", badRet == 0, p.Pos(posRet),
			fmt.Sprintf("%d of %d explored returns with both goroutines stopped have not passed a test that found len(chR) == 0: on the branch that skips the drain (the writer failed first, say) the requests that were written and not answered stay queued across the re-dial, and the next connection's reader completes them with the responses to other requests", badRet, nret), witRet...)
	}
	r.Check("R9", "worker: the pending-response queue is drained only after both the writer and the reader goroutine have reported their end", bad == 0, p.Pos(pos),
		fmt.Sprintf("%d of %d explored arrivals at the drain have not yet received from both completion channels: the goroutine still running can put further items into the queue after the drain; they stay there across the re-dial and are answered with other requests' responses", bad, n), wit...)
}

// waiterCancelledOnGiveUp (C18.R-wait): a request that queued a wantConn and then gives up waiting must take it
// out of the race: while it stays queued with its ready channel open, the next released connection (or the next
// freed slot, through a dial started for it) is delivered to a request that has already returned - the connection
// is neither idle nor in use, and its slot never comes back. In AcquireConn every return reached after the waiter
// was queued either hands out what the waiter received (w.conn) or has called w.cancel - explicitly, or through a
// deferred closure that was registered before the waiter was queued.
func waiterCancelledOnGiveUp(p *Prog, r *Report) {
	fn := p.Func("(*HostClient).AcquireConn")
	q := p.Func("(*HostClient).queueForIdle")
	cancel := p.Func("(*wantConn).cancel")
	if fn == nil || q == nil || cancel == nil {
		r.Undecided("R-wait", "AcquireConn / queueForIdle / wantConn.cancel", "not found")
		return
	}
	n := 0
	for _, b := range fn.Blocks {
		for _, in := range b.Instrs {
			c, ok := in.(ssa.CallInstruction)
			if !ok || c.Common().StaticCallee() != q {
				continue
			}
			n++
			// a deferred closure that cancels, registered before the waiter is queued
			deferred := false
			for _, b2 := range fn.Blocks {
				for _, i2 := range b2.Instrs {
					d, ok := i2.(*ssa.Defer)
					if !ok || !dominatesInstr(i2, in) {
						continue
					}
					if mc, ok := d.Call.Value.(*ssa.MakeClosure); ok {
						if cf, ok := mc.Fn.(*ssa.Function); ok {
							allCalls(cf, func(_ *ssa.BasicBlock, cc ssa.CallInstruction) {
								if cc.Common().StaticCallee() == cancel {
									deferred = true
								}
							})
						}
					}
				}
			}
			givesUp := func(i ssa.Instruction) bool {
				rt, ok := i.(*ssa.Return)
				if !ok {
					return false
				}
				// the delivered case returns what the waiter holds; with named results spilled by the defer the
				// values are loads of the result slots, so look at what was last stored there too
				for _, rv := range rt.Results {
					if _, fv := loadedField(rv); fv != nil && (fv.Name() == "conn" || fv.Name() == "err") {
						return false
					}
				}
				return true
			}
			isCancel := func(i ssa.Instruction) bool {
				cc, ok := i.(ssa.CallInstruction)
				return ok && cc.Common().StaticCallee() == cancel
			}
			// with spilled results the return itself carries loads of the slots: classify by the stores on the way
			deliveredStore := func(i ssa.Instruction) bool {
				st, ok := i.(*ssa.Store)
				if !ok {
					return false
				}
				if _, isAlloc := st.Addr.(*ssa.Alloc); !isAlloc {
					return false
				}
				_, fv := loadedField(st.Val)
				return fv != nil && fv.Name() == "conn"
			}
			var hit ssa.Instruction
			var path []*ssa.BasicBlock
			if !deferred {
				hit, path = reachAvoiding(fn, in, givesUp, func(i ssa.Instruction) bool { return isCancel(i) || deliveredStore(i) }, nil)
			}
			r.Check("R-wait", "AcquireConn: a waiter that was queued is cancelled on every return that does not hand out what it received", deferred || hit == nil, p.Pos(in.Pos()),
				"a return is reachable after queueForIdle without wantConn.cancel (no deferred cancel either): the abandoned waiter still counts as waiting, so the next released connection or freed slot is delivered to nobody and never returns to the pool", blocksString(p, path)...)
		}
	}
	r.Floor("R-wait", "places where AcquireConn queues a waiter", n, 1)
}

// cancelReturnsDeliveredConn (C18.R-cancel): wantConn.cancel is the one place where a connection that was delivered to
// a waiter nobody listens to any more gets back to the pool. Whether one was delivered is only known under the waiter's
// mutex (tryDeliver stores it there): every return of cancel is preceded by the Lock, the conn field is read in that
// critical section, and every path from that read to a return passes ReleaseConn/CloseConn of the value or the branch
// that found it nil. An early return on an unlocked look at the waiter ("already answered") skips exactly the case the
// routine exists for - the connection stays counted, neither idle nor in use.
func cancelReturnsDeliveredConn(p *Prog, r *Report) {
	fn := p.Func("(*wantConn).cancel")
	if fn == nil {
		r.Undecided("R-cancel", "(*wantConn).cancel", "not found")
		return
	}
	isMuLock := func(i ssa.Instruction) bool {
		c, ok := i.(ssa.CallInstruction)
		if !ok {
			return false
		}
		if _, isD := i.(*ssa.Defer); isD {
			return false
		}
		key, op, _ := lockOp(c)
		return op > 0 && key == "wantConn.mu"
	}
	hit, path := reachAvoiding(fn, nil, isReturn, isMuLock, nil)
	r.Check("R-cancel", "wantConn.cancel: no return before the waiter's mutex was taken", hit == nil, p.Pos(fn.Pos()),
		"a return is reachable without w.mu.Lock(): whether a connection was delivered is decided on an unlocked look at the waiter (or not at all), and a connection delivered to this waiter is not given back - it stays counted in connsCount, in no idle list, until MaxConns of them are lost and every request gets ErrNoFreeConns", blocksString(p, path)...)
	// the conn read under the lock
	n := 0
	for _, b := range fn.Blocks {
		for _, in := range b.Instrs {
			u, ok := in.(*ssa.UnOp)
			if !ok {
				continue
			}
			if _, fv := loadedField(u); fv == nil || fv.Name() != "conn" {
				continue
			}
			// only the read that is handed on (not the one in the 'nothing delivered yet' test)
			isGiveBack := func(i ssa.Instruction) bool {
				c, ok := i.(ssa.CallInstruction)
				if !ok {
					return false
				}
				f := c.Common().StaticCallee()
				if f == nil || (f.Name() != "ReleaseConn" && f.Name() != "releaseConn" && f.Name() != "CloseConn") {
					return false
				}
				for _, a := range c.Common().Args {
					if a == ssa.Value(u) {
						return true
					}
				}
				return false
			}
			handed := false
			for _, ref := range *u.Referrers() {
				if isGiveBack(ref) {
					handed = true
				}
			}
			if !handed {
				continue
			}
			n++
			// walk forward from the read; at a nil test of the value only the non-nil edge is followed
			var h2 ssa.Instruction
			var p2 []*ssa.BasicBlock
			seen := map[*ssa.BasicBlock]bool{}
			var walk func(b *ssa.BasicBlock, from int, path []*ssa.BasicBlock)
			walk = func(b *ssa.BasicBlock, from int, path []*ssa.BasicBlock) {
				if h2 != nil {
					return
				}
				path = append(path, b)
				for k := from; k < len(b.Instrs); k++ {
					i := b.Instrs[k]
					if isGiveBack(i) {
						return
					}
					if isReturn(i) {
						h2, p2 = i, append([]*ssa.BasicBlock(nil), path...)
						return
					}
				}
				succs := b.Succs
				if iff, ok := b.Instrs[len(b.Instrs)-1].(*ssa.If); ok {
					if bo, ok := iff.Cond.(*ssa.BinOp); ok && (bo.X == ssa.Value(u) || bo.Y == ssa.Value(u)) {
						switch bo.Op {
						case token.NEQ:
							succs = b.Succs[:1]
						case token.EQL:
							succs = b.Succs[1:]
						}
					}
				}
				for _, s := range succs {
					if !seen[s] {
						seen[s] = true
						walk(s, 0, path)
					}
				}
			}
			for k, i := range b.Instrs {
				if i == in {
					walk(b, k+1, nil)
				}
			}
			r.Check("R-cancel", "wantConn.cancel: the delivered connection is given back whenever there is one", h2 == nil, p.Pos(in.Pos()),
				"from the read of w.conn a return is reachable on which the value may be non-nil and was not passed to ReleaseConn/CloseConn", blocksString(p, p2)...)
			// and the read sits inside the critical section
			locked := false
			for _, bb := range fn.Blocks {
				for _, i2 := range bb.Instrs {
					if isMuLock(i2) && dominatesInstr(i2, in) {
						locked = true
					}
				}
			}
			r.Check("R-cancel", "wantConn.cancel: the delivered connection is read under the waiter's mutex", locked, p.Pos(in.Pos()), "no w.mu.Lock() dominates the read of w.conn")
		}
	}
	r.Floor("R-cancel", "reads of the delivered connection that cancel hands back", n, 1)
}

// skippedBodyClosesConn (C04.R11): when the caller asked the transport not to read the body (Response.SkipBody set
// before the call) of a response that may have one (the request was not HEAD), the body stays on the connection.
// The decision between CloseConn and ReleaseConn at the end of RoundTrip therefore depends on the SkipBody value
// captured at entry - the condition's atoms include that field.
func skippedBodyClosesConn(p *Prog, r *Report) {
	rt := p.Func("(*transport).RoundTrip")
	closeC := p.Func("(*HostClient).CloseConn")
	relC := p.Func("(*HostClient).ReleaseConn")
	if rt == nil || closeC == nil || relC == nil {
		r.Undecided("R11", "RoundTrip / CloseConn / ReleaseConn", "not found")
		return
	}
	n := 0
	for _, b := range rt.Blocks {
		iff, ok := b.Instrs[len(b.Instrs)-1].(*ssa.If)
		if !ok {
			continue
		}
		// an If one of whose successors releases and the other closes
		calls := func(bb *ssa.BasicBlock, f *ssa.Function) bool {
			for _, in := range bb.Instrs {
				if c, ok := in.(ssa.CallInstruction); ok && c.Common().StaticCallee() == f {
					return true
				}
			}
			return false
		}
		if !(calls(b.Succs[0], closeC) && calls(b.Succs[1], relC)) && !(calls(b.Succs[1], closeC) && calls(b.Succs[0], relC)) {
			continue
		}
		n++
		at := condAtomsDepth(iff.Cond, 2)
		// the decision variable is raised under conditions: an edge that brings the constant true into it is
		// control-dependent on what guards the block it comes from
		seen := map[ssa.Value]bool{}
		var walk func(v ssa.Value, d int)
		walk = func(v ssa.Value, d int) {
			if d > 8 || seen[v] {
				return
			}
			seen[v] = true
			switch x := v.(type) {
			case *ssa.Phi:
				for i, e := range x.Edges {
					if c, isC := e.(*ssa.Const); isC && c.Value != nil && c.Value.ExactString() == "true" {
						pr := x.Block().Preds[i]
						for _, g := range guardsOf(pr) {
							at[g.Atom] = true
						}
						if len(pr.Preds) == 1 {
							if iff2, ok := pr.Preds[0].Instrs[len(pr.Preds[0].Instrs)-1].(*ssa.If); ok {
								for a := range condAtomsDepth(iff2.Cond, 2) {
									at[a] = true
								}
							}
						}
					} else {
						walk(e, d+1)
					}
				}
			case *ssa.BinOp:
				walk(x.X, d+1)
				walk(x.Y, d+1)
			case *ssa.UnOp:
				// a local that a closure captures lives in memory: what is stored there, and under which conditions
				if al, ok := x.X.(*ssa.Alloc); ok && x.Op == token.MUL {
					for _, ref := range *al.Referrers() {
						st, ok := ref.(*ssa.Store)
						if !ok || st.Addr != ssa.Value(al) {
							continue
						}
						for _, g := range guardsOf(st.Block()) {
							at[g.Atom] = true
						}
						// what the stored value itself depends on ('flag = flag || cond' in one expression)
						for a := range condAtomsDepth(st.Val, 2) {
							at[a] = true
						}
						walk(st.Val, d+1)
					}
					return
				}
				walk(x.X, d+1)
			}
		}
		walk(iff.Cond, 0)
		r.Check("R11", "RoundTrip: whether the connection is pooled depends on the caller's SkipBody (a skipped body is still on the connection)", hasAtomContaining(at, "SkipBody"), p.Pos(iff.Pos()),
			"the close-or-release decision depends on: "+atomsList(at)+" - not on Response.SkipBody: with SkipBody set by the caller for a GET the unread body goes back to the pool with the connection and is returned as the response to the next request")
	}
	r.Floor("R11", "close-or-release decisions at the end of RoundTrip", n, 1)
}

// timerReuseCannotPanic (C16.R9 / C18): the timers of the timeout wrappers and of the connection wait are pooled and
// re-armed through initTimer on every request. Since go 1.23 Reset may report 'was active' for a timer that was
// stopped while its send was in progress, so no explicit panic is reachable from initTimer: a panic there takes the
// whole server down from a serve goroutine.
func timerReuseCannotPanic(p *Prog, r *Report, rule string) {
	fn := p.Func("initTimer")
	if fn == nil {
		r.Undecided(rule, "initTimer", "not found")
		return
	}
	np := 0
	for _, b := range fn.Blocks {
		for _, in := range b.Instrs {
			if _, ok := in.(*ssa.Panic); ok {
				np++
			}
		}
	}
	ncall := 0
	for _, f := range p.funcsIn("") {
		allCalls(f, func(b *ssa.BasicBlock, c ssa.CallInstruction) {
			if c.Common().StaticCallee() == fn {
				ncall++
			}
		})
	}
	r.Floor(rule, "call sites of initTimer", ncall, 2)
	r.Check(rule, "initTimer: re-arming a pooled timer cannot panic", np == 0, p.Pos(fn.Pos()),
		fmt.Sprintf("%d explicit panic statements: Reset reports a timer as active when it was stopped while its send was in progress (go 1.23+ timers) - a handler that finishes at about the moment its timeout fires, on a keep-alive connection, or a connection wait that is satisfied as its timer fires, then crashes the process", np))
}

// socketClosedBeforeSlotFreed (C18.R-close): giving a connection's slot back (decConnsCount) starts the dial for the
// next waiter. In CloseConn the connection is closed first: until Close returns the socket is still open, and a slot
// freed before that lets MaxConns+1 connections be open at once.
func socketClosedBeforeSlotFreed(p *Prog, r *Report) {
	fn := p.Func("(*HostClient).CloseConn")
	dec := p.Func("(*HostClient).decConnsCount")
	if fn == nil || dec == nil {
		r.Undecided("R-close", "(*HostClient).CloseConn / decConnsCount", "not found")
		return
	}
	isClose := func(i ssa.Instruction) bool {
		c, ok := i.(ssa.CallInstruction)
		return ok && c.Common().IsInvoke() && c.Common().Method.Name() == "Close" && typeIsNetConn(c.Common().Value.Type())
	}
	n := 0
	allCalls(fn, func(b *ssa.BasicBlock, c ssa.CallInstruction) {
		if c.Common().StaticCallee() != dec {
			return
		}
		n++
		hit, path := reachAvoiding(fn, nil, func(i ssa.Instruction) bool { return i == ssa.Instruction(c) }, isClose, nil)
		r.Check("R-close", "CloseConn closes the connection before it gives the slot back", hit == nil, p.Pos(c.Pos()),
			"decConnsCount is reachable before the connection's Close: the freed slot starts a dial (or admits a new connection) while this socket is still open - with a slow Close more than MaxConns connections are open at once", blocksString(p, path)...)
	})
	r.Floor("R-close", "slot releases in CloseConn", n, 1)
}

// idleConnsExpire (C18.R-cleaner): ConnsCount returns to zero only if idle connections expire, which is the cleaner's
// job. Every function that appends a connection to the idle list makes sure, in the same critical section, that the
// cleaner runs: from the store of the appended list no Unlock or return is reachable without a call that raises
// connsCleanerRun (or the raise itself) - unless such a call already dominates the store.
func idleConnsExpire(p *Prog, r *Report) {
	raises := func(f *ssa.Function) bool {
		if f == nil || f.Blocks == nil {
			return false
		}
		for _, b := range f.Blocks {
			for _, in := range b.Instrs {
				if st, ok := in.(*ssa.Store); ok {
					if _, fv := fieldOfAddr(st.Addr); fv != nil && fv.Name() == "connsCleanerRun" {
						if c, isC := st.Val.(*ssa.Const); isC && c.Value != nil && c.Value.ExactString() == "true" {
							return true
						}
					}
				}
			}
		}
		return false
	}
	n := 0
	for _, fn := range p.funcsIn("") {
		if recvTypeName(fn) != "HostClient" {
			continue
		}
		for _, b := range fn.Blocks {
			for _, in := range b.Instrs {
				st, ok := in.(*ssa.Store)
				if !ok {
					continue
				}
				base, fv := fieldOfAddr(st.Addr)
				if fv == nil || fv.Name() != "conns" || base == nil || typeNameOf(base) != "HostClient" {
					continue
				}
				c, ok := st.Val.(*ssa.Call)
				if !ok {
					continue
				}
				if bi, ok := c.Call.Value.(*ssa.Builtin); !ok || bi.Name() != "append" {
					continue
				}
				n++
				ensures := func(i ssa.Instruction) bool {
					if cc, ok := i.(ssa.CallInstruction); ok && cc.Common().StaticCallee() != nil && inModule(cc.Common().StaticCallee()) && raises(cc.Common().StaticCallee()) {
						return true
					}
					if s2, ok := i.(*ssa.Store); ok {
						if _, f2 := fieldOfAddr(s2.Addr); f2 != nil && f2.Name() == "connsCleanerRun" {
							return true
						}
					}
					// 'if !running { running = true; go cleaner() }': the test itself settles it when its
					// not-running branch raises the flag
					if iff, ok := i.(*ssa.If); ok {
						pol, cv := stripNot(iff.Cond)
						if _, fv := loadedField(cv); fv != nil && fv.Name() == "connsCleanerRun" {
							notRunning := iff.Block().Succs[1]
							if !pol {
								notRunning = iff.Block().Succs[0]
							}
							for _, ni := range notRunning.Instrs {
								if s3, ok := ni.(*ssa.Store); ok {
									if _, f3 := fieldOfAddr(s3.Addr); f3 != nil && f3.Name() == "connsCleanerRun" {
										return true
									}
								}
							}
						}
					}
					return false
				}
				hit, path := reachAvoiding(fn, st, func(i ssa.Instruction) bool {
					if isReturn(i) {
						return true
					}
					cc, ok := i.(ssa.CallInstruction)
					if !ok {
						return false
					}
					if _, isD := i.(*ssa.Defer); isD {
						return false
					}
					key, op, _ := lockOp(cc)
					return op < 0 && strings.HasSuffix(key, "connsLock")
				}, ensures, nil)
				if hit != nil {
					for _, b2 := range fn.Blocks {
						for _, i2 := range b2.Instrs {
							if ensures(i2) && dominatesInstr(i2, st) {
								hit, path = nil, nil
							}
						}
					}
				}
				r.Check("R-cleaner", funcName(fn)+": a connection that becomes idle has the idle cleaner running", hit == nil, p.Pos(st.Pos()),
					"the idle list grows and the critical section ends without anything that starts the cleaner: a connection dialled for a waiting request (the cleaner is otherwise started only when AcquireConn creates one for a keep-alive request) never expires, and ConnsCount never returns to zero", blocksString(p, path)...)
			}
		}
	}
	r.Floor("R-cleaner", "appends to the idle connection list", n, 2)
}

// pipelinedBodyLeavesTheReader (C04.R12): the pipeline reader shares one buffered reader between the responses of all
// requests in flight. At the call that reads a response, the flags that decide whether the body is taken off the
// reader are the reader's own: on every path the last store to resp.SkipBody before the read has a value computed
// from the request's method (IsHead), and a store of false to resp.StreamBody precedes it - never the caller's
// values, which would leave the body in (or stream it from) the reader the next response is read from.
func pipelinedBodyLeavesTheReader(p *Prog, r *Report) {
	fn := p.Func("(*pipelineConnClient).reader")
	if fn == nil {
		r.Undecided("R12", "(*pipelineConnClient).reader", "not found")
		return
	}
	var read ssa.Instruction
	allCalls(fn, func(b *ssa.BasicBlock, c ssa.CallInstruction) {
		if f := c.Common().StaticCallee(); f != nil && f.Name() == "Read" && recvTypeName(f) == "Response" {
			read = c
		}
	})
	if read == nil {
		r.Undecided("R12", "reader: the call that reads a response", "not found")
		return
	}
	header := loopHeaderOf(read.Block())
	storeOf := func(i ssa.Instruction, field string) *ssa.Store {
		st, ok := i.(*ssa.Store)
		if !ok {
			return nil
		}
		if _, fv := fieldOfAddr(st.Addr); fv != nil && fv.Name() == field {
			return st
		}
		return nil
	}
	isHeadCall := func(v ssa.Value) bool {
		c, ok := v.(*ssa.Call)
		return ok && c.Call.StaticCallee() != nil && c.Call.StaticCallee().Name() == "IsHead"
	}
	// the stored value is the method test itself, or a constant chosen by a branch on it
	fromMethodAt := func(st *ssa.Store) bool {
		if isHeadCall(st.Val) {
			return true
		}
		c, isC := st.Val.(*ssa.Const)
		if !isC || c.Value == nil {
			return false
		}
		want := c.Value.ExactString() == "true"
		for _, pr := range st.Block().Preds {
			if iff, ok := pr.Instrs[len(pr.Instrs)-1].(*ssa.If); ok && len(st.Block().Preds) == 1 {
				pol, cv := stripNot(iff.Cond)
				if isHeadCall(cv) && ((pr.Succs[0] == st.Block()) == pol) == want {
					return true
				}
			}
		}
		return false
	}
	start := ssa.Instruction(nil)
	if header != nil {
		start = header.Instrs[len(header.Instrs)-1]
	}
	isRead := func(i ssa.Instruction) bool { return i == read }
	h1, p1 := reachAvoiding(fn, start, isRead, func(i ssa.Instruction) bool {
		st := storeOf(i, "SkipBody")
		return st != nil && fromMethodAt(st)
	}, nil)
	r.Check("R12", "pipeline reader: the response is read with SkipBody decided by the request's method", h1 == nil, p.Pos(read.Pos()),
		"the read is reachable without a store of IsHead() into resp.SkipBody: with the caller's SkipBody = true on a GET the body stays in the shared reader and is parsed as the response to the next pipelined request", blocksString(p, p1)...)
	h2, p2 := reachAvoiding(fn, start, isRead, func(i ssa.Instruction) bool {
		st := storeOf(i, "StreamBody")
		if st == nil {
			return false
		}
		c, isC := st.Val.(*ssa.Const)
		return isC && c.Value != nil && c.Value.ExactString() == "false"
	}, nil)
	r.Check("R12", "pipeline reader: the response is read with StreamBody off", h2 == nil, p.Pos(read.Pos()),
		"the read is reachable without resp.StreamBody = false: the caller gets a stream over the reader the next response is read from", blocksString(p, p2)...)
	// the caller's flags do not reach the read: no store of a non-method value into SkipBody between the method store and the read
	bad := 0
	for _, b := range fn.Blocks {
		for _, in := range b.Instrs {
			if st := storeOf(in, "SkipBody"); st != nil && !fromMethodAt(st) {
				if hit, _ := reachAvoiding(fn, in, isRead, func(i ssa.Instruction) bool {
					s2 := storeOf(i, "SkipBody")
					return s2 != nil && fromMethodAt(s2)
				}, map[*ssa.BasicBlock]bool{}); hit != nil && header != nil && inLoop(header, b) {
					// reachable only around the loop through the header, where the method store intervenes, is fine
					if h3, _ := reachAvoiding(fn, in, isRead, func(i ssa.Instruction) bool {
						s2 := storeOf(i, "SkipBody")
						return s2 != nil && fromMethodAt(s2)
					}, nil); h3 != nil {
						bad++
					}
				}
			}
		}
	}
	r.Check("R12", "pipeline reader: no store of the caller's SkipBody reaches the read", bad == 0, p.Pos(read.Pos()), fmt.Sprintf("%d stores of another value into resp.SkipBody reach the read without the method store in between", bad))
}

// chunkBoundaryEOFIsAnError (C04.R13): a chunked body ends with a chunk of size zero. When the connection ends where
// the next chunk-size line should begin, the stream reader must not hand the caller a clean io.EOF - a response cut
// off at a chunk boundary would pass for a complete one. In requestStream.Read every return on the failure branch of
// the chunk-size parser is reached only through a comparison of the error with io.EOF.
func chunkBoundaryEOFIsAnError(p *Prog, r *Report) {
	fn := p.Func("(*requestStream).Read")
	pcs := p.Func("parseChunkSize")
	if fn == nil || pcs == nil {
		r.Undecided("R13", "(*requestStream).Read / parseChunkSize", "not found")
		return
	}
	n := 0
	allCalls(fn, func(b *ssa.BasicBlock, c ssa.CallInstruction) {
		cv, ok := c.(*ssa.Call)
		if !ok || cv.Call.StaticCallee() != pcs {
			return
		}
		var failed *ssa.BasicBlock
		for _, ref := range *cv.Referrers() {
			ex, ok := ref.(*ssa.Extract)
			if !ok || ex.Index != 1 {
				continue
			}
			for _, r2 := range *ex.Referrers() {
				bo, ok := r2.(*ssa.BinOp)
				if !ok || !(bo.Op == token.NEQ || bo.Op == token.EQL) || !(isNilConst(bo.X) || isNilConst(bo.Y)) {
					continue
				}
				for _, r3 := range *bo.Referrers() {
					if iff, ok := r3.(*ssa.If); ok {
						failed = iff.Block().Succs[0]
						if bo.Op == token.EQL {
							failed = iff.Block().Succs[1]
						}
					}
				}
			}
		}
		if failed == nil {
			return
		}
		n++
		eofTest := func(i ssa.Instruction) bool {
			iff, ok := i.(*ssa.If)
			if !ok {
				return false
			}
			bo, ok := iff.Cond.(*ssa.BinOp)
			return ok && (globalOf(bo.X) == "EOF" || globalOf(bo.Y) == "EOF")
		}
		bad := isReturn(failed.Instrs[0])
		var path []*ssa.BasicBlock
		if !bad && !eofTest(failed.Instrs[0]) {
			var hit ssa.Instruction
			hit, path = reachAvoiding(fn, failed.Instrs[0], isReturn, eofTest, nil)
			bad = hit != nil
		}
		r.Check("R13", "requestStream.Read: an error of the chunk-size parser is returned only after it was compared with io.EOF", !bad, p.Pos(c.Pos()),
			"the failure of parseChunkSize is returned as it is: when the connection ends exactly at a chunk boundary the caller of a streamed chunked response reads a clean io.EOF - a body cut off by the server passes for a complete one", blocksString(p, path)...)
	})
	r.Floor("R13", "chunk-size parses in requestStream.Read", n, 1)
}
