package main

import (
	"fmt"
	"go/token"
	"go/types"
	"os"
	"sort"
	"strings"

	"golang.org/x/tools/go/callgraph"
	"golang.org/x/tools/go/callgraph/cha"
	"golang.org/x/tools/go/callgraph/vta"
	"golang.org/x/tools/go/packages"
	"golang.org/x/tools/go/ssa"
	"golang.org/x/tools/go/ssa/ssautil"
)

// Prog is the resolved program for one build configuration of /repo.
type Prog struct {
	Arch   string
	Dir    string
	Fset   *token.FileSet
	Pkgs   []*packages.Package
	SSA    *ssa.Program
	byPath map[string]*packages.Package
	ssaPkg map[string]*ssa.Package
	cg     *callgraph.Graph
	mods   *modInfo
	impls  map[string][]*ssa.Function
	srcFns []*ssa.Function
	serve  map[string]*serveResult
	nonNil map[*ssa.Function]int8
	e7c    *e7

	NFuncs int
}

const rootPkg = "github.com/valyala/fasthttp"

// loadProg type-checks every package of the module in dir (tests excluded: the
// properties are about the library) and builds SSA for it.
func loadProg(dir, goarch string) (*Prog, error) {
	env := os.Environ()
	env = append(env, "GOARCH="+goarch, "GOOS=linux")
	cfg := &packages.Config{
		Mode:  packages.LoadAllSyntax,
		Dir:   dir,
		Env:   env,
		Tests: false,
	}
	pkgs, err := packages.Load(cfg, "./...")
	if err != nil {
		return nil, fmt.Errorf("packages.Load: %w", err)
	}
	if len(pkgs) == 0 {
		return nil, fmt.Errorf("no packages loaded from %s", dir)
	}
	var errs []string
	packages.Visit(pkgs, nil, func(p *packages.Package) {
		for _, e := range p.Errors {
			errs = append(errs, e.Error())
		}
	})
	if len(errs) > 0 {
		return nil, fmt.Errorf("type errors (%d): %s", len(errs), strings.Join(errs[:min(len(errs), 5)], "; "))
	}
	prog, spkgs := ssautil.AllPackages(pkgs, ssa.InstantiateGenerics)
	prog.Build()
	p := &Prog{Arch: goarch, Dir: dir, Fset: pkgs[0].Fset, Pkgs: pkgs, SSA: prog,
		byPath: map[string]*packages.Package{}, ssaPkg: map[string]*ssa.Package{}}
	for i, pk := range pkgs {
		p.byPath[pk.PkgPath] = pk
		if spkgs[i] != nil {
			p.ssaPkg[pk.PkgPath] = spkgs[i]
		}
	}
	if p.byPath[rootPkg] == nil {
		return nil, fmt.Errorf("package %s not among the %d loaded packages", rootPkg, len(pkgs))
	}
	return p, nil
}

// CallGraph builds (once) the VTA call graph refined from CHA.
func (p *Prog) CallGraph() *callgraph.Graph {
	if p.cg == nil {
		fns := ssautil.AllFunctions(p.SSA)
		p.NFuncs = len(fns)
		p.cg = vta.CallGraph(fns, cha.CallGraph(p.SSA))
	}
	return p.cg
}

func (p *Prog) Pkg(path string) *ssa.Package {
	if sp := p.ssaPkg[path]; sp != nil {
		return sp
	}
	return p.ssaPkg[rootPkg+"/"+path]
}

func (p *Prog) Root() *ssa.Package { return p.ssaPkg[rootPkg] }

// Func finds a package-level function or a method by a spec such as
// "parseUintBuf", "(*Server).serveConnCounted", "Server.Serve" or with a
// sub-package prefix "stackless.NewFunc", "prefork.(*Prefork).prefork".
// It returns nil if it does not exist (callers turn that into "undecided").
func (p *Prog) Func(spec string) *ssa.Function {
	pkg := p.Root()
	if i := strings.Index(spec, "."); i > 0 && !strings.HasPrefix(spec, "(") {
		// maybe "pkg.Name" or "Type.Method"
		head := spec[:i]
		if sp := p.Pkg(head); sp != nil && sp != pkg {
			pkg = sp
			spec = spec[i+1:]
		}
	}
	if pkg == nil {
		return nil
	}
	if strings.HasPrefix(spec, "(*") {
		j := strings.Index(spec, ").")
		if j < 0 {
			return nil
		}
		return p.method(pkg, spec[2:j], spec[j+2:], true)
	}
	if i := strings.Index(spec, "."); i > 0 {
		return p.method(pkg, spec[:i], spec[i+1:], false)
	}
	return pkg.Func(spec)
}

func (p *Prog) method(pkg *ssa.Package, typ, name string, ptr bool) *ssa.Function {
	m := pkg.Members[typ]
	t, ok := m.(*ssa.Type)
	if !ok {
		return nil
	}
	var recv types.Type = t.Type()
	if ptr {
		recv = types.NewPointer(recv)
	}
	sel := p.SSA.MethodSets.MethodSet(recv).Lookup(pkg.Pkg, name)
	if sel == nil {
		// unexported lookups need the package; exported ones don't care
		sel = p.SSA.MethodSets.MethodSet(types.NewPointer(t.Type())).Lookup(pkg.Pkg, name)
		if sel == nil {
			return nil
		}
	}
	return p.SSA.MethodValue(sel)
}

// NamedType returns the named type spec "Server" or "stackless.writer".
func (p *Prog) NamedType(spec string) *types.Named {
	pkg := p.Root()
	if i := strings.Index(spec, "."); i > 0 {
		pkg = p.Pkg(spec[:i])
		spec = spec[i+1:]
	}
	if pkg == nil {
		return nil
	}
	t, ok := pkg.Members[spec].(*ssa.Type)
	if !ok {
		return nil
	}
	n, _ := t.Type().(*types.Named)
	return n
}

// Pos renders a position relative to the repository root.
func (p *Prog) Pos(pos token.Pos) string {
	if !pos.IsValid() {
		return "-"
	}
	ps := p.Fset.Position(pos)
	f := strings.TrimPrefix(ps.Filename, p.Dir+"/")
	return fmt.Sprintf("%s:%d", f, ps.Line)
}

// SrcFuncs returns every function with a body defined in the module (including
// anonymous functions and methods), sorted by position.
func (p *Prog) SrcFuncs() []*ssa.Function {
	if p.srcFns != nil {
		return p.srcFns
	}
	var out []*ssa.Function
	seen := map[*ssa.Function]bool{}
	var add func(f *ssa.Function)
	add = func(f *ssa.Function) {
		if f == nil || seen[f] || f.Blocks == nil {
			return
		}
		seen[f] = true
		out = append(out, f)
		for _, a := range f.AnonFuncs {
			add(a)
		}
	}
	for path, sp := range p.ssaPkg {
		if !strings.HasPrefix(path, rootPkg) {
			continue
		}
		for _, m := range sp.Members {
			switch m := m.(type) {
			case *ssa.Function:
				add(m)
			case *ssa.Type:
				for _, recv := range []types.Type{m.Type(), types.NewPointer(m.Type())} {
					ms := p.SSA.MethodSets.MethodSet(recv)
					for i := 0; i < ms.Len(); i++ {
						fn := p.SSA.MethodValue(ms.At(i))
						if fn != nil && fn.Synthetic == "" {
							add(fn)
						}
					}
				}
			}
		}
	}
	sort.Slice(out, func(i, j int) bool {
		if out[i].Pos() != out[j].Pos() {
			return out[i].Pos() < out[j].Pos()
		}
		return out[i].String() < out[j].String()
	})
	p.srcFns = out
	return out
}

// funcsIn returns SrcFuncs restricted to one package path suffix ("" = root).
func (p *Prog) funcsIn(sub string) []*ssa.Function {
	want := rootPkg
	if sub != "" {
		want = rootPkg + "/" + sub
	}
	var out []*ssa.Function
	for _, f := range p.SrcFuncs() {
		if f.Pkg != nil && f.Pkg.Pkg.Path() == want {
			out = append(out, f)
		} else if f.Pkg == nil && f.Parent() != nil {
			q := f
			for q.Parent() != nil {
				q = q.Parent()
			}
			if q.Pkg != nil && q.Pkg.Pkg.Path() == want {
				out = append(out, f)
			}
		}
	}
	return out
}
