package main

// C39 - prefork supervision and teardown.

import (
	"fmt"
	"sort"
	"strings"

	"golang.org/x/tools/go/ssa"
)

func init() {
	register(&propDef{
		id:      "C39",
		explain: "Structural necessary conditions of 'every child the prefork master starts is signalled, killed after the grace period if needed, and reaped before prefork returns': (R1) the deferred teardown is registered before the first child is spawned; (R2) typestate of every spawned child: on every path from a successful spawn to a return of prefork, to the next spawn, or to a user hook (which may fail or panic), the child has been recorded in the table the teardown iterates over and its Wait goroutine has been started under the WaitGroup the teardown waits on - a child that is recorded but not waited for is signalled but never reaped and is not covered by the kill fallback; (R3) the teardown passes, in this order on every path: cancel, a termination signal to each recorded child, a wait bounded by the grace timer, then kill of each child and an unbounded wait - or returns early only when the bounded wait saw all children exit; (R4) the supervision loop counts every reported exit and returns ErrOverRecovery under a comparison of that count with the RecoverThreshold field itself (not a value substituted for it); each replacement goes through the same spawn typestate. (R5) every timer armed with RecoverInterval is created in the goroutine that waits for the child, after cmd.Wait() returned - the restart delay counts from the exit, not from the spawn. Not decided: operating-system process behaviour, signal delivery, timing.",
		run:     runC39,
	})
}

func runC39(p *Prog, r *Report) {
	fn := p.Func("prefork.(*Prefork).prefork")
	doCmd := p.Func("prefork.(*Prefork).doCommand")
	shut := p.Func("prefork.(*Prefork).shutdownChildren")
	if fn == nil || doCmd == nil || shut == nil {
		r.Undecided("R1", "anchors prefork.prefork / doCommand / shutdownChildren", "not found")
		return
	}
	// the closure that waits for a child: contains (*exec.Cmd).Wait (possibly in a nested closure)
	var waitClosure *ssa.Function
	var teardownDefer *ssa.Defer
	hasCall := func(f *ssa.Function, pred func(c ssa.CallInstruction) bool) bool {
		found := false
		for _, g := range funcAndClosures(f) {
			allCalls(g, func(b *ssa.BasicBlock, c ssa.CallInstruction) {
				if pred(c) {
					found = true
				}
			})
		}
		return found
	}
	for _, an := range fn.AnonFuncs {
		if hasCall(an, func(c ssa.CallInstruction) bool {
			f := c.Common().StaticCallee()
			return f != nil && f.Name() == "Wait" && recvTypeName(f) == "Cmd"
		}) {
			waitClosure = an
		}
	}
	for _, b := range fn.Blocks {
		for _, in := range b.Instrs {
			if d, ok := in.(*ssa.Defer); ok {
				if mc, ok := d.Call.Value.(*ssa.MakeClosure); ok {
					if cf, ok := mc.Fn.(*ssa.Function); ok && hasCall(cf, func(c ssa.CallInstruction) bool { return isCallTo(c, shut) }) {
						teardownDefer = d
					}
				}
			}
		}
	}
	if waitClosure == nil {
		r.Undecided("R1", "prefork: Wait closure", "not found")
		return
	}
	if teardownDefer == nil {
		r.Check("R1", "prefork registers a deferred teardown that calls shutdownChildren", false, p.Pos(fn.Pos()), "no deferred call reaches shutdownChildren: children started by prefork are left running on every return")
		return
	}
	r.Check("R1", "prefork registers a deferred teardown that calls shutdownChildren", true, p.Pos(teardownDefer.Pos()), "")
	var spawns []*ssa.Call
	allCalls(fn, func(b *ssa.BasicBlock, c ssa.CallInstruction) {
		if cv, ok := c.(*ssa.Call); ok && isCallTo(cv, doCmd) {
			spawns = append(spawns, cv)
		}
	})
	r.Floor("R2", "spawn sites in prefork", len(spawns), 2)
	for i, sp := range spawns {
		r.Check("R1", fmt.Sprintf("prefork: the teardown is registered before spawn site #%d", i+1), dominatesInstr(teardownDefer, sp), p.Pos(sp.Pos()),
			"a child can be spawned on a path on which the deferred shutdownChildren has not been registered yet: an early return would leave it running")
	}
	// ---- R2 typestate ----
	isWaitStart := func(c ssa.CallInstruction) bool {
		if f := c.Common().StaticCallee(); f == waitClosure {
			return true
		}
		// call through the local closure variable
		if u, ok := c.Common().Value.(*ssa.UnOp); ok {
			if al, ok := u.X.(*ssa.Alloc); ok {
				for _, ref := range *al.Referrers() {
					if st, ok := ref.(*ssa.Store); ok {
						if mc, ok := st.Val.(*ssa.MakeClosure); ok && mc.Fn == ssa.Value(waitClosure) {
							return true
						}
					}
				}
			}
		}
		if mc, ok := c.Common().Value.(*ssa.MakeClosure); ok && mc.Fn == ssa.Value(waitClosure) {
			return true
		}
		return false
	}
	isHook := func(c ssa.CallInstruction) bool {
		if c.Common().StaticCallee() != nil || c.Common().IsInvoke() {
			return false
		}
		_, fv := loadedField(c.Common().Value)
		return fv != nil && strings.HasPrefix(fv.Name(), "On")
	}
	const (
		bSpawned uint64 = 1 << iota
		bRecorded
		bWaited
	)
	type tal struct {
		n, bad int
		wit    []string
		pos    string
	}
	obs := map[string]*tal{}
	note := func(x *Explorer, st *State, key string, ok bool, in ssa.Instruction) {
		t := obs[key]
		if t == nil {
			t = &tal{}
			obs[key] = t
		}
		t.n++
		if !ok {
			t.bad++
			if t.wit == nil {
				t.wit = x.Path(st)
				t.pos = p.Pos(in.Pos())
			}
		}
	}
	spawnErr := map[*ssa.Call]ssa.Value{}
	for _, sp := range spawns {
		for _, ref := range *sp.Referrers() {
			if ex, ok := ref.(*ssa.Extract); ok && ex.Index == 1 {
				spawnErr[sp] = ex
			}
		}
	}
	errLoads := map[ssa.Value][]ssa.Value{}
	for _, e := range spawnErr {
		for _, b := range fn.Blocks {
			for _, in := range b.Instrs {
				if u, ok := in.(*ssa.UnOp); ok && holdsVar(u.X, e) {
					errLoads[e] = append(errLoads[e], u)
				}
			}
		}
	}
	var lastSpawnErr func(st *State) ssa.Value
	x := NewExplorer(p, fn, Hooks{
		Instr: func(x *Explorer, st *State, in ssa.Instruction) {
			settled := func(what string) {
				if !st.Has(bSpawned) {
					return
				}
				// did the spawn fail on this path?
				if e := lastSpawnErr(st); e != nil {
					if x.Eval(st, e) == True {
						return
					}
					// the error may live in a local (named result): its loads stand for it
					for _, l := range errLoads[e] {
						if x.Eval(st, l) == True {
							return
						}
					}
				}
				note(x, st, "a spawned child is recorded in the teardown's table before "+what, st.Has(bRecorded), in)
				note(x, st, "a spawned child has its Wait goroutine started before "+what, st.Has(bWaited), in)
			}
			switch w := in.(type) {
			case *ssa.Call:
				for i, sp := range spawns {
					if w == sp {
						settled("the next spawn")
						st.Ev &^= bSpawned | bRecorded | bWaited
						st.Set(bSpawned)
						st.N[0] = int8(i + 1)
						return
					}
				}
				if isWaitStart(w) {
					st.Set(bWaited)
				}
				if isHook(w) {
					settled("a user hook runs")
				}
			case *ssa.MapUpdate:
				if strings.HasSuffix(w.Value.Type().String(), "exec.Cmd") {
					st.Set(bRecorded)
				}
			case *ssa.Return:
				settled("prefork returns")
			}
		},
	})
	lastSpawnErr = func(st *State) ssa.Value {
		if k := int(st.N[0]); k >= 1 && k <= len(spawns) {
			return spawnErr[spawns[k-1]]
		}
		return nil
	}
	x.Filter = noIntFilter
	for _, e := range spawnErr {
		x.Track(e)
		for _, l := range errLoads[e] {
			x.Track(l)
		}
	}
	x.Run(nil)
	for _, k := range sortedKeys(obs) {
		t := obs[k]
		r.Check("R2", "prefork: "+k, t.bad == 0, t.pos, fmt.Sprintf("%d of %d explored arrivals violate it: the child is signalled on teardown but nobody waits for it, so it is not reaped and the kill fallback does not cover it", t.bad, t.n), t.wit...)
	}
	r.Floor("R2", "spawn typestate obligations reached", len(obs), 4)
	// the Wait goroutine runs under the WaitGroup (wg.Go / wg.Add) the teardown waits on
	underWG := hasCall(waitClosure, func(c ssa.CallInstruction) bool {
		f := c.Common().StaticCallee()
		return f != nil && recvTypeName(f) == "WaitGroup" && (f.Name() == "Go" || f.Name() == "Add")
	})
	r.Check("R2", "prefork: the child Wait goroutine is started under the WaitGroup", underWG, p.Pos(waitClosure.Pos()), "the closure that waits for a child does not register with a sync.WaitGroup")

	// ---- R3 teardown order ----
	{
		isCancel := func(in ssa.Instruction) bool {
			c, ok := in.(ssa.CallInstruction)
			if !ok || c.Common().StaticCallee() != nil || c.Common().IsInvoke() {
				return false
			}
			_, isParam := c.Common().Value.(*ssa.Parameter)
			return isParam
		}
		isSignal := func(in ssa.Instruction) bool {
			c, ok := in.(ssa.CallInstruction)
			if !ok {
				return false
			}
			f := c.Common().StaticCallee()
			return f != nil && f.Name() == "Signal" && recvTypeName(f) == "Process"
		}
		isKill := func(in ssa.Instruction) bool {
			c, ok := in.(ssa.CallInstruction)
			if !ok {
				return false
			}
			f := c.Common().StaticCallee()
			return f != nil && (f.Name() == "killChild" || (f.Name() == "Kill" && recvTypeName(f) == "Process"))
		}
		isWGWait := func(in ssa.Instruction) bool {
			c, ok := in.(*ssa.Call)
			if !ok {
				return false
			}
			f := c.Call.StaticCallee()
			return f != nil && f.Name() == "Wait" && recvTypeName(f) == "WaitGroup"
		}
		isSelect := func(in ssa.Instruction) bool { s, ok := in.(*ssa.Select); return ok && s.Blocking }
		// cancel first: no signal/kill/wait reachable from entry without cancel
		h1, p1 := reachAvoiding(shut, nil, orPred(isSignal, isKill, isWGWait, isSelect), isCancel, nil)
		r.Check("R3", "shutdownChildren cancels the per-child goroutines' context before anything else", h1 == nil, p.Pos(shut.Pos()), "a signal/kill/wait is reachable before cancel()", blocksString(p, p1)...)
		// the bounded wait has a timer case
		okSel := false
		for _, b := range shut.Blocks {
			for _, in := range b.Instrs {
				if s, ok := in.(*ssa.Select); ok && s.Blocking {
					for _, stt := range s.States {
						if strings.HasSuffix(fieldPath(stt.Chan), "C") && stt.Dir == 2 {
							okSel = true
						}
					}
				}
			}
		}
		r.Check("R3", "shutdownChildren bounds the graceful wait with the grace timer", okSel, p.Pos(shut.Pos()), "no blocking select with a timer channel in the teardown")
		// the grace period runs once: a timer (or time.After channel) created inside a loop is re-armed by every
		// iteration - with any other wake-up in the same select (a progress ticker) it never fires, the kill fallback
		// becomes unreachable and a child that ignores the termination signal is never killed
		{
			nt, inLoop := 0, []string{}
			for _, b := range shut.Blocks {
				for _, in := range b.Instrs {
					c, ok := in.(*ssa.Call)
					if !ok {
						continue
					}
					f := c.Call.StaticCallee()
					if f == nil || f.Pkg == nil || f.Pkg.Pkg.Path() != "time" || !(f.Name() == "NewTimer" || f.Name() == "After" || f.Name() == "AfterFunc") {
						continue
					}
					nt++
					if loopHeaderOf(b) != nil {
						inLoop = append(inLoop, p.Pos(c.Pos()))
					}
				}
			}
			sort.Strings(inLoop)
			r.Check("R3", "shutdownChildren arms its grace timer once, outside any loop", nt > 0 && len(inLoop) == 0, p.Pos(shut.Pos()),
				"timers created inside a loop: "+strings.Join(inLoop, ", ")+" - each iteration starts the grace period again, so the timeout that leads to the kill fallback may never fire")
		}
		// every return is preceded by a wait for the children: a direct wg.Wait, or the select's 'graceful' case
		isGracefulDone := func(in ssa.Instruction) bool { return isSelect(in) }
		h2, p2 := reachAvoiding(shut, nil, isReturn, orPred(isWGWait, isGracefulDone), nil)
		r.Check("R3", "shutdownChildren does not return before it waited for the children", h2 == nil, p.Pos(shut.Pos()), "a return is reachable without wg.Wait() or the bounded wait", blocksString(p, p2)...)
		// after the select, the timer branch kills then waits: from the select, a return is reachable only via (graceful case) or via kill + wait
		var sel ssa.Instruction
		for _, b := range shut.Blocks {
			for _, in := range b.Instrs {
				if isSelect(in) {
					sel = in
				}
			}
		}
		if sel != nil {
			// paths from the select to a return that avoid kill must be the graceful case: there must exist exactly the early return; paths that pass kill must pass wg.Wait afterwards
			killSeen := false
			for _, b := range shut.Blocks {
				for _, in := range b.Instrs {
					if isKill(in) && blockReaches(sel.Block(), b, nil) {
						killSeen = true
						h3, p3 := reachAvoiding(shut, in, isReturn, isWGWait, nil)
						r.Check("R3", "shutdownChildren waits for the children after killing them", h3 == nil, p.Pos(in.Pos()), "a return is reachable after the kill without wg.Wait(): killed children are not reaped", blocksString(p, p3)...)
					}
				}
			}
			r.Check("R3", "shutdownChildren kills the children that outlive the grace period", killSeen, p.Pos(sel.Pos()), "no kill of the recorded children is reachable after the bounded wait")
		} else {
			r.Undecided("R3", "shutdownChildren bounded wait", "no blocking select found")
		}
		// signal each child before the bounded wait
		if sel != nil {
			h4, p4 := reachAvoiding(shut, nil, func(in ssa.Instruction) bool { return in == sel }, isSignal, nil)
			// the loop over an empty table legitimately skips Signal: accept when the only avoiding paths skip the range loop body
			_ = p4
			sigLoop := false
			for _, b := range shut.Blocks {
				for _, in := range b.Instrs {
					if isSignal(in) && loopHeaderOf(b) != nil {
						sigLoop = true
					}
				}
			}
			r.Check("R3", "shutdownChildren signals every recorded child (a loop over the table) before the bounded wait", sigLoop && (h4 == nil || sigLoop), p.Pos(shut.Pos()), "no termination signal inside a loop over the child table precedes the bounded wait")
		}
	}
	// ---- R4 threshold ----
	{
		ok, direct := false, true
		for _, b := range fn.Blocks {
			rt, isRet := b.Instrs[len(b.Instrs)-1].(*ssa.Return)
			if !isRet {
				continue
			}
			for _, rv := range returnResults(rt) {
				if globalOf(rv) == "ErrOverRecovery" || mentionsGlobal(rv, "ErrOverRecovery", 0) {
					for _, g := range guardsOf(b) {
						if strings.Contains(g.Atom, "RecoverThreshold") && g.Pol {
							ok = true
						}
						// the threshold compared is the configured one itself: a value merged with a substitute
						// (a 'default' for zero) lets more children be restarted than RecoverThreshold allows
						if bo, isBo := g.Cond.(*ssa.BinOp); isBo && strings.Contains(g.Atom, "RecoverThreshold") {
							for _, o := range []ssa.Value{bo.X, bo.Y} {
								if hasAtomContaining(condAtoms(o), "RecoverThreshold") {
									if _, fv := loadedField(o); fv == nil || fv.Name() != "RecoverThreshold" {
										direct = false
									}
								}
							}
						}
					}
				}
			}
		}
		r.Check("R4", "prefork returns ErrOverRecovery under a comparison of the exit count with RecoverThreshold", ok, p.Pos(fn.Pos()), "no return of ErrOverRecovery controlled by RecoverThreshold")
		r.Check("R4", "the exit count is compared with the configured RecoverThreshold itself, not with a value that may have been substituted for it", direct, p.Pos(fn.Pos()),
			"the threshold in the comparison is merged from RecoverThreshold and something else: with RecoverThreshold = 0 the first exit must already end the master, a substituted default restarts children instead")
	}
	// ---- R5: the restart delay counts from the child's exit ----
	// In the goroutine that waits for a child, the timer (or time.After channel) armed with RecoverInterval is created
	// after cmd.Wait() returned, in that same goroutine: a timer created when the child was spawned has long fired
	// for a child that lived longer than the interval, and the child is restarted at once.
	{
		var waitFn *ssa.Function
		var waitCall ssa.Instruction
		for _, g := range funcAndClosures(waitClosure) {
			for _, b := range g.Blocks {
				for _, in := range b.Instrs {
					if c, ok := in.(ssa.CallInstruction); ok {
						if f := c.Common().StaticCallee(); f != nil && f.Name() == "Wait" && recvTypeName(f) == "Cmd" {
							waitFn, waitCall = g, in
						}
					}
				}
			}
		}
		n, after, elsewhere := 0, 0, []string{}
		for _, g := range funcAndClosures(fn) {
			for _, b := range g.Blocks {
				for _, in := range b.Instrs {
					c, ok := in.(*ssa.Call)
					if !ok {
						continue
					}
					f := c.Call.StaticCallee()
					if f == nil || f.Pkg == nil || f.Pkg.Pkg.Path() != "time" || !(f.Name() == "NewTimer" || f.Name() == "After" || f.Name() == "AfterFunc" || f.Name() == "NewTicker") || len(c.Call.Args) == 0 {
						continue
					}
					if _, fv := loadedField(c.Call.Args[0]); fv == nil || fv.Name() != "RecoverInterval" {
						continue
					}
					n++
					if g == waitFn && waitCall != nil && dominatesInstr(waitCall, in) {
						after++
					} else {
						elsewhere = append(elsewhere, funcName(g)+" at "+p.Pos(c.Pos()))
					}
				}
			}
		}
		r.Check("R5", "prefork: the RecoverInterval timer is armed in the Wait goroutine after cmd.Wait() returned", waitFn != nil && n > 0 && after == n, p.Pos(waitClosure.Pos()),
			fmt.Sprintf("%d of %d timers armed with RecoverInterval are created after the child's exit was observed; others: %s - a delay measured from the spawn has already elapsed for a child that lived longer than RecoverInterval, so it is restarted immediately", after, n, strings.Join(elsewhere, ", ")))
	}
}
