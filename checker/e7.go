package main

// E7: which fields of an object does a function definitely write on every
// path? Forward must-analysis (intersection at joins) over the SSA CFG, with
// callee summaries for module functions that receive the object or the
// address of one of its (nested) struct fields.

import (
	"go/token"
	"go/types"
	"strings"

	"golang.org/x/tools/go/ssa"
)

// collectFieldPaths enumerates the leaf fields of a named struct, descending
// into fields whose type is a struct defined in the analysed module (by value).
func collectFieldPaths(t types.Type, prefix string, out *[]string, depth int) {
	st, ok := t.Underlying().(*types.Struct)
	if !ok || depth > 4 {
		return
	}
	for i := 0; i < st.NumFields(); i++ {
		f := st.Field(i)
		name := prefix + f.Name()
		if n, ok := f.Type().(*types.Named); ok {
			if _, isStruct := n.Underlying().(*types.Struct); isStruct && n.Obj().Pkg() != nil && strings.HasPrefix(n.Obj().Pkg().Path(), rootPkg) {
				collectFieldPaths(n, name+".", out, depth+1)
				continue
			}
		}
		*out = append(*out, name)
	}
}

type e7Key struct {
	fn  *ssa.Function
	arg int
}

type e7 struct {
	p    *Prog
	memo map[e7Key]map[string]bool
	busy map[e7Key]bool
}

func (p *Prog) e7() *e7 {
	if p.e7c == nil {
		p.e7c = &e7{p: p, memo: map[e7Key]map[string]bool{}, busy: map[e7Key]bool{}}
	}
	return p.e7c
}

// fieldsWritten returns the field paths (relative to parameter #arg of fn,
// which must be a pointer to a struct) that fn definitely writes on every path
// to a return. A path "a.b" means field b of struct field a; a written struct
// field covers everything below it.
func fieldsWritten(p *Prog, fn *ssa.Function, arg int, depth int) map[string]bool {
	return p.e7().written(fn, arg, depth)
}

// pathFrom: if addr is &root.f1.f2... (through FieldAddr only, root == the
// parameter value) returns "f1.f2" and true. addr == root gives "".
func pathFromParam(addr ssa.Value, root ssa.Value) (string, bool) {
	var parts []string
	v := addr
	for i := 0; i < 10; i++ {
		if v == root {
			return strings.Join(parts, "."), true
		}
		fa, ok := v.(*ssa.FieldAddr)
		if !ok {
			return "", false
		}
		parts = append([]string{fieldName(fa.X.Type(), fa.Field)}, parts...)
		v = fa.X
	}
	return "", false
}

func (e *e7) written(fn *ssa.Function, arg int, depth int) map[string]bool {
	k := e7Key{fn, arg}
	if r, ok := e.memo[k]; ok {
		return r
	}
	if e.busy[k] || depth < 0 || fn == nil || fn.Blocks == nil || arg >= len(fn.Params) {
		return map[string]bool{}
	}
	e.busy[k] = true
	defer delete(e.busy, k)
	root := ssa.Value(fn.Params[arg])
	n := len(fn.Blocks)
	in := make([]map[string]bool, n)  // nil = top (unvisited)
	out := make([]map[string]bool, n) // nil = top
	gen := func(b *ssa.BasicBlock, s map[string]bool) map[string]bool {
		res := map[string]bool{}
		for k := range s {
			res[k] = true
		}
		for _, ins := range b.Instrs {
			switch ins := ins.(type) {
			case *ssa.Store:
				if pth, ok := pathFromParam(ins.Addr, root); ok {
					res[pth] = true // "" = whole object
				}
			case *ssa.Call:
				cc := ins.Common()
				callee := cc.StaticCallee()
				if callee == nil {
					continue
				}
				// x.f.Reset() on a pointer field: the pointee is cleared, which clears what f carries
				if (callee.Name() == "Reset" || callee.Name() == "reset") && len(cc.Args) >= 1 {
					if u, ok := cc.Args[0].(*ssa.UnOp); ok && u.Op == token.MUL {
						if pth, ok := pathFromParam(u.X, root); ok && pth != "" {
							res[pth] = true
						}
					}
				}
				if !inModule(callee) || callee.Blocks == nil {
					continue
				}
				for ai, a := range cc.Args {
					pth, ok := pathFromParam(a, root)
					if !ok {
						continue
					}
					for sub := range e.written(callee, ai, depth-1) {
						switch {
						case sub == "":
							res[pth] = true
						case pth == "":
							res[sub] = true
						default:
							res[pth+"."+sub] = true
						}
					}
				}
			}
		}
		return res
	}
	intersect := func(a, b map[string]bool) map[string]bool {
		if a == nil {
			return b
		}
		if b == nil {
			return a
		}
		res := map[string]bool{}
		for k := range a {
			if b[k] {
				res[k] = true
			}
		}
		return res
	}
	equal := func(a, b map[string]bool) bool {
		if (a == nil) != (b == nil) || len(a) != len(b) {
			return false
		}
		for k := range a {
			if !b[k] {
				return false
			}
		}
		return true
	}
	in[0] = map[string]bool{}
	work := []*ssa.BasicBlock{fn.Blocks[0]}
	for len(work) > 0 {
		b := work[0]
		work = work[1:]
		var s map[string]bool
		if b.Index == 0 {
			s = map[string]bool{}
		} else {
			first := true
			for _, pr := range b.Preds {
				if out[pr.Index] == nil {
					continue // top
				}
				o := out[pr.Index]
				// "if x.f == nil" taken towards b: f is known to be zero on this edge
				if pth, nilSucc := nilTestedField(pr, root); pth != "" && nilSucc == b {
					o2 := map[string]bool{pth: true}
					for k := range o {
						o2[k] = true
					}
					o = o2
				}
				if first {
					s = o
					first = false
				} else {
					s = intersect(s, o)
				}
			}
			if first {
				continue
			}
		}
		in[b.Index] = s
		o := gen(b, s)
		if !equal(o, out[b.Index]) {
			out[b.Index] = o
			for _, su := range b.Succs {
				work = append(work, su)
			}
		}
	}
	var res map[string]bool
	seenRet := false
	for _, b := range fn.Blocks {
		if _, ok := b.Instrs[len(b.Instrs)-1].(*ssa.Return); ok && out[b.Index] != nil {
			if !seenRet {
				res = out[b.Index]
				seenRet = true
			} else {
				res = intersect(res, out[b.Index])
			}
		}
	}
	if res == nil {
		res = map[string]bool{}
	}
	e.memo[k] = res
	return res
}

// nilTestedField: block b ends in "if root.P == nil" / "!= nil" (P a field
// path of root); returns P and the successor taken when the field is nil.
func nilTestedField(b *ssa.BasicBlock, root ssa.Value) (string, *ssa.BasicBlock) {
	ifi, ok := b.Instrs[len(b.Instrs)-1].(*ssa.If)
	if !ok {
		return "", nil
	}
	pos, v := stripNot(ifi.Cond)
	bo, ok := v.(*ssa.BinOp)
	if !ok || (bo.Op != token.EQL && bo.Op != token.NEQ) {
		return "", nil
	}
	o := bo.X
	if isNilConst(bo.X) {
		o = bo.Y
	} else if !isNilConst(bo.Y) {
		return "", nil
	}
	u, ok := o.(*ssa.UnOp)
	if !ok || u.Op != token.MUL {
		return "", nil
	}
	pth, ok := pathFromParam(u.X, root)
	if !ok || pth == "" {
		return "", nil
	}
	// the load must not be separated from the test by a store to the same field (same block, after the load)
	nilOnTrue := (bo.Op == token.EQL) == pos
	if nilOnTrue {
		return pth, b.Succs[0]
	}
	return pth, b.Succs[1]
}

// coveredBy: path fp is written when it, or any prefix of it, is in w; or when
// every leaf below fp is (handled by the caller enumerating leaves).
func coveredBy(w map[string]bool, fp string) bool {
	if w[""] || w[fp] {
		return true
	}
	for i := len(fp) - 1; i > 0; i-- {
		if fp[i] == '.' && w[fp[:i]] {
			return true
		}
	}
	return false
}

// fieldsCopiedFrom: the field paths P of parameter #dst of fn for which fn
// (or a module callee that receives sub-objects of both) contains a store to
// dst.P whose value is computed from a load of src.P (same path): "copied from
// the same field of the source". Path-insensitive; combined by callers with
// fieldsWritten for the every-path part.
func fieldsCopiedFrom(p *Prog, fn *ssa.Function, dst, src int, depth int) map[string]bool {
	out := map[string]bool{}
	if fn == nil || fn.Blocks == nil || depth < 0 || dst >= len(fn.Params) || src >= len(fn.Params) {
		return out
	}
	droot, sroot := ssa.Value(fn.Params[dst]), ssa.Value(fn.Params[src])
	var fromSrc func(v ssa.Value, d int, seen map[ssa.Value]bool) map[string]bool
	fromSrc = func(v ssa.Value, d int, seen map[ssa.Value]bool) map[string]bool {
		res := map[string]bool{}
		if v == nil || d > 8 || seen[v] {
			return res
		}
		seen[v] = true
		add := func(m map[string]bool) {
			for k := range m {
				res[k] = true
			}
		}
		switch w := v.(type) {
		case *ssa.UnOp:
			if pth, ok := pathFromParam(w.X, sroot); ok {
				res[pth] = true
			} else {
				add(fromSrc(w.X, d+1, seen))
			}
		case *ssa.Call:
			for _, a := range w.Call.Args {
				add(fromSrc(a, d+1, seen))
			}
		case *ssa.Slice:
			add(fromSrc(w.X, d+1, seen))
		case *ssa.Phi:
			for _, e := range w.Edges {
				add(fromSrc(e, d+1, seen))
			}
		case *ssa.Convert:
			add(fromSrc(w.X, d+1, seen))
		case *ssa.ChangeType:
			add(fromSrc(w.X, d+1, seen))
		case *ssa.Extract:
			add(fromSrc(w.Tuple, d+1, seen))
		case *ssa.BinOp:
			add(fromSrc(w.X, d+1, seen))
			add(fromSrc(w.Y, d+1, seen))
		case *ssa.FieldAddr, *ssa.IndexAddr:
			// address of a source field passed to a helper
			if pth, ok := pathFromParam(v, sroot); ok {
				res[pth] = true
			}
		}
		return res
	}
	for _, b := range fn.Blocks {
		for _, in := range b.Instrs {
			switch in := in.(type) {
			case *ssa.Store:
				if pth, ok := pathFromParam(in.Addr, droot); ok {
					if fromSrc(in.Val, 0, map[ssa.Value]bool{})[pth] {
						out[pth] = true
					}
				}
			case *ssa.Call:
				callee := in.Call.StaticCallee()
				if callee == nil || !inModule(callee) {
					continue
				}
				di, si := -1, -1
				var dp, sp string
				for ai, a := range in.Call.Args {
					if pth, ok := pathFromParam(a, droot); ok && di < 0 {
						di, dp = ai, pth
					} else if pth, ok := pathFromParam(a, sroot); ok && si < 0 {
						si, sp = ai, pth
					}
				}
				if di >= 0 && si >= 0 && dp == sp {
					for sub := range fieldsCopiedFrom(p, callee, di, si, depth-1) {
						if dp == "" {
							out[sub] = true
						} else if sub == "" {
							out[dp] = true
						} else {
							out[dp+"."+sub] = true
						}
					}
				}
			}
		}
	}
	return out
}
