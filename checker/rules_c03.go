package main

// C03 - response framing: structural clauses on the writers.

import (
	"fmt"
	"go/token"
	"sort"
	"go/types"
	"strings"

	"golang.org/x/tools/go/ssa"
)

func init() {
	register(&propDef{
		id:      "C03",
		explain: "Structural necessary conditions of 'what the server writes is framed as its own header says': (R1) the fixed-size body writer hands the body stream to the copy primitive only through a bounding writer built from the declared size, and every use of the inner writer inside that type is bounded by (or control-dependent on a comparison with) the remaining count; (R2) on every path of writeBodyFixedSize a nil error is returned only when the copied count was compared equal to the declared size; (R3) every body-emitting call of Response.Write / writeBodyStream is control-dependent on the no-body predicate (SkipBody / 1xx-204-304); (R4) in the serve loop HEAD is tested before the response is written and the response written then has SkipBody set; a timeout response is installed with SkipBody under IsHead() of the timed-out request; (R5) SetContentLength of both header types makes the framing headers exclusive on every path: installing a numeric Content-Length removes Transfer-Encoding, installing chunked clears the Content-Length bytes. (R6) every writeChunk call is either the terminator (a constant-empty argument, after which no further chunk is written in that function) or a data chunk whose length was tested non-zero on the way to the call - an empty data chunk is the last-chunk marker. (R7) in the chunk-writing read loop the bytes a Read returned are framed, or n was found zero, before that Read's error ends the loop or the next Read is made. (R10) in Response.writeBodyStream the size given to the fixed-size writer comes out of a merge that takes -1 (undeclared, hence chunked) from a branch that looked at the stored Content-Length bytes; (R9) the flush of the connection writer after the serve loop is not control-dependent on a test of the error the function ends with (complete responses waiting in the buffer are delivered also when a later one failed); (R8) the serve loop looks at the request method for the HEAD decision before the handler dispatch and never between the dispatch and the end of the iteration. Not decided: byte-exact agreement with an independent parser, trailers, chunk encoding itself.",
		run: func(p *Prog, r *Report) {
			runC03Bounded(p, r)
			runC03SendBody(p, r)
			runC03Exclusive(p, r)
			runC03ChunkMarker(p, r)
			runC03ReadData(p, r)
			headDecidedBeforeHandler(p, r)
			exitFlushIsUnconditional(p, r)
			undeclaredSizeIsChunked(p, r)
			p.serveLoop("C03").report(r, "C03")
			timeoutProducerRule(p, r, "C03")
		},
	})
}

func runC03Bounded(p *Prog, r *Report) {
	fn := p.Func("writeBodyFixedSize")
	cp := p.Func("copyBodyStream")
	if fn == nil || cp == nil {
		r.Undecided("R1", "anchors writeBodyFixedSize / copyBodyStream", "not found")
		return
	}
	var sizeParam *ssa.Parameter
	for _, prm := range fn.Params {
		if b, ok := prm.Type().Underlying().(*types.Basic); ok && b.Kind() == types.Int64 {
			sizeParam = prm
		}
	}
	if sizeParam == nil {
		r.Undecided("R1", "writeBodyFixedSize size parameter", "no int64 parameter")
		return
	}
	var copyCall *ssa.Call
	n := 0
	allCalls(fn, func(b *ssa.BasicBlock, c ssa.CallInstruction) {
		if cv, ok := c.(*ssa.Call); ok && isCallTo(cv, cp) {
			copyCall = cv
			n++
		}
	})
	r.Floor("R1", "copy calls in writeBodyFixedSize", n, 1)
	if copyCall == nil {
		return
	}
	// the writer argument: interface made from the address of a local struct whose literal stores size
	w := copyCall.Call.Args[0]
	if mi, ok := w.(*ssa.MakeInterface); ok {
		w = mi.X
	}
	var bt *types.Named
	ok1 := false
	if a, ok := w.(*ssa.Alloc); ok {
		if nt, ok := a.Type().(*types.Pointer).Elem().(*types.Named); ok {
			bt = nt
			allocs := []*ssa.Alloc{a}
			// composite literals are built in a temporary and copied: *a = *tmp
			for _, ref := range *a.Referrers() {
				if st, ok := ref.(*ssa.Store); ok && st.Addr == ssa.Value(a) {
					if u, ok := st.Val.(*ssa.UnOp); ok {
						if tmp, ok := u.X.(*ssa.Alloc); ok {
							allocs = append(allocs, tmp)
						}
					}
				}
			}
			var refs []ssa.Instruction
			for _, al := range allocs {
				refs = append(refs, *al.Referrers()...)
			}
			for _, ref := range refs {
				if fa, ok := ref.(*ssa.FieldAddr); ok {
					for _, r2 := range *fa.Referrers() {
						if st, ok := r2.(*ssa.Store); ok && st.Val == ssa.Value(sizeParam) {
							ok1 = true
						}
					}
				}
			}
		}
	}
	r.Check("R1", "writeBodyFixedSize copies through a writer whose bound is initialised from the declared size", ok1, p.Pos(copyCall.Pos()),
		"the body stream is copied to a writer that is not a local bounding struct holding the size parameter: a stream longer than its declared size would put extra bytes after the framed body")
	if bt == nil {
		return
	}
	// inside the bounding type: every use of the inner *bufio.Writer is bounded
	var boundField *types.Var
	for _, f := range structFields(bt) {
		if b, ok := f.Type().Underlying().(*types.Basic); ok && b.Kind() == types.Int64 {
			boundField = f
		}
	}
	nuse := 0
	for _, m := range p.SrcFuncs() {
		if recvTypeName(m) != bt.Obj().Name() {
			continue
		}
		allCalls(m, func(b *ssa.BasicBlock, c ssa.CallInstruction) {
			f := c.Common().StaticCallee()
			if f == nil || recvTypeName(f) != "Writer" || (f.Name() != "Write" && f.Name() != "ReadFrom" && f.Name() != "WriteString") {
				return
			}
			nuse++
			bounded := false
			why := ""
			// (a) control-dependent on a comparison with the bound
			for _, g := range guardsOf(b) {
				if boundField != nil && strings.Contains(g.Atom, "field:"+bt.Obj().Name()+"."+boundField.Name()) {
					bounded = true
					why = "guarded by a comparison with the remaining count"
				}
			}
			// (b) argument sliced to the bound, or a LimitedReader whose N comes from the bound
			for _, a := range c.Common().Args[1:] {
				if sl, ok := a.(*ssa.Slice); ok && sl.High != nil && dependsOnField(sl.High, boundField) {
					bounded = true
					why = "argument sliced to the remaining count"
				}
				if mi, ok := a.(*ssa.MakeInterface); ok {
					if al, ok := mi.X.(*ssa.Alloc); ok && strings.HasSuffix(al.Type().String(), "io.LimitedReader") {
						for _, ref := range *al.Referrers() {
							if fa, ok := ref.(*ssa.FieldAddr); ok && fieldName(fa.X.Type(), fa.Field) == "N" {
								for _, r2 := range *fa.Referrers() {
									if st, ok := r2.(*ssa.Store); ok && dependsOnField(st.Val, boundField) {
										bounded = true
										why = "reads through a LimitedReader limited to the remaining count"
									}
								}
							}
						}
					}
				}
			}
			r.Check("R1", fmt.Sprintf("%s: inner %s is bounded by the remaining count", funcName(m), f.Name()), bounded, p.Pos(c.Pos()),
				"the inner writer is used without a bound derived from the remaining declared size ("+why+")")
		})
	}
	r.Floor("R1", "inner writer uses in the bounding type", nuse, 3)

	// R2: nil error only when copied == declared
	const bEq uint64 = 1
	var nRes ssa.Value
	for _, ref := range *copyCall.Referrers() {
		if ex, ok := ref.(*ssa.Extract); ok && ex.Index == 0 {
			nRes = ex
		}
	}
	nret, bad := 0, 0
	var wit []string
	pos := ""
	x := NewExplorer(p, fn, Hooks{
		Instr: func(x *Explorer, st *State, in ssa.Instruction) {
			if in == ssa.Instruction(copyCall) {
				st.Clear(bEq)
				st.Set(2)
			}
		},
		Branch: func(x *Explorer, st *State, cond ssa.Value, taken bool, from *ssa.BasicBlock) {
			ps, v := stripNot(cond)
			bo, ok := v.(*ssa.BinOp)
			if !ok || (bo.Op != token.EQL && bo.Op != token.NEQ) || nRes == nil {
				return
			}
			if (bo.X == nRes && bo.Y == ssa.Value(sizeParam)) || (bo.Y == nRes && bo.X == ssa.Value(sizeParam)) {
				if (taken == ps) == (bo.Op == token.EQL) {
					st.Set(bEq)
				}
			}
		},
		Exit: func(x *Explorer, st *State, ret *ssa.Return, pan *ssa.Panic) {
			if ret == nil || !st.Has(2) {
				return
			}
			nret++
			rr := returnResults(ret)
			if len(rr) == 1 && x.Eval(st, rr[0]) != True && !st.Has(bEq) {
				bad++
				if wit == nil {
					wit = x.Path(st)
					pos = p.Pos(ret.Pos())
				}
			}
		},
	})
	x.TrackAll = true
	x.Run(nil)
	r.Check("R2", "writeBodyFixedSize returns nil only when the copied count equals the declared size", bad == 0 && nret > 0, pos,
		fmt.Sprintf("%d of %d explored returns after the copy may return a nil error although copied != declared was not excluded: a short body stream would be followed by the next response inside the declared length", bad, nret), wit...)
}

func dependsOnField(v ssa.Value, f *types.Var) bool {
	if f == nil {
		return false
	}
	seen := map[ssa.Value]bool{}
	var walk func(v ssa.Value, d int) bool
	walk = func(v ssa.Value, d int) bool {
		if v == nil || seen[v] || d > 10 {
			return false
		}
		seen[v] = true
		if _, fv := loadedField(v); fv == f {
			return true
		}
		switch w := v.(type) {
		case *ssa.BinOp:
			return walk(w.X, d+1) || walk(w.Y, d+1)
		case *ssa.Convert:
			return walk(w.X, d+1)
		case *ssa.Phi:
			for _, e := range w.Edges {
				if walk(e, d+1) {
					return true
				}
			}
		case *ssa.UnOp:
			return walk(w.X, d+1)
		}
		return false
	}
	return walk(v, 0)
}

func runC03SendBody(p *Prog, r *Report) {
	fixed := p.Func("writeBodyFixedSize")
	chunked := p.Func("writeBodyChunked")
	hdrWrite := p.Func("(*ResponseHeader).Write")
	wbs := p.Func("(*Response).writeBodyStream")
	if hdrWrite == nil || wbs == nil {
		r.Undecided("R3", "(*ResponseHeader).Write / (*Response).writeBodyStream", "not found")
		return
	}
	n := 0
	for _, spec := range []string{"(*Response).Write", "(*Response).writeBodyStream"} {
		fn := p.Func(spec)
		if fn == nil {
			r.Undecided("R3", spec, "not found")
			continue
		}
		var sendParam string
		var wprm *ssa.Parameter
		for _, prm := range fn.Params {
			if isBool(prm.Type()) {
				sendParam = "param:" + prm.Name()
			}
			if strings.HasSuffix(prm.Type().String(), "bufio.Writer") {
				wprm = prm
			}
		}
		if wprm == nil {
			r.Undecided("R3", spec, "no *bufio.Writer parameter")
			continue
		}
		allCalls(fn, func(b *ssa.BasicBlock, c ssa.CallInstruction) {
			f := c.Common().StaticCallee()
			if f == nil {
				return
			}
			// by role: every call that is handed the connection writer emits bytes of the message; the only ones that
			// belong to the head are the header serialiser and Flush, and writeBodyStream receives the predicate itself.
			// Everything else (body copy, chunk writer, trailer section of a chunked body) is body emission.
			emits := f == fixed || f == chunked
			for _, a := range c.Common().Args {
				if wprm != nil && a == ssa.Value(wprm) {
					emits = true
				}
			}
			if f == hdrWrite || f == wbs || (recvTypeName(f) == "Writer" && f.Name() == "Flush") {
				emits = false
			}
			if !emits {
				return
			}
			n++
			ok := false
			var atoms []string
			for _, g := range guardsOf(b) {
				atoms = append(atoms, g.Atom)
				if g.Pol && (strings.Contains(g.Atom, "Response.mustSkipBody") || (sendParam != "" && g.Atom == sendParam) ||
					strings.Contains(g.Atom, "field:Response.SkipBody")) {
					ok = true
				}
			}
			r.Check("R3", fmt.Sprintf("%s: body emission through %s is control-dependent on the no-body predicate", funcName(fn), funcName(f)), ok, p.Pos(c.Pos()),
				"body bytes can be written although SkipBody / a 1xx, 204 or 304 status says the response has no body; guards: "+strings.Join(atoms, ", "))
		})
		// the bool parameter of writeBodyStream is bound to !mustSkipBody() at every call site
		if sendParam != "" {
			for _, cf := range p.SrcFuncs() {
				allCalls(cf, func(b *ssa.BasicBlock, c ssa.CallInstruction) {
					if !isCallTo(c, fn) {
						return
					}
					for i, prm := range fn.Params {
						if isBool(prm.Type()) {
							at := condAtoms(c.Common().Args[i])
							r.Check("R3", fmt.Sprintf("%s passes the no-body predicate to %s", funcName(cf), funcName(fn)), hasAtomContaining(at, "mustSkipBody"), p.Pos(c.Pos()),
								"the sendBody argument does not derive from Response.mustSkipBody(): "+atomsList(at))
						}
					}
				})
			}
		}
	}
	r.Floor("R3", "body emission sites", n, 3)
	// mustSkipBody itself depends on SkipBody and on the status predicate
	if f := p.Func("(*Response).mustSkipBody"); f != nil {
		at := map[string]bool{}
		for _, b := range f.Blocks {
			if rt, ok := b.Instrs[len(b.Instrs)-1].(*ssa.Return); ok {
				for _, rv := range returnResults(rt) {
					for a := range condAtoms(rv) {
						at[a] = true
					}
				}
			}
		}
		r.Check("R3", "Response.mustSkipBody depends on SkipBody and on the status predicate", hasAtomContaining(at, "field:Response.SkipBody") && hasAtomContaining(at, "mustSkipContentLength"), p.Pos(f.Pos()), atomsList(at))
	} else {
		r.Undecided("R3", "(*Response).mustSkipBody", "not found")
	}
}

func runC03Exclusive(p *Prog, r *Report) {
	del := p.Func("delAllArgs")
	setArg := p.Func("setArgBytes")
	n := 0
	for _, typ := range []string{"ResponseHeader", "RequestHeader"} {
		fn := p.Func("(*" + typ + ").SetContentLength")
		if fn == nil || del == nil || setArg == nil {
			r.Undecided("R5", typ+".SetContentLength", "not found")
			continue
		}
		delTE := func(in ssa.Instruction) bool {
			c, ok := in.(*ssa.Call)
			if !ok || !isCallTo(c, del) {
				return false
			}
			s, ok := stringConst(c.Call.Args[1])
			return ok && strings.EqualFold(s, "Transfer-Encoding")
		}
		clearCL := func(in ssa.Instruction) bool {
			st, ok := in.(*ssa.Store)
			if !ok {
				return false
			}
			if _, fv := fieldOfAddr(st.Addr); fv == nil || fv.Name() != "contentLengthBytes" {
				return false
			}
			sl, ok := st.Val.(*ssa.Slice)
			if !ok || sl.High == nil {
				return false
			}
			k, okc := constInt(sl.High)
			return okc && k == 0
		}
		for _, b := range fn.Blocks {
			for _, in := range b.Instrs {
				switch in := in.(type) {
				case *ssa.Store:
					// numeric Content-Length installed
					if _, fv := fieldOfAddr(in.Addr); fv != nil && fv.Name() == "contentLengthBytes" {
						if c, ok := in.Val.(*ssa.Call); ok {
							if f := c.Call.StaticCallee(); f != nil && f.Name() == "AppendUint" {
								n++
								hit, path := reachAvoiding(fn, in, isReturn, delTE, nil)
								before := false
								if hit != nil {
									// or the removal dominates the store
									for _, bb := range fn.Blocks {
										for _, i2 := range bb.Instrs {
											if delTE(i2) && dominatesInstr(i2, in) {
												before = true
											}
										}
									}
								}
								r.Check("R5", typ+".SetContentLength: installing a numeric Content-Length removes Transfer-Encoding on every path", hit == nil || before, p.Pos(in.Pos()),
									"a path from the store of the Content-Length bytes to a return does not pass delAllArgs(h.h, Transfer-Encoding): a stale 'Transfer-Encoding: chunked' entry survives next to Content-Length and the peer frames the message as chunked", blocksString(p, path)...)
							}
						}
					}
				case *ssa.Call:
					if isCallTo(in, setArg) && globalOf(in.Call.Args[1]) == "strTransferEncoding" {
						n++
						hit, path := reachAvoiding(fn, in, isReturn, clearCL, nil)
						before := false
						for _, bb := range fn.Blocks {
							for _, i2 := range bb.Instrs {
								if clearCL(i2) && dominatesInstr(i2, in) && i2.Block() == in.Block() {
									before = true
								}
							}
						}
						r.Check("R5", typ+".SetContentLength: installing Transfer-Encoding: chunked clears the Content-Length bytes on every path", hit == nil || before, p.Pos(in.Pos()),
							"Transfer-Encoding: chunked is installed while the numeric Content-Length bytes may survive", blocksString(p, path)...)
					}
				}
			}
		}
	}
	r.Floor("R5", "framing installation sites in SetContentLength", n, 4)
	// the generic setter path: Set("Content-Length", "5") installs a numeric Content-Length as well
	m := 0
	for _, typ := range []string{"ResponseHeader", "RequestHeader"} {
		fn := p.Func("(*" + typ + ").setSpecialHeader")
		if fn == nil || del == nil {
			r.Undecided("R5", typ+".setSpecialHeader", "not found")
			continue
		}
		delTE := func(in ssa.Instruction) bool {
			c, ok := in.(*ssa.Call)
			if !ok || !isCallTo(c, del) {
				return false
			}
			s, ok := stringConst(c.Call.Args[1])
			return ok && strings.EqualFold(s, "Transfer-Encoding")
		}
		for _, b := range fn.Blocks {
			for _, in := range b.Instrs {
				st, ok := in.(*ssa.Store)
				if !ok {
					continue
				}
				if _, fv := fieldOfAddr(st.Addr); fv == nil || fv.Name() != "contentLengthBytes" {
					continue
				}
				if _, isCall := st.Val.(*ssa.Call); !isCall {
					continue // a truncation, not an installation
				}
				m++
				// the removal may come before or after the store, but on every path of this case
				hit, path := reachAvoiding(fn, st, isReturn, delTE, nil)
				before := false
				for _, bb := range fn.Blocks {
					for _, i2 := range bb.Instrs {
						if delTE(i2) && dominatesInstr(i2, st) && i2.Block() == st.Block() {
							before = true
						}
					}
				}
				r.Check("R5", typ+".setSpecialHeader: a Content-Length installed through the generic setter removes Transfer-Encoding on every path", hit == nil || before, p.Pos(st.Pos()),
					"Set(\"Content-Length\", n) on a message whose body stream of unknown size installed 'Transfer-Encoding: chunked' leaves that entry in place: the message goes out with both framing headers and a raw body of n bytes, which a peer reads as (broken) chunks", blocksString(p, path)...)
			}
		}
	}
	r.Floor("R5", "Content-Length installations in setSpecialHeader", m, 2)
}

// runC03ChunkMarker (R6): in chunked framing a zero-length chunk is the
// last-chunk marker. Every call of writeChunk is therefore either the
// terminator - a constant-empty argument, after which no further chunk is
// written in that function - or a data chunk whose length was tested against
// zero on the way to the call. A data chunk of unchecked length lets an empty
// write (a WriterTo handing over an empty segment) end the body in the middle:
// the rest of the body and the real terminator follow the marker on the wire.
func runC03ChunkMarker(p *Prog, r *Report) {
	wc := p.Func("writeChunk")
	if wc == nil {
		r.Undecided("R6", "writeChunk", "not found")
		return
	}
	isWC := func(i ssa.Instruction) bool {
		c, ok := i.(ssa.CallInstruction)
		return ok && c.Common().StaticCallee() == wc
	}
	n := 0
	ord := map[*ssa.Function]int{}
	for _, fn := range p.funcsIn("") {
		for _, b := range fn.Blocks {
			for _, in := range b.Instrs {
				if !isWC(in) {
					continue
				}
				c := in.(ssa.CallInstruction)
				arg := c.Common().Args[1]
				n++
				ord[fn]++
				empty := isNilConst(arg)
				var lenExpr ssa.Value
				if sl, ok := arg.(*ssa.Slice); ok && sl.Low == nil {
					if k, isK := constInt(sl.High); isK && k == 0 {
						empty = true
					}
					lenExpr = sl.High
				}
				label := fmt.Sprintf("%s: writeChunk call #%d", funcName(fn), ord[fn])
				if empty {
					hit, path := reachAvoiding(fn, in, isWC, nil, nil)
					r.Check("R6", label+" (terminator) is the last chunk written on its path", hit == nil, p.Pos(in.Pos()),
						"another chunk can be written after the zero-length chunk: a peer stops reading the body at the marker", blocksString(p, path)...)
					continue
				}
				tested := false
				for _, g := range guardsOfDepth(b, 0) {
					bo, ok := g.Cond.(*ssa.BinOp)
					if !ok {
						continue
					}
					z, isZ := constInt(bo.Y)
					if !isZ || z != 0 {
						continue
					}
					isLen := false
					if lenExpr != nil && bo.X == lenExpr {
						isLen = true
					}
					if cl, ok := bo.X.(*ssa.Call); ok {
						if bi, ok := cl.Call.Value.(*ssa.Builtin); ok && bi.Name() == "len" && len(cl.Call.Args) == 1 && (cl.Call.Args[0] == arg || (lenExpr == nil && rootOf(cl.Call.Args[0]) == rootOf(arg))) {
							isLen = true
						}
					}
					if !isLen {
						continue
					}
					switch {
					case bo.Op == token.EQL && !g.Pol, bo.Op == token.NEQ && g.Pol, bo.Op == token.GTR && g.Pol, bo.Op == token.LEQ && !g.Pol:
						tested = true
					}
				}
				r.Check("R6", label+" (data) is reached only with a chunk whose length was found non-zero", tested, p.Pos(in.Pos()),
					"the chunk's length is not tested against zero before it is framed: an empty write is emitted as '0\\\\r\\\\n', the last-chunk marker, in the middle of the body")
			}
		}
	}
	r.Floor("R6", "writeChunk calls", n, 4)
}

// runC03ReadData (R7): io.Reader allows a Read to return data together with its error (n > 0, err == io.EOF) -
// net/http bodies, gzip readers and fasthttp's own request stream do. In the chunk-writing loop the n bytes of a
// Read are framed, or n was found to be zero, before that Read's error is allowed to end the loop: on every path
// from the Read to the next Read or out of the loop.
func runC03ReadData(p *Prog, r *Report) {
	fn := p.Func("writeBodyChunked")
	wc := p.Func("writeChunk")
	if fn == nil || wc == nil {
		r.Undecided("R7", "writeBodyChunked / writeChunk", "not found")
		return
	}
	var read *ssa.Call
	for _, b := range fn.Blocks {
		for _, in := range b.Instrs {
			if c, ok := in.(*ssa.Call); ok && c.Call.IsInvoke() && c.Call.Method.Name() == "Read" && loopHeaderOf(b) != nil {
				read = c
			}
		}
	}
	if read == nil {
		r.Undecided("R7", "writeBodyChunked: Read call inside a loop", "not found")
		return
	}
	var nVal ssa.Value
	for _, ref := range *read.Referrers() {
		if ex, ok := ref.(*ssa.Extract); ok && ex.Index == 0 {
			nVal = ex
		}
	}
	header := loopHeaderOf(read.Block())
	const (
		bPending uint64 = 1 << iota // a Read returned and its data has been neither framed nor found empty
	)
	n, bad := 0, 0
	var wit []string
	var pos token.Pos
	leave := func(x *Explorer, st *State, at token.Pos) {
		n++
		if st.Has(bPending) {
			bad++
			if wit == nil {
				wit = x.Path(st)
				pos = at
			}
		}
	}
	x := NewExplorer(p, fn, Hooks{
		Instr: func(x *Explorer, st *State, in ssa.Instruction) {
			if in == ssa.Instruction(read) {
				if st.Has(bPending) {
					leave(x, st, in.Pos())
				}
				st.Set(bPending)
				return
			}
			if c, ok := in.(ssa.CallInstruction); ok && c.Common().StaticCallee() == wc && len(c.Common().Args) == 2 {
				if sl, ok := c.Common().Args[1].(*ssa.Slice); ok && sl.High == nVal {
					st.Clear(bPending)
				}
			}
		},
		Branch: func(x *Explorer, st *State, cond ssa.Value, taken bool, from *ssa.BasicBlock) {
			pol, v := stripNot(cond)
			bo, ok := v.(*ssa.BinOp)
			if !ok || bo.X != nVal {
				return
			}
			if k, isK := constInt(bo.Y); isK && k == 0 {
				truth := taken == pol
				if (bo.Op == token.EQL && truth) || (bo.Op == token.GTR && !truth) || (bo.Op == token.NEQ && !truth) || (bo.Op == token.LEQ && truth) {
					st.Clear(bPending) // nothing was read
				}
			}
		},
		Edge: func(x *Explorer, st *State, from, to *ssa.BasicBlock) {
			if header != nil && inLoop(header, from) && !inLoop(header, to) {
				leave(x, st, from.Instrs[len(from.Instrs)-1].Pos())
				st.Clear(bPending)
			}
		},
	})
	x.Filter = noIntFilter
	x.Run(nil)
	r.Check("R7", "writeBodyChunked: the bytes a Read returned are framed (or n was found zero) before its error ends the loop or the next Read is made", bad == 0 && n > 0 && !x.Aborted && nVal != nil, p.Pos(pos),
		fmt.Sprintf("%d of %d explored ends of a Read's life drop its data: a reader that returns its last bytes together with io.EOF (a net/http body, a gzip reader, the request stream) has them left out of the chunked body", bad, n), wit...)
}

// headDecidedBeforeHandler (C03.R8): whether a response goes out without its body is decided by the method the server
// received. The serve loop does not ask the ctx for the method (IsHead) on any path between the handler dispatch and
// the next iteration: the handler may have rewritten the method, and after a timeout the ctx is another one.
func headDecidedBeforeHandler(p *Prog, r *Report) {
	fn, hcall, header, why := findServeLoop(p)
	if fn == nil {
		r.Undecided("R8", "serve loop", why)
		return
	}
	isHeadCall := func(i ssa.Instruction) bool {
		c, ok := i.(ssa.CallInstruction)
		if !ok || c.Common().StaticCallee() == nil {
			return false
		}
		f := c.Common().StaticCallee()
		return f.Name() == "IsHead" && (recvTypeName(f) == "RequestCtx" || recvTypeName(f) == "RequestHeader" || recvTypeName(f) == "header")
	}
	outside := map[*ssa.BasicBlock]bool{header: true}
	for _, b := range fn.Blocks {
		if !inLoop(header, b) {
			outside[b] = true
		}
	}
	hit, path := reachAvoiding(fn, hcall, isHeadCall, nil, outside)
	r.Check("R8", "serve loop: the request method is not consulted for the HEAD decision after the handler ran", hit == nil, p.Pos(hcall.Pos()),
		"IsHead() is called between the handler dispatch and the end of the iteration: a handler that rewrites a HEAD request to GET (to reuse its GET logic) gets the body sent to the HEAD request, and the next response on the connection cannot be parsed", blocksString(p, path)...)
	// and it is consulted before: the decision exists
	n := 0
	for _, b := range fn.Blocks {
		for _, in := range b.Instrs {
			if isHeadCall(in) && inLoop(header, b) && dominatesInstr(in, hcall) {
				n++
			}
		}
	}
	r.Floor("R8", "looks at the request method before the handler dispatch", n, 1)
}

// exitFlushIsUnconditional (C03.R9): when the serve function ends, what is still in the connection writer is flushed
// whatever the reason for the end: the flush after the loop is not control-dependent on a test of the error the
// function ends with. A response that failed comes after complete responses to earlier pipelined requests, which
// were only waiting for the next flush.
func exitFlushIsUnconditional(p *Prog, r *Report) {
	fn, hcall, header, why := findServeLoop(p)
	if fn == nil {
		r.Undecided("R9", "serve loop", why)
		return
	}
	n := 0
	for _, b := range fn.Blocks {
		// the flush every way out of the loop reaches: after the loop, and not only behind the handler dispatch
		if inLoop(header, b) || hcall.Block().Dominates(b) {
			continue
		}
		for _, in := range b.Instrs {
			c, ok := in.(ssa.CallInstruction)
			if !ok || c.Common().StaticCallee() == nil {
				continue
			}
			f := c.Common().StaticCallee()
			if f.Name() != "Flush" || recvTypeName(f) != "Writer" {
				continue
			}
			// only the flush that follows the loop (not one in the prologue)
			if !header.Dominates(b) {
				continue
			}
			n++
			var onErr []string
			for _, g := range guardsOf(b) {
				bo, ok := g.Cond.(*ssa.BinOp)
				if !ok {
					continue
				}
				// only tests made after the loop was left (the prologue's early returns dominate everything)
				if ci, isI := g.Cond.(ssa.Instruction); !isI || !header.Dominates(ci.Block()) || inLoop(header, ci.Block()) {
					continue
				}
				for _, o := range []ssa.Value{bo.X, bo.Y} {
					if o != nil && strings.HasSuffix(o.Type().String(), "error") && !isNilConst(o) {
						onErr = append(onErr, g.Atom)
					}
				}
			}
			sort.Strings(onErr)
			r.Check("R9", "serve function: the flush of the connection writer at the end does not depend on the error the function ends with", len(onErr) == 0, p.Pos(c.Pos()),
				"the final flush is guarded by a test of the error ("+strings.Join(onErr, ", ")+"): when the response to a later pipelined request fails, the complete responses to earlier requests that were still in the buffer are dropped with it")
		}
	}
	r.Floor("R9", "flushes of the connection writer after the serve loop", n, 1)
}

// undeclaredSizeIsChunked (C03.R10): a response body stream is written as a body of fixed size only when that size is
// going to be declared: in Response.writeBodyStream every path to the fixed-size writer passes a look at the stored
// Content-Length bytes (empty means no such line will be written) or a call that sets them. Otherwise a deleted
// Content-Length leaves a response with a body and no framing at all.
func undeclaredSizeIsChunked(p *Prog, r *Report) {
	fn := p.Func("(*Response).writeBodyStream")
	fixed := p.Func("writeBodyFixedSize")
	if fn == nil || fixed == nil {
		r.Undecided("R10", "(*Response).writeBodyStream / writeBodyFixedSize", "not found")
		return
	}
	declared := func(i ssa.Instruction) bool {
		switch x := i.(type) {
		case *ssa.If:
			found := false
			var walk func(v ssa.Value, d int)
			walk = func(v ssa.Value, d int) {
				if d > 6 || found || v == nil {
					return
				}
				switch w := v.(type) {
				case *ssa.BinOp:
					walk(w.X, d+1)
					walk(w.Y, d+1)
				case *ssa.UnOp:
					if _, fv := loadedField(w); fv != nil && fv.Name() == "contentLengthBytes" {
						found = true
						return
					}
					walk(w.X, d+1)
				case *ssa.Call:
					for _, a := range w.Call.Args {
						walk(a, d+1)
					}
				case *ssa.Phi:
					for _, e := range w.Edges {
						walk(e, d+1)
					}
				}
			}
			walk(x.Cond, 0)
			return found
		case ssa.CallInstruction:
			f := x.Common().StaticCallee()
			return f != nil && f.Name() == "SetContentLength"
		}
		return false
	}
	// the size handed to the fixed-size writer comes out of a merge that takes -1 (not declared) from a branch that looked
	// at the stored Content-Length bytes: path-insensitive on purpose (the length is tested twice, against < 0 and >= 0,
	// and a path search takes the contradictory combination)
	n := 0
	allCalls(fn, func(b *ssa.BasicBlock, c ssa.CallInstruction) {
		if c.Common().StaticCallee() != fixed || len(c.Common().Args) < 3 {
			return
		}
		n++
		guarded := false
		seen := map[ssa.Value]bool{}
		var walk func(v ssa.Value, d int)
		walk = func(v ssa.Value, d int) {
			if d > 8 || seen[v] || v == nil {
				return
			}
			seen[v] = true
			switch w := v.(type) {
			case *ssa.Convert:
				walk(w.X, d+1)
			case *ssa.ChangeType:
				walk(w.X, d+1)
			case *ssa.Phi:
				for k, e := range w.Edges {
					if kk, isK := constInt(e); isK && kk < 0 {
						pr := w.Block().Preds[k]
						tests := []ssa.Instruction{}
						for cur := pr; cur != nil; cur = cur.Idom() {
							tests = append(tests, cur.Instrs[len(cur.Instrs)-1])
						}
						for _, t := range tests {
							if declared(t) {
								if _, isIf := t.(*ssa.If); isIf {
									guarded = true
								}
							}
						}
					} else {
						walk(e, d+1)
					}
				}
			}
		}
		walk(c.Common().Args[2], 0)
		r.Check("R10", "Response.writeBodyStream: the size of a fixed-size stream body is 'not declared' (-1, chunked) whenever no Content-Length bytes are stored", guarded, p.Pos(c.Pos()),
			"the size given to the fixed-size writer does not come out of a merge that takes -1 under a test of Header.contentLengthBytes: after Del(\"Content-Length\") the numeric length is 0 and no Content-Length line is written - the response has a body stream and no framing, the peer reads the next response as its body")
	})
	r.Floor("R10", "fixed-size writes in Response.writeBodyStream", n, 1)
}
