package main

// E1: pairing of counted resources (acquire => exactly one release on every
// path), decided by path-sensitive exploration with small counters in the
// abstract state. Deferred calls take effect at the function's RunDefers.

import (
	"fmt"

	"golang.org/x/tools/go/ssa"
)

// pairDelta describes the effect of one executed call on up to four tokens.
type pairDelta [4]int8

type pairSpec struct {
	rule, what string
	fn         *ssa.Function
	// effect of a call (for go statements: no effect unless the rule says so)
	effect func(x *Explorer, st *State, c ssa.CallInstruction) (pairDelta, bool)
	// expectation at a return; ok=false means "no obligation on this path".
	// It may consult x.Eval for values (e.g. a returned bool).
	expect func(x *Explorer, st *State, ret *ssa.Return) (want pairDelta, mask [4]bool, ok bool)
	// optional extra hooks
	branch func(x *Explorer, st *State, cond ssa.Value, taken bool, from *ssa.BasicBlock)
	instr  func(x *Explorer, st *State, in ssa.Instruction)
	track  []ssa.Value
	filter func(string) bool
	// a counter may never leave this range on any path (e.g. release before acquire)
	min, max int8
	tokens   [4]string
}

type pairResult struct {
	returns, bad int
	witness      []string
	pos, detail  string
	aborted      bool
}

func runPairing(p *Prog, sp *pairSpec) *pairResult {
	res := &pairResult{}
	fn := sp.fn
	var defers []*ssa.Defer
	for _, b := range fn.Blocks {
		for _, in := range b.Instrs {
			if d, ok := in.(*ssa.Defer); ok {
				defers = append(defers, d)
			}
		}
	}
	const deferBit0 = 48
	fail := func(x *Explorer, st *State, pos string, detail string) {
		res.bad++
		if res.witness == nil {
			res.witness = x.Path(st)
			res.pos = pos
			res.detail = detail
		}
	}
	apply := func(x *Explorer, st *State, c ssa.CallInstruction) {
		d, ok := sp.effect(x, st, c)
		if !ok {
			return
		}
		for i := range d {
			st.N[i] += d[i]
			if d[i] != 0 && (st.N[i] < sp.min || st.N[i] > sp.max) {
				fail(x, st, p.Pos(c.Pos()), fmt.Sprintf("token %q reaches count %d at %s (allowed range %d..%d on any path: a release without a matching acquire, or a second acquire)", sp.tokens[i], st.N[i], calleeName(c), sp.min, sp.max))
				// clamp so exploration stays finite
				if st.N[i] < sp.min {
					st.N[i] = sp.min
				}
				if st.N[i] > sp.max {
					st.N[i] = sp.max
				}
			}
		}
	}
	x := NewExplorer(p, fn, Hooks{
		Instr: func(x *Explorer, st *State, in ssa.Instruction) {
			if sp.instr != nil {
				sp.instr(x, st, in)
			}
			switch in := in.(type) {
			case *ssa.Defer:
				for i, d := range defers {
					if d == in && i < 8 {
						st.Set(1 << uint(deferBit0+i))
					}
				}
			case *ssa.RunDefers:
				for i := len(defers) - 1; i >= 0; i-- {
					if i < 8 && st.Has(1<<uint(deferBit0+i)) {
						apply(x, st, defers[i])
						// 'defer func() { ... }()': the calls the closure makes on every one of its paths take effect here
						if mc, ok := defers[i].Call.Value.(*ssa.MakeClosure); ok {
							if cl, ok := mc.Fn.(*ssa.Function); ok {
								var rets []*ssa.BasicBlock
								for _, cb := range cl.Blocks {
									if _, isRet := cb.Instrs[len(cb.Instrs)-1].(*ssa.Return); isRet {
										rets = append(rets, cb)
									}
								}
								for _, cb := range cl.Blocks {
									always := true
									for _, rb := range rets {
										if !cb.Dominates(rb) {
											always = false
										}
									}
									if !always {
										continue
									}
									for _, ci := range cb.Instrs {
										if cc, ok := ci.(*ssa.Call); ok {
											apply(x, st, cc)
										}
									}
								}
							}
						}
						st.Clear(1 << uint(deferBit0+i))
					}
				}
			case *ssa.Call:
				apply(x, st, in)
			case *ssa.Go:
				apply(x, st, in)
			}
		},
		Branch: sp.branch,
		Exit: func(x *Explorer, st *State, ret *ssa.Return, pan *ssa.Panic) {
			if ret == nil {
				return
			}
			want, mask, ok := sp.expect(x, st, ret)
			if !ok {
				return
			}
			res.returns++
			for i := range want {
				if mask[i] && st.N[i] != want[i] {
					fail(x, st, p.Pos(ret.Pos()), fmt.Sprintf("at this return the net count of %q is %d, expected %d", sp.tokens[i], st.N[i], want[i]))
					return
				}
			}
		},
	})
	for _, v := range sp.track {
		x.Track(v)
	}
	x.Filter = sp.filter
	if x.Filter == nil {
		x.Filter = noIntFilter
	}
	x.TrackAll = true
	x.MaxStates = 2000000
	x.Run(nil)
	res.aborted = x.Aborted
	return res
}

func (res *pairResult) report(p *Prog, r *Report, sp *pairSpec) {
	if res.aborted {
		r.Undecided(sp.rule, sp.what, "state budget exhausted")
		return
	}
	if res.returns == 0 {
		r.Undecided(sp.rule, sp.what, "no return of "+funcName(sp.fn)+" carried an obligation: the rule's anchors no longer match")
		return
	}
	r.Check(sp.rule, sp.what, res.bad == 0, res.pos, fmt.Sprintf("%s (%d of %d explored return arrivals)", res.detail, res.bad, res.returns), res.witness...)
}

// atomicAddDelta: c is x.Add(k) on a typed atomic (Int32/Uint32/Int64...) whose
// receiver is the field named field; returns +1 / -1.
func atomicAddDelta(c ssa.CallInstruction, field string) (int8, bool) {
	f := c.Common().StaticCallee()
	if f == nil || f.Name() != "Add" || f.Pkg == nil || f.Pkg.Pkg.Path() != "sync/atomic" || len(c.Common().Args) != 2 {
		return 0, false
	}
	if fieldPathLast(c.Common().Args[0]) != field {
		return 0, false
	}
	cst, ok := c.Common().Args[1].(*ssa.Const)
	if !ok || cst.Value == nil {
		return 0, false
	}
	s := cst.Value.ExactString()
	switch s {
	case "1":
		return 1, true
	case "-1", "4294967295", "18446744073709551615":
		return -1, true
	}
	return 0, false
}

func fieldPathLast(v ssa.Value) string {
	fp := fieldPath(v)
	for i := len(fp) - 1; i >= 0; i-- {
		if fp[i] == '.' {
			return fp[i+1:]
		}
	}
	return fp
}
